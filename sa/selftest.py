"""V -- testing the checker both ways (thorough tier).

(a) *Seeded variants*: every kept change under /verif/seeded/ that is recorded as caught by this property is applied to
    a scratch copy of the analysed tree; the property's rules must report a violation there.
(b) *Neutral variants*: behaviour-preserving AST rewrites of the whole package (reformatting through ast.unparse,
    renaming every local of every function, swapping the two spellings of evaluate(), `not 0 <= c` vs `c < 0`,
    rewording exception messages, returning through a temporary, inserting no-op statements); the rules must stay silent.
A seeded variant that is not detected, or a neutral variant that raises an alarm, makes the thorough run an analysis
error (exit 2): the checker, not the repository, is broken.  Scratch copies live under tempfile.mkdtemp() and are removed.
"""
import ast
import builtins
import json
import os
import shutil
import subprocess
import tempfile

VERIF = os.path.dirname(os.path.dirname(os.path.abspath(__file__)))
SEEDED = os.path.join(VERIF, "seeded")


# ----------------------------------------------------------------------------- neutral rewrites
class RenameLocals(ast.NodeTransformer):
    """Append a suffix to every local variable (not parameters, globals, or names used by nested functions)."""

    def visit_FunctionDef(self, node):
        self.generic_visit(node)
        params = {a.arg for a in node.args.posonlyargs + node.args.args + node.args.kwonlyargs}
        if node.args.vararg:
            params.add(node.args.vararg.arg)
        if node.args.kwarg:
            params.add(node.args.kwarg.arg)
        stores, inner_used, declared = set(), set(), set()
        for n in ast.walk(node):
            if isinstance(n, (ast.Global, ast.Nonlocal)):
                declared.update(n.names)
        for ch in node.body:
            for n in ast.walk(ch):
                if isinstance(n, (ast.FunctionDef, ast.Lambda, ast.ClassDef)) :
                    for m in ast.walk(n):
                        if isinstance(m, ast.Name):
                            inner_used.add(m.id)
                    if isinstance(n, (ast.FunctionDef, ast.ClassDef)):
                        inner_used.add(n.name)
                if isinstance(n, (ast.ListComp, ast.GeneratorExp, ast.SetComp, ast.DictComp)):
                    for m in ast.walk(n):
                        if isinstance(m, ast.Name):
                            inner_used.add(m.id)
        for n in ast.walk(node):
            if isinstance(n, ast.Name) and isinstance(n.ctx, ast.Store):
                stores.add(n.id)
            if isinstance(n, ast.ExceptHandler) and n.name:
                inner_used.add(n.name)
        ren = {s for s in stores if s not in params and s not in inner_used and s not in declared and not s.startswith("__")}

        class R(ast.NodeTransformer):
            def visit_Name(s, n):
                if n.id in ren:
                    n.id = n.id + "_v"
                return n

            def visit_FunctionDef(s, n):
                return n

            def visit_Lambda(s, n):
                return n

            def visit_ClassDef(s, n):
                return n
        for i, ch in enumerate(node.body):
            node.body[i] = R().visit(ch)
        return node


class SwapEvaluate(ast.NodeTransformer):
    """evaluate(self.x, ctx)  <->  self.x(ctx) if callable(self.x) else self.x"""

    def visit_Call(self, node):
        self.generic_visit(node)
        if isinstance(node.func, ast.Name) and node.func.id == "evaluate" and len(node.args) == 2 and isinstance(node.args[0], ast.Attribute):
            p, c = node.args
            return ast.IfExp(test=ast.Call(func=ast.Name(id="callable", ctx=ast.Load()), args=[p], keywords=[]),
                             body=ast.Call(func=p, args=[c], keywords=[]), orelse=p)
        return node

    def visit_IfExp(self, node):
        self.generic_visit(node)
        t, b, o = node.test, node.body, node.orelse
        if isinstance(t, ast.Call) and isinstance(t.func, ast.Name) and t.func.id == "callable" and len(t.args) == 1 and isinstance(b, ast.Call) \
                and len(b.args) == 1 and not b.keywords and ast.dump(b.func) == ast.dump(t.args[0]) == ast.dump(o) and isinstance(o, ast.Attribute):
            return ast.Call(func=ast.Name(id="evaluate", ctx=ast.Load()), args=[o, b.args[0]], keywords=[])
        return node

    def visit_FunctionDef(self, node):
        if node.name == "evaluate":
            return node
        self.generic_visit(node)
        return node


class FlipComparisons(ast.NodeTransformer):
    """not a <= b  ->  b < a ;   a < 0  ->  not 0 <= a"""

    def visit_UnaryOp(self, node):
        self.generic_visit(node)
        if isinstance(node.op, ast.Not) and isinstance(node.operand, ast.Compare) and len(node.operand.ops) == 1:
            c = node.operand
            inv = {ast.LtE: ast.Gt, ast.Lt: ast.GtE, ast.GtE: ast.Lt, ast.Gt: ast.LtE, ast.Eq: ast.NotEq, ast.NotEq: ast.Eq}
            if type(c.ops[0]) in inv:
                return ast.Compare(left=c.left, ops=[inv[type(c.ops[0])]()], comparators=c.comparators)
        return node


class RewordMessages(ast.NodeTransformer):
    def visit_Raise(self, node):
        if isinstance(node.exc, ast.Call) and node.exc.args and isinstance(node.exc.args[0], (ast.Constant, ast.JoinedStr, ast.BinOp)):
            first = node.exc.args[0]
            if isinstance(first, ast.Constant) and not isinstance(first.value, str):
                return node
            node.exc.args[0] = ast.Constant(value="reworded message")
        return node


class ReturnViaTemp(ast.NodeTransformer):
    """return X  ->  ret_tmp = X; return ret_tmp   (only in plain methods of core.py, not in emitters that return templates)"""

    def visit_FunctionDef(self, node):
        if node.name.startswith("_emit") or node.name.startswith("__") or any(isinstance(n, (ast.FunctionDef, ast.Lambda)) and n is not node for n in ast.walk(node)):
            return node
        new = []
        for st in node.body:
            if isinstance(st, ast.Return) and st.value is not None and not isinstance(st.value, (ast.Constant, ast.Name)):
                new.append(ast.Assign(targets=[ast.Name(id="ret_tmp", ctx=ast.Store())], value=st.value, lineno=st.lineno))
                new.append(ast.Return(value=ast.Name(id="ret_tmp", ctx=ast.Load())))
            else:
                new.append(st)
        node.body = new
        return node


class InsertNoops(ast.NodeTransformer):
    def visit_FunctionDef(self, node):
        self.generic_visit(node)
        if node.name.startswith("_emit"):
            return node
        body = list(node.body)
        start = 1 if body and isinstance(body[0], ast.Expr) and isinstance(body[0].value, ast.Constant) and isinstance(body[0].value.value, str) else 0
        body.insert(start, ast.Pass())
        node.body = body
        return node


class ExtractArgument(ast.NodeTransformer):
    """f(a, EXPR, c) as a statement / assignment  ->  arg_tmp = EXPR; f(a, arg_tmp, c)   for the first non-trivial argument
    of stream_* helper calls and sub-construct calls (argument evaluation order is preserved: earlier arguments are names)."""

    TARGETS = ("stream_read", "stream_write", "stream_seek")

    def visit_FunctionDef(self, node):
        self.generic_visit(node)
        if node.name.startswith("_emit"):
            return node
        node.body = self._block(node.body)
        return node

    def _block(self, stmts):
        out = []
        for st in stmts:
            for field in ("body", "orelse", "finalbody"):
                if hasattr(st, field) and isinstance(getattr(st, field), list) and not isinstance(st, (ast.FunctionDef, ast.ClassDef)):
                    setattr(st, field, self._block(getattr(st, field)))
            if isinstance(st, ast.Try):
                for h in st.handlers:
                    h.body = self._block(h.body)
            call = None
            if isinstance(st, ast.Expr) and isinstance(st.value, ast.Call):
                call = st.value
            elif isinstance(st, ast.Assign) and isinstance(st.value, ast.Call):
                call = st.value
            if call is not None and isinstance(call.func, ast.Name) and call.func.id in self.TARGETS and len(call.args) >= 2 \
                    and all(isinstance(a, ast.Name) for a in call.args[:1]) and isinstance(call.args[1], (ast.BinOp, ast.Attribute, ast.Call)) \
                    and not any(isinstance(n, ast.Call) for a in call.args[2:] for n in ast.walk(a)):
                tmp = ast.Name(id="arg_tmp", ctx=ast.Store())
                out.append(ast.Assign(targets=[tmp], value=call.args[1], lineno=st.lineno))
                call.args[1] = ast.Name(id="arg_tmp", ctx=ast.Load())
            out.append(st)
        return out


class ReorderAssignments(ast.NodeTransformer):
    """Swap two adjacent assignments  a = <name/attr/const>; b = <name/attr/const>  that do not mention each other."""

    def visit_FunctionDef(self, node):
        self.generic_visit(node)
        body = list(node.body)
        i = 0
        while i + 1 < len(body):
            a, b = body[i], body[i + 1]
            if self.simple(a) and self.simple(b):
                na, nb = a.targets[0].id, b.targets[0].id
                ra = {n.id for n in ast.walk(a.value) if isinstance(n, ast.Name)}
                rb = {n.id for n in ast.walk(b.value) if isinstance(n, ast.Name)}
                if na != nb and na not in rb and nb not in ra:
                    body[i], body[i + 1] = b, a
                    i += 2
                    continue
            i += 1
        node.body = body
        return node

    @staticmethod
    def simple(st):
        return isinstance(st, ast.Assign) and len(st.targets) == 1 and isinstance(st.targets[0], ast.Name) and \
            isinstance(st.value, (ast.Name, ast.Attribute, ast.Constant)) and not any(isinstance(n, ast.Call) for n in ast.walk(st.value))


class SwapIfElse(ast.NodeTransformer):
    """if c: A else: B  ->  if not c: B else: A   (plain two-armed ifs; elif chains are left alone)"""

    def visit_If(self, node):
        self.generic_visit(node)
        if node.orelse and not (len(node.orelse) == 1 and isinstance(node.orelse[0], ast.If)) and not (len(node.body) == 1 and isinstance(node.body[0], ast.If)):
            t = node.test
            neg = t.operand if isinstance(t, ast.UnaryOp) and isinstance(t.op, ast.Not) else ast.UnaryOp(op=ast.Not(), operand=t)
            return ast.If(test=neg, body=node.orelse, orelse=node.body)
        return node


class ExpandAugAssign(ast.NodeTransformer):
    """x op= y  ->  x = x op y   for local names and operators that cannot alias a mutable object"""

    SAFE = (ast.Sub, ast.RShift, ast.LShift, ast.BitOr, ast.BitAnd, ast.Mult, ast.FloorDiv, ast.Mod)

    def visit_AugAssign(self, node):
        if isinstance(node.target, ast.Name) and (isinstance(node.op, self.SAFE) or (isinstance(node.op, ast.Add) and isinstance(node.value, ast.Constant) and isinstance(node.value.value, int))):
            return ast.Assign(targets=[ast.Name(id=node.target.id, ctx=ast.Store())], value=ast.BinOp(left=ast.Name(id=node.target.id, ctx=ast.Load()), op=node.op, right=node.value), lineno=node.lineno)
        return node


class RenameCompVars(ast.NodeTransformer):
    """Rename the target variables of every comprehension (scoped to the comprehension)."""

    def _do(self, node):
        self.generic_visit(node)
        names = set()
        for g in node.generators:
            for n in ast.walk(g.target):
                if isinstance(n, ast.Name):
                    names.add(n.id)
        inner = {m.id for n in ast.walk(node) if isinstance(n, ast.Lambda) for m in ast.walk(n) if isinstance(m, ast.Name)}
        names -= inner
        for n in ast.walk(node):
            if isinstance(n, ast.Name) and n.id in names:
                n.id = n.id + "_c"
        return node

    visit_ListComp = visit_SetComp = visit_DictComp = visit_GeneratorExp = _do


class SwapEqOperands(ast.NodeTransformer):
    """a == b -> b == a, likewise != / is / is not (operands without calls, so evaluation order does not matter)"""

    def visit_Compare(self, node):
        self.generic_visit(node)
        if len(node.ops) == 1 and isinstance(node.ops[0], (ast.Eq, ast.NotEq, ast.Is, ast.IsNot)) and \
                not any(isinstance(n, (ast.Call, ast.Await, ast.Yield)) for x in (node.left, node.comparators[0]) for n in ast.walk(x)):
            return ast.Compare(left=node.comparators[0], ops=node.ops, comparators=[node.left])
        return node


class ElifToNested(ast.NodeTransformer):
    """if a: A elif b: B else: C  ->  if a: A else: (if b: B else: C) followed by a no-op, so that unparse prints the nested form"""

    def visit_If(self, node):
        self.generic_visit(node)
        if len(node.orelse) == 1 and isinstance(node.orelse[0], ast.If):
            node.orelse = [node.orelse[0], ast.Pass()]
        return node


class KeywordPath(ast.NodeTransformer):
    """stream_xxx(stream, ..., path)  ->  stream_xxx(stream, ..., path=path)   (the helpers' last parameter passed by keyword)"""

    HELPERS = {"stream_read": 3, "stream_write": 4, "stream_seek": 4, "stream_tell": 2, "stream_read_entire": 2, "stream_size": 1, "stream_iseof": 1}

    def visit_Call(self, node):
        self.generic_visit(node)
        if isinstance(node.func, ast.Name) and node.func.id in self.HELPERS and len(node.args) == self.HELPERS[node.func.id] and not node.keywords \
                and isinstance(node.args[-1], ast.Name) and node.args[-1].id == "path":
            node.keywords = [ast.keyword(arg="path", value=node.args[-1])]
            node.args = node.args[:-1]
        return node


NEUTRAL = [
    ("reformat (ast.unparse of every module)", None),
    ("rename every local variable", RenameLocals),
    ("swap evaluate(x, ctx) with its inline spelling", SwapEvaluate),
    ("rewrite negated comparisons", FlipComparisons),
    ("reword every exception message", RewordMessages),
    ("return through a temporary", ReturnViaTemp),
    ("insert no-op statements", InsertNoops),
    ("extract a call argument into a local", ExtractArgument),
    ("reorder independent adjacent assignments", ReorderAssignments),
    ("swap the arms of two-armed ifs", SwapIfElse),
    ("expand augmented assignments of locals", ExpandAugAssign),
    ("rename comprehension variables", RenameCompVars),
    ("swap the operands of == / != / is", SwapEqOperands),
    ("turn elif chains into nested ifs", ElifToNested),
    ("pass path to the stream helpers by keyword", KeywordPath),
]


def copy_tree(root):
    d = tempfile.mkdtemp(prefix="sa_selftest_")
    shutil.copytree(os.path.join(root, "construct"), os.path.join(d, "construct"), ignore=shutil.ignore_patterns("__pycache__"))
    if os.path.isdir(os.path.join(root, "docs")):
        shutil.copytree(os.path.join(root, "docs"), os.path.join(d, "docs"))
    return d


def rewrite_tree(d, transformer):
    for dp, dn, fn in os.walk(os.path.join(d, "construct")):
        for f in fn:
            if f.endswith(".py"):
                p = os.path.join(dp, f)
                with open(p, encoding="utf-8") as fh:
                    src = fh.read()
                tree = ast.parse(src)
                if transformer is not None:
                    tree = ast.fix_missing_locations(transformer().visit(tree))
                out = ast.unparse(tree)
                compile(out, p, "exec")        # every variant must still byte-compile
                with open(p, "w", encoding="utf-8") as fh:
                    fh.write(out + "\n")


def seeded_for(prop):
    out = []
    if not os.path.isdir(SEEDED):
        return out
    for sid in sorted(os.listdir(SEEDED)):
        mp = os.path.join(SEEDED, sid, "meta.json")
        if not os.path.exists(mp):
            continue
        meta = json.load(open(mp))
        if not meta.get("kept", True):
            continue
        if prop in meta.get("caught_by", {}):
            out.append((sid, os.path.join(SEEDED, sid, "patch.diff"), meta))
    if os.environ.get("SA_SELFTEST_FULL") == "1":
        return out
    # default: every kept change seeded *for this property*, and a fixed sample (every 12th, by id) of the changes seeded for other properties
    # that this property's check also reports; the full set (several hundred for the properties that share many rules) with SA_SELFTEST_FULL=1
    own = [x for x in out if x[0].startswith(prop + "-")]
    other = [x for x in out if not x[0].startswith(prop + "-")]
    return own + other[::12]


TWINS = os.path.join(os.path.dirname(SEEDED), "twins")


def twins(prop=None):
    """Stored behaviour-preserving refactorings (verified by tools/verify_twins.py: test suite at baseline, all 20 checks silent when stored):
    must stay silent.  Default: the hand-made ones and those written for this property; all of them with SA_SELFTEST_FULL=1."""
    out = []
    if os.path.isdir(TWINS):
        for name in sorted(os.listdir(TWINS)):
            if prop is not None and os.environ.get("SA_SELFTEST_FULL") != "1" and name[:2] in ("T7", "T8", "T9") and ("-" + prop) not in name:
                continue
            pp = os.path.join(TWINS, name, "patch.diff")
            if os.path.exists(pp):
                out.append((name, pp))
    return out


_ANALYSE = None


def _job(args):
    """One variant in a worker process (forked, so the analyser closure and the loaded modules are inherited)."""
    kind, prop, root, a, b = args
    d = copy_tree(root)
    try:
        if kind == "seeded":
            sid, patch = a, b
            r = subprocess.run(["patch", "-p1", "-s", "-d", d, "-i", patch], capture_output=True, text=True)
            if r.returncode != 0:
                return (kind, sid, "skip", [], [])
            viol, errs = _ANALYSE(prop, d)
            return (kind, sid, "ok", viol, errs)
        if kind == "twin":
            name, patch = a, b
            r = subprocess.run(["patch", "-p1", "-s", "-d", d, "-i", patch], capture_output=True, text=True)
            if r.returncode != 0:
                return (kind, name, "skip", [], [])
            viol, errs = _ANALYSE(prop, d)
            return (kind, name, "ok", viol, errs)
        label, idx = a, b
        try:
            rewrite_tree(d, NEUTRAL[idx][1])
        except SyntaxError as e:
            return (kind, label, "syntax", [str(e)], [])
        viol, errs = _ANALYSE(prop, d)
        return (kind, label, "ok", viol, errs)
    finally:
        shutil.rmtree(d, ignore_errors=True)


def run(prop, root, analyse):
    """analyse(prop, root) -> (violations, errors).  Returns dict for the evidence and a list of problems.
    Variants are analysed in parallel worker processes (fork), one scratch copy each."""
    global _ANALYSE
    import multiprocessing
    from concurrent.futures import ProcessPoolExecutor
    _ANALYSE = analyse
    report = {"seeded": [], "neutral": [], "twins": []}
    problems = []
    seeds = seeded_for(prop)
    meta_of = {sid: meta for sid, patch, meta in seeds}
    jobs = [("seeded", prop, root, sid, patch) for sid, patch, meta in seeds] + [("neutral", prop, root, label, i) for i, (label, tr) in enumerate(NEUTRAL)] \
        + [("twin", prop, root, name, patch) for name, patch in twins(prop)]
    workers = max(1, min(int(os.environ.get("SA_JOBS", "0")) or (os.cpu_count() or 4), 12, len(jobs)))
    try:
        ctxmp = multiprocessing.get_context("fork")
        with ProcessPoolExecutor(max_workers=workers, mp_context=ctxmp) as ex:
            results = list(ex.map(_job, jobs))
    except (OSError, ValueError, RuntimeError):
        results = [_job(j) for j in jobs]        # no fork / no pool available: run in this process
    for kind, ident, status, viol, errs in results:
        if kind == "seeded":
            if status == "skip":
                report["seeded"].append({"id": ident, "result": "patch does not apply to this tree (skipped)"})
                continue
            fired = len(viol) > 0
            report["seeded"].append({"id": ident, "fired": fired, "first": viol[0] if viol else None})
            if not fired:
                problems.append("seeded variant %s (%s) is not detected" % (ident, meta_of[ident].get("summary", "")[:80]))
        elif kind == "twin":
            if status == "skip":
                report["twins"].append({"twin": ident, "result": "patch does not apply to this tree (skipped)"})
                continue
            report["twins"].append({"twin": ident, "silent": not viol and not errs, "alarms": viol[:2], "errors": errs[:2]})
            if viol or errs:
                problems.append("behaviour-preserving refactoring '%s' raises an alarm: %s" % (ident, (viol + errs)[0][:300]))
        else:
            if status == "syntax":
                problems.append("neutral variant '%s' does not compile: %s" % (ident, viol[0]))
                continue
            report["neutral"].append({"variant": ident, "silent": not viol and not errs, "alarms": viol[:2], "errors": errs[:2]})
            if viol or errs:
                problems.append("neutral variant '%s' raises an alarm: %s" % (ident, (viol + errs)[0][:300]))
    return report, problems
