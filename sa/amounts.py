"""Net stream amounts of _parse / _build and the return term of _sizeof, under the compositional
abstraction  delta(sub) -> SZ(sub)  ("a sub-construct moves the stream by what its own _sizeof returns")."""
from . import norm as N
from .pos import Trace, P0, TOP, is_top, PARSE_LIKE, BUILD_LIKE

STREAM = ("param", "stream")
CTX = ("param", "context")


class LoopTrace(Trace):
    """Trace that folds a completed loop into  before + loopsum(iter, per-iteration amount)."""

    def _run(self):
        super()._run()

    def net(self):
        return None


def _canon_iter(it):
    # enumerate(x) iterates x; range(n) iterates n times
    if it[0] == "call" and it[1] == ("free", "enumerate") and it[2]:
        return it[2][0]
    return it


def fold_loops(path, stream, abstract=True):
    """Return (amount term, ok) for the net movement of `stream` along `path`; loops that ran to exhaustion are
    folded to loopsum(iter, body amount); paths leaving a loop by break/return yield ok=False."""
    t = Trace(path, stream, abstract_sz=abstract)
    if is_top(t.final):
        return TOP, t
    # walk steps, folding loops
    pos = P0(stream)
    stack = []      # (lid, iter term, pos at loop entry, pos at ITER)
    total = None
    evs = path.events
    cur = P0(stream)
    offset = N.const(0)          # correction added to raw trace positions after folding
    loops = {}
    for e, before, after in t.steps:
        if e.kind == "LOOP":
            loops[e["lid"]] = {"iter": e["iter"], "entry": before, "kind": e["kind"]}
        elif e.kind == "ITER":
            loops[e["lid"]]["iterpos"] = before
        elif e.kind == "LOOPEND":
            L = loops.get(e["lid"])
            if L is None:
                continue
            if e["how"] == "break":
                return ("BREAK",), t
            if e["how"] == "zero":
                L["body"] = None
            else:
                body = N.mk_add(before, L["iterpos"], -1)
                # induction over iterations: a loop-carried accumulator that held the loop-entry position before the
                # loop holds the current position at the start of each iteration (lazy offset tables)
                hyp = {}
                for x in N.walk(body):
                    if x[0] == "lv" and x[2] == e["lid"] and x[3] is not None and x[3] == L["entry"]:
                        hyp[x] = L["iterpos"]
                if hyp:
                    body = N.rebuild(body, hyp)
                L["body_raw"] = N.mk_add(before, L["iterpos"], -1)
                L["body"] = body
            L["done"] = True
    if any("iterpos" in L and not L.get("done") for L in loops.values()):
        # the path left a loop from inside an iteration without a LOOPEND (an exception caught outside the loop, a return): the iterations
        # before the one shown moved the stream by an unknown amount -- the same situation as `break`
        return ("BREAK",), t
    amount = N.mk_add(t.final, P0(stream), -1)
    # replace each exhausted loop's single-iteration contribution by a loopsum
    for lid, L in loops.items():
        if not L.get("done"):
            continue
        if L.get("body") is None:
            # zero iterations explored: contribution unknown in general
            return ("ZERO",), t
        body = N.canon_lids(L["body"])
        if body == N.const(0):
            continue
        it = N.canon_lids(_canon_iter(L["iter"]))
        amount = N.mk_add(N.mk_add(amount, L.get("body_raw", L["body"]), -1), ("loopsum", it, body))
    return amount, t


def sz_abstract(term):
    """subres('_sizeof'|'_actualsize'|'sizeof', X, k) -> SZ(X)."""
    m = {}
    for x in N.walk(term):
        if x[0] == "subres" and x[1] in ("_sizeof", "_actualsize", "sizeof"):
            m[x] = ("SZ", x[2])
    return N.rebuild(term, m) if m else term


def fold_sum(term):
    """sum(SZ(elem) for elem in X) -> loopsum(X, SZ(elem));  n * b stays."""
    if term[0] == "call" and term[1] == ("free", "sum") and len(term[2]) == 1 and term[2][0][0] == "comp":
        c = N.canon_lids(term[2][0])
        gens = c[3]
        if len(gens) == 1 and not gens[0][1]:
            return ("loopsum", _canon_iter(gens[0][0]), c[2])
    return term


def norm_loopsum(term, equalities=()):
    """loopsum(range(n), b) with b independent of the loop -> n*b ; loopsum(x, b) with len(x)==n known -> n*b."""
    m = {}
    for x in N.walk(term):
        if x[0] == "loopsum":
            it, body = x[1], x[2]
            dep = any(y[0] in ("elem", "idx", "key", "val") for y in N.walk(body))
            if dep:
                continue
            n = None
            if it[0] == "call" and it[1] == ("free", "range") and len(it[2]) == 1:
                n = it[2][0]
            else:
                ln = ("call", ("free", "len"), (it,), ())
                n = ln
                for a, b in equalities:
                    if a == ln:
                        n = b
                    elif b == ln:
                        n = a
            if n is not None:
                m[x] = N.mk_mul(n, body)
    return N.rebuild(term, m) if m else term


def resolve_scratch(path, term, abstract=True):
    """len(getvalue(scratch BytesIO)) -> net amount written into that scratch stream on this path."""
    m = {}
    for x in N.walk(term):
        if x[0] == "call" and x[1] == ("free", "len") and len(x[2]) == 1 and x[2][0][0] == "getvalue":
            s2 = x[2][0][1]
            t = Trace(path, s2, abstract_sz=abstract)
            if not is_top(t.final):
                m[x] = N.mk_add(t.final, P0(s2), -1)
    return N.rebuild(term, m) if m else term


def config_guards(path):
    """Guards that only talk about the construct's own configuration (self.<attr> / EVAL(self.<attr>))."""
    out = set()
    for g in path.guards():
        atoms = [x for x in N.walk(g) if x[0] in ("param", "subres", "read", "readall", "tell", "new", "newctx", "getvalue", "lv", "elem", "idx")]
        atoms = [x for x in atoms if x not in (("param", "self"), ("param", "context"))]
        if not atoms:
            out.add(g)
    return frozenset(out)


def compatible(g1, g2):
    return not any(N.mk_not(g) in g2 for g in g1)


def equalities(path):
    out = []
    for g in path.guards():
        if g[0] == "cmp" and g[1] == "==":
            out.append((g[2], g[3]))
    return out


MARKERS = (("BREAK",), ("ZERO",), TOP)


def method_amounts(S, model, cls, meth, stream=STREAM):
    """[(config guards, amount term, path)] for the returning paths of cls.meth (markers BREAK/ZERO/TOP kept)."""
    fi = model.resolve(cls, meth)
    if fi is None:
        return None, []
    paths = S.summarise(fi, self_cls=cls)
    out = []
    for p in paths:
        if not p.returns:
            continue
        a, t = fold_loops(p, stream)
        if a not in MARKERS and not is_top(a):
            a = sz_abstract(a)
            a = resolve_scratch(p, a)
            a = norm_loopsum(a, equalities(p))
        out.append((config_guards(p), a, p))
    return fi, out


def sizeof_amounts(S, model, cls):
    fi = model.resolve(cls, "_sizeof")
    paths = S.summarise(fi, self_cls=cls)
    out = []
    for p in paths:
        if p.returns:
            a = norm_loopsum(fold_sum(sz_abstract(p.retval)), equalities(p))
            out.append((config_guards(p), a, p))
    return fi, out, paths
