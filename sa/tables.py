"""K -- hand-written, independent specification tables (each with its source).

Nothing here is derived from the analysed repository; the rules compare what
they extract from /repo against these tables.
"""
from fractions import Fraction

# ---- struct format characters: Python library reference, "struct -- Format Characters" (standard sizes)
#      code -> (size in bytes, kind, signed)
STRUCT_CODES = {
    "B": (1, "int", False), "H": (2, "int", False), "L": (4, "int", False), "Q": (8, "int", False),
    "b": (1, "int", True), "h": (2, "int", True), "l": (4, "int", True), "q": (8, "int", True),
    "e": (2, "float", None), "f": (4, "float", None), "d": (8, "float", None),
}
# byte-order characters: ">" big-endian, "<" little-endian, "=" native order with standard sizes
STRUCT_ORDER = {"b": ">", "l": "<", "n": "="}

# ---- public numeric names of construct (docs: "Int8ub ... Int64sn, Int24*, Float16/32/64 b/l/n") and the
#      documented shorthand aliases (core docs: Byte/Short/Int/Long are unsigned big-endian, Half/Single/Double big-endian)
SHORTHANDS = {"Byte": "Int8ub", "Short": "Int16ub", "Int": "Int32ub", "Long": "Int64ub",
              "Half": "Float16b", "Single": "Float32b", "Double": "Float64b"}
BIT_NAMES = {"Bit": 1, "Nibble": 4, "Octet": 8}
INT_CODE = {(8, False): "B", (16, False): "H", (32, False): "L", (64, False): "Q",
            (8, True): "b", (16, True): "h", (32, True): "l", (64, True): "q"}
FLOAT_CODE = {16: "e", 32: "f", 64: "d"}

# ---- unit size of the explicitly supported string encodings (Unicode standard: code unit widths)
CODEC_UNITS = {"ascii": 1, "utf8": 1, "utf_8": 1, "u8": 1,
               "utf16": 2, "utf_16": 2, "u16": 2, "utf_16_be": 2, "utf_16_le": 2,
               "utf32": 4, "utf_32": 4, "u32": 4, "utf_32_be": 4, "utf_32_le": 4}

# ---- helpers of construct.lib.binary: inverse pairs and unit arithmetic
#      (semantic facts from the property statements C10/C15: a bit-string uses one byte per bit, MSB first;
#       swaps are involutions).  name -> (input granule in units, output units per input unit)
HELPER_UNITS = {
    "bytes2bits": (1, Fraction(8)),         # one byte in, eight bit-bytes out
    "bits2bytes": (8, Fraction(1, 8)),      # eight bit-bytes in, one byte out
    "swapbitsinbytes": (1, Fraction(1)),    # byte-wise involution
    "swapbytes": (None, Fraction(1)),       # whole-buffer involution (needs the complete region)
    "swapbytesinbits": (None, Fraction(1)),
}
INVERSE_PAIRS = {
    frozenset(("bytes2bits", "bits2bytes")),
    frozenset(("swapbytes",)), frozenset(("swapbitsinbytes",)), frozenset(("swapbytesinbits",)),
    frozenset(("integer2bytes", "bytes2integer")), frozenset(("integer2bits", "bits2integer")),
}
# which helper produces the representation the inner construct of each macro works on (C10: Bitwise regions are bit-strings)
MACRO_DECODER = {"Bitwise": "bytes2bits", "Bytewise": "bits2bytes", "BitsSwapped": "swapbitsinbytes", "ByteSwapped": "swapbytes"}

# ---- Python operators: language reference 3.3.8 "Emulating numeric types", 6.x operator precedence, and the
#      `operator` module mapping table ("Mapping Operators to Functions")
#      dunder -> (operator function, reflected?, python spelling)
BINARY_DUNDERS = {
    "__add__": ("add", False, "+"), "__sub__": ("sub", False, "-"), "__mul__": ("mul", False, "*"),
    "__floordiv__": ("floordiv", False, "//"), "__truediv__": ("truediv", False, "/"), "__mod__": ("mod", False, "%"),
    "__pow__": ("pow", False, "**"), "__xor__": ("xor", False, "^"), "__rshift__": ("rshift", False, ">>"),
    "__lshift__": ("lshift", False, "<<"), "__and__": ("and_", False, "&"), "__or__": ("or_", False, "|"),
    "__radd__": ("add", True, "+"), "__rsub__": ("sub", True, "-"), "__rmul__": ("mul", True, "*"),
    "__rfloordiv__": ("floordiv", True, "//"), "__rtruediv__": ("truediv", True, "/"), "__rmod__": ("mod", True, "%"),
    "__rpow__": ("pow", True, "**"), "__rxor__": ("xor", True, "^"), "__rrshift__": ("rshift", True, ">>"),
    "__rlshift__": ("lshift", True, "<<"), "__rand__": ("and_", True, "&"), "__ror__": ("or_", True, "|"),
    "__gt__": ("gt", False, ">"), "__ge__": ("ge", False, ">="), "__lt__": ("lt", False, "<"), "__le__": ("le", False, "<="),
    "__eq__": ("eq", False, "=="), "__ne__": ("ne", False, "!="),
}
UNARY_DUNDERS = {"__neg__": ("neg", "-"), "__pos__": ("pos", "+")}
# library-documented deviations (frozen): ~x means logical not; __div__/__rdiv__ are py2 aliases; truediv is reached as operator.div
DUNDER_DEVIATIONS = {"__invert__": ("not_", "not")}
OPERATOR_ALIASES = {"div": "truediv"}
OP_SYMBOL = {"add": "+", "sub": "-", "mul": "*", "truediv": "/", "floordiv": "//", "mod": "%", "pow": "**", "xor": "^",
             "lshift": "<<", "rshift": ">>", "and_": "&", "or_": "|", "not_": "not", "neg": "-", "pos": "+",
             "gt": ">", "ge": ">=", "lt": "<", "le": "<=", "eq": "==", "ne": "!=", "contains": "in"}

# ---- Kaitai Struct: attribute keys of a seq/instances entry (KSY reference, "Attribute spec") plus top-level type keys
KAITAI_ATTR_KEYS = {
    "id", "doc", "doc-ref", "contents", "type", "repeat", "repeat-expr", "repeat-until", "if", "size", "size-eos",
    "process", "enum", "encoding", "pad-right", "terminator", "consume", "include", "eos-error", "pos", "io", "value",
}
KAITAI_TYPE_KEYS = {"meta", "doc", "doc-ref", "params", "seq", "types", "instances", "enums"}
KAITAI_REPEAT = {"expr", "eos", "until"}
