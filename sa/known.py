"""Frozen table: the package-level functions (and macro factories) of construct as of the pinned tree.  Rules treat calls of these as atoms
with a known meaning (stream_read is a READ event, integer2bits has its own reference rule, ...).  A package-level function that is NOT in
this table was introduced by an edit -- a helper extracted from some method -- and has no rule of its own: the summariser runs it in place at
its call sites (all exits, loops included), so that the callers are judged on what the helper does, whatever it is called."""
PACKAGE_FUNCTIONS = frozenset((
    'AlignedStruct', 'Bit', 'BitStruct', 'BitsSwapped', 'Bitwise', 'ByteSwapped', 'Bytewise', 'CString',
    'Filter', 'Float16b', 'Float16l', 'Float16n', 'Float32b', 'Float32l', 'Float32n', 'Float64b',
    'Float64l', 'Float64n', 'GreedyString', 'If', 'Int16sb', 'Int16sl', 'Int16sn', 'Int16ub',
    'Int16ul', 'Int16un', 'Int24sb', 'Int24sl', 'Int24sn', 'Int24ub', 'Int24ul', 'Int24un',
    'Int32sb', 'Int32sl', 'Int32sn', 'Int32ub', 'Int32ul', 'Int32un', 'Int64sb', 'Int64sl',
    'Int64sn', 'Int64ub', 'Int64ul', 'Int64un', 'Int8sb', 'Int8sl', 'Int8sn', 'Int8ub',
    'Int8ul', 'Int8un', 'Nibble', 'NoneOf', 'Octet', 'OneOf', 'Optional', 'PaddedString',
    'Padding', 'PascalString', 'PrefixedArray', 'Timestamp', '_operand', 'bits2bytes', 'bits2integer', 'byte2int',
    'bytes2bits', 'bytes2integer', 'bytes2str', 'encodingunit', 'evaluate', 'extractfield', 'hexdump', 'hexlify',
    'hexundump', 'hyphenatedict', 'hyphenatelist', 'int2byte', 'integer2bits', 'integer2bytes', 'recursion_lock', 'setGlobalPrintFalseFlags',
    'setGlobalPrintFullStrings', 'setGlobalPrintPrivateEntries', 'singleton', 'str2bytes', 'stream_iseof', 'stream_read', 'stream_read_entire', 'stream_seek',
    'stream_size', 'stream_tell', 'stream_write', 'swapbitsinbytes', 'swapbytes', 'swapbytesinbits', 'trimstring', 'unhexlify',
    'value_to_string',
))
