"""T -- recovery of the source templates that _emitparse/_emitbuild (and compile()) generate.

The emitters build Python source with f-strings, %-formatting and `block += ...`
inside loops over members.  T evaluates the *string-building* part of an emitter
symbolically (nothing is executed) into a piece tree

    text | hole(expr, conversion) | sub(kind, target expr) | if(cond, then, else) | for(target, iter, body[, sep])

and renders it to parseable Python text in which every hole is a placeholder
identifier.  One template per class covers every instance of that class.
"""
import ast
import itertools
import re
import textwrap

from .model import AnalysisError, FuncInfo, norm_text


class Piece:
    pass


class Text(Piece):
    def __init__(self, s):
        self.s = s


class Hole(Piece):
    def __init__(self, node, conv, lineno=0):
        self.node, self.conv, self.lineno = node, conv, lineno   # conv: 'str' | 'repr'


class Sub(Piece):
    def __init__(self, kind, target, lineno=0):
        self.kind, self.target, self.lineno = kind, target, lineno   # kind: 'parse' | 'build'


class If(Piece):
    def __init__(self, cond, then, orelse):
        self.cond, self.then, self.orelse = cond, then, orelse


class For(Piece):
    def __init__(self, target, iter_, body, sep="", stmt=False):
        self.target, self.iter, self.body, self.sep, self.stmt = target, iter_, body, sep, stmt


class NotTemplate(Exception):
    pass


class Emitted:
    """Result of evaluating one emitter."""

    def __init__(self, fi):
        self.fi = fi
        self.blocks = []        # list of piece lists handed to code.append (in order), each with the config conditions in force
        self.ret = None         # piece list of the returned expression
        self.conds = []         # statement-level config conditions (ast) with polarity for this variant
        self.not_implemented = False
        self.env = {}
        self.userfunc = False


def _is_code_call(node, meth):
    return isinstance(node, ast.Call) and isinstance(node.func, ast.Attribute) and node.func.attr == meth and \
        isinstance(node.func.value, ast.Name) and node.func.value.id == "code"


class TemplateEvaluator:
    """Evaluates the string-building statements of an emitter into Emitted variants (one per combination of
    statement-level `if` decisions)."""

    def __init__(self, model):
        self.model = model

    # ------------------------------------------------------------------ strings
    def pieces(self, node, env):
        """expr -> list of pieces, or raise NotTemplate if it is not a string-building expression."""
        if isinstance(node, ast.Constant) and isinstance(node.value, str):
            return [Text(node.value)]
        if isinstance(node, ast.JoinedStr):
            out = []
            for v in node.values:
                if isinstance(v, ast.Constant):
                    out.append(Text(v.value))
                else:
                    out.extend(self.hole_or_splice(v.value, "repr" if v.conversion == 114 else "str", env))
            return out
        if isinstance(node, ast.BinOp) and isinstance(node.op, ast.Mod) and self.is_stringy(node.left, env):
            fmt = self.pieces(node.left, env)
            if not (len(fmt) == 1 and isinstance(fmt[0], Text)):
                raise NotTemplate("format string is not a literal")
            args = list(node.right.elts) if isinstance(node.right, ast.Tuple) else [node.right]
            parts = re.split(r"(%[rsd])", fmt[0].s.replace("%%", "\0"))
            out = []
            ai = 0
            for part in parts:
                if part in ("%r", "%s", "%d"):
                    if ai >= len(args):
                        raise NotTemplate("format arity")
                    out.extend(self.hole_or_splice(args[ai], "repr" if part == "%r" else "str", env))
                    ai += 1
                elif part:
                    out.append(Text(part.replace("\0", "%")))
            return out
        if isinstance(node, ast.BinOp) and isinstance(node.op, ast.Add):
            return self.pieces(node.left, env) + self.pieces(node.right, env)
        if isinstance(node, ast.IfExp):
            return [If(node.test, self.pieces(node.body, env), self.pieces(node.orelse, env))]
        if isinstance(node, ast.Name) and node.id in env and isinstance(env[node.id], list):
            return list(env[node.id])
        if isinstance(node, ast.Call) and isinstance(node.func, ast.Attribute) and node.func.attr == "join" and len(node.args) == 1 \
                and isinstance(node.args[0], (ast.GeneratorExp, ast.ListComp)) and isinstance(node.func.value, ast.Constant):
            g = node.args[0]
            if len(g.generators) != 1:
                raise NotTemplate("nested join")
            return [For(g.generators[0].target, g.generators[0].iter, self.pieces(g.elt, env), sep=node.func.value.value)]
        raise NotTemplate("not a string expression: %s" % ast.dump(node)[:80])

    def is_stringy(self, node, env):
        try:
            self.pieces(node, env)
            return True
        except NotTemplate:
            return False

    def hole_or_splice(self, node, conv, env):
        # a local that names a non-string expression (`name = repr(sc.name)` ... `{name}`) is that expression
        if isinstance(node, ast.Name) and node.id in env and isinstance(env[node.id], ast.AST) and conv == "str":
            node = env[node.id]
        # nested string-building expression?
        if isinstance(node, (ast.JoinedStr,)) or (isinstance(node, ast.IfExp) and self.is_stringy(node, env)) or \
                (isinstance(node, ast.Name) and node.id in env and isinstance(env[node.id], list)) or \
                (isinstance(node, ast.Constant) and isinstance(node.value, str) and conv == "str"):
            return self.pieces(node, env)
        if isinstance(node, ast.Call) and isinstance(node.func, ast.Attribute) and node.func.attr in ("_compileparse", "_compilebuild") and conv == "str":
            return [Sub("parse" if node.func.attr == "_compileparse" else "build", node.func.value, getattr(node, "lineno", 0))]
        if isinstance(node, ast.Call) and isinstance(node.func, ast.Name) and node.func.id == "repr" and len(node.args) == 1:
            return [Hole(self.subst(node.args[0], env), "repr", getattr(node, "lineno", 0))]
        if isinstance(node, ast.Call) and isinstance(node.func, ast.Attribute) and node.func.attr == "join" and self.is_stringy(node, env):
            return self.pieces(node, env)
        return [Hole(self.subst(node, env), conv, getattr(node, "lineno", 0))]

    def subst(self, node, env):
        """Inline local (non-string) definitions into a hole expression."""
        class R(ast.NodeTransformer):
            def visit_Name(s, n):
                if isinstance(n.ctx, ast.Load) and n.id in env and isinstance(env[n.id], ast.AST):
                    return ast.copy_location(env[n.id], n)
                return n
        # a fresh copy via unparse/parse (nodes of the model carry _parent links, deepcopy would drag the whole module along)
        fresh = ast.parse(ast.unparse(node), mode="eval").body
        for n in ast.walk(fresh):
            n.lineno = getattr(node, "lineno", 0)
            n.col_offset = 0
            n.end_lineno = getattr(node, "lineno", 0)
            n.end_col_offset = 0
        return R().visit(fresh)

    # ------------------------------------------------------------------ statements
    def evaluate(self, fi):
        """-> list[Emitted] (variants over statement-level ifs)."""
        variants = []
        # an emitter that hands the code generator to a package-level helper generates code the template recovery cannot see: analysis error
        # (exit 2, "the checker must be taught the helper"), never a comparison against half a template
        for n in ast.walk(fi.node):
            if isinstance(n, ast.Call) and isinstance(n.func, ast.Name) and n.func.id in self.model.functions and \
                    any(isinstance(a, ast.Name) and a.id == "code" for a in list(n.args) + [k.value for k in n.keywords]):
                raise AnalysisError("template of %s cannot be recovered: code generation is delegated to the helper %s(code, ...)" % (fi.qual, n.func.id))

        def run(stmts, em, env, k, inloop=False):
            """Execute stmts on (em, env); k = continuation(em, env)."""
            if not stmts:
                return k(em, env)
            st, rest = stmts[0], stmts[1:]
            cont = lambda e, v: run(rest, e, v, k, inloop)
            if isinstance(st, ast.Expr) and isinstance(st.value, ast.Constant):
                return cont(em, env)
            if isinstance(st, ast.Expr) and _is_code_call(st.value, "append"):
                try:
                    em.blocks.append(self.pieces(st.value.args[0], env))
                except NotTemplate as e:
                    raise AnalysisError("template of %s: code.append argument is not a string template: %s" % (fi.qual, e))
                return cont(em, env)
            if isinstance(st, ast.Assign) and len(st.targets) == 1 and isinstance(st.targets[0], ast.Name):
                name = st.targets[0].id
                try:
                    env = dict(env)
                    env[name] = self.pieces(st.value, env)
                except NotTemplate:
                    env[name] = self.subst(st.value, env)
                return cont(em, env)
            if isinstance(st, ast.Assign) and len(st.targets) == 1 and isinstance(st.targets[0], ast.Subscript) and \
                    isinstance(st.targets[0].value, ast.Attribute) and st.targets[0].value.attr == "userfunction":
                em.userfunc = True
                em.userfunc_value = st.value
                return cont(em, env)
            if isinstance(st, ast.AugAssign) and isinstance(st.op, ast.Add) and isinstance(st.target, ast.Name) and isinstance(env.get(st.target.id), list):
                env = dict(env)
                try:
                    env[st.target.id] = env[st.target.id] + self.pieces(st.value, env)
                except NotTemplate as e:
                    raise AnalysisError("template of %s: += operand is not a string template: %s" % (fi.qual, e))
                return cont(em, env)
            if isinstance(st, ast.Return):
                if st.value is None:
                    raise AnalysisError("template of %s returns nothing" % fi.qual)
                try:
                    em.ret = self.pieces(st.value, env)
                except NotTemplate:
                    em.ret = self.hole_or_splice(st.value, "str", env)
                em.env = env
                variants.append(em)
                return
            if isinstance(st, ast.Raise):
                em.not_implemented = True
                em.raises = norm_text(st.exc) if st.exc is not None else "raise"
                variants.append(em)
                return
            if isinstance(st, ast.If) and inloop and not st.orelse and st.body and isinstance(st.body[-1], ast.Continue) and rest:
                # `if c: A; continue` followed by B inside the member loop is `if c: A else: B`
                st2 = ast.copy_location(ast.If(test=st.test, body=list(st.body[:-1]) or [ast.copy_location(ast.Pass(), st)], orelse=list(rest)), st)
                return run([st2], em, env, k, inloop)
            if isinstance(st, ast.If) and inloop and st.orelse:
                # both arms only bind the same locals (`if c: a = X; b = Y  else: a = X2; b = Y2`): the conditional expressions
                # a = X if c else X2; b = Y if c else Y2 -- the spelling the emitters use inline in their f-strings
                def binds(body):
                    out = {}
                    for b_ in body:
                        if not (isinstance(b_, ast.Assign) and len(b_.targets) == 1 and isinstance(b_.targets[0], ast.Name) and b_.targets[0].id not in out):
                            return None
                        out[b_.targets[0].id] = b_.value
                    return out
                ba, bb = binds(st.body), binds(st.orelse)
                if ba is not None and bb is not None and set(ba) == set(bb) and ba and not any(isinstance(env.get(n_), list) for n_ in ba) \
                        and not any(isinstance(x_, ast.Name) and x_.id in ba for v_ in list(ba.values()) + list(bb.values()) for x_ in ast.walk(v_)):
                    new_stmts = []
                    for n_ in [b_.targets[0].id for b_ in st.body]:
                        a_ = ast.Assign(targets=[ast.Name(id=n_, ctx=ast.Store())], value=ast.IfExp(test=st.test, body=ba[n_], orelse=bb[n_]))
                        ast.copy_location(a_, st)
                        ast.fix_missing_locations(a_)
                        new_stmts.append(a_)
                    return run(new_stmts + list(rest), em, env, k, inloop)
            if isinstance(st, ast.If) and inloop:
                # inside a member loop: both arms only append text -> an inline conditional fragment
                strvars = [n for n in env if isinstance(env[n], list)]
                arms = []
                for body in (st.body, st.orelse):
                    v0 = dict(env)
                    e0 = Emitted(fi)
                    done = []
                    run(list(body), e0, v0, lambda e, v: done.append((e, v)), True)
                    if len(done) != 1:
                        raise AnalysisError("template of %s: nested branching inside an emitter loop is not supported by T" % fi.qual)
                    arms.append(done[0])
                env = dict(env)
                for n in strvars:
                    base = len(env[n])
                    a, b = (arms[0][1].get(n) or [])[base:], (arms[1][1].get(n) or [])[base:]
                    if a or b:
                        env[n] = env[n] + [If(st.test, a, b)]
                for b in arms[0][0].blocks:
                    em.blocks.append([If(st.test, b, [])])
                for b in arms[1][0].blocks:
                    em.blocks.append([If(st.test, [], b)])
                return cont(em, env)
            if isinstance(st, ast.If):
                for pol, body in ((True, st.body), (False, st.orelse)):
                    e2 = self.clone(em)
                    e2.conds.append((self.subst(st.test, env), pol))
                    run(list(body) + rest, e2, dict(env), k)
                return
            if isinstance(st, ast.For):
                # loop that appends to a string variable and/or emits blocks per iteration
                strvars = [n for n in env if isinstance(env[n], list)]
                before = {n: len(env[n]) for n in strvars}
                inner_env = dict(env)
                sub = Emitted(fi)
                done = []
                run(list(st.body), sub, inner_env, lambda e, v: done.append((e, v)), True)
                if len(done) != 1:
                    raise AnalysisError("template of %s: branching inside an emitter loop is not supported by T" % fi.qual)
                e2, v2 = done[0]
                env = dict(env)
                for n in strvars:
                    grown = (v2.get(n) or [])[before[n]:]
                    if grown:
                        env[n] = env[n] + [For(st.target, st.iter, grown, stmt=True)]
                for b in e2.blocks:
                    em.blocks.append([For(st.target, st.iter, b, stmt=True)])
                # non-string locals assigned in the loop are loop-dependent: keep their ASTs out of env
                return cont(em, env)
            if isinstance(st, (ast.Expr, ast.Assign, ast.AugAssign)):
                # other effects (e.g. `self.subcons[index] # raises IndexError`): irrelevant to the template
                if isinstance(st, ast.Assign):
                    env = dict(env)
                    for t in st.targets:
                        if isinstance(t, ast.Name):
                            env[t.id] = self.subst(st.value, env)
                return cont(em, env)
            if isinstance(st, ast.Pass):
                return cont(em, env)
            if isinstance(st, ast.Try) and not inloop:
                # a try around generation-time facts (e.g. sizeof() raising SizeofError): one variant in which the body completes,
                # and one per handler in which the exception came before the body had any effect (locals of the body stay unbound)
                marker = ast.Name(id="__try_%d_completes" % st.lineno, ctx=ast.Load())
                e2 = self.clone(em)
                e2.conds.append((marker, True))
                run(list(st.body) + list(st.orelse) + list(st.finalbody) + rest, e2, dict(env), k)
                for h in st.handlers:
                    e3 = self.clone(em)
                    e3.conds.append((marker, False))
                    run(list(h.body) + list(st.finalbody) + rest, e3, dict(env), k)
                return
            raise AnalysisError("template of %s: unsupported statement %s (line %d)" % (fi.qual, type(st).__name__, st.lineno))

        run(list(fi.node.body), Emitted(fi), {}, lambda e, v: None)
        if not variants:
            raise AnalysisError("template of %s: no return reached" % fi.qual)
        return variants

    def clone(self, em):
        e = Emitted(em.fi)
        e.blocks = list(em.blocks)
        e.conds = list(em.conds)
        e.userfunc = em.userfunc
        e.userfunc_value = getattr(em, "userfunc_value", None)
        return e


# ---------------------------------------------------------------------- rendering
class Rendered:
    def __init__(self):
        self.holes = {}       # placeholder name -> Hole
        self.subs = {}        # placeholder name -> Sub
        self.iters = {}       # placeholder name -> (target ast, iter ast)
        self.conds = {}       # placeholder name -> cond ast
        self.text_blocks = []
        self.text_ret = None
        self.choices = {}


def walk_pieces(pieces):
    for p in pieces:
        yield p
        if isinstance(p, If):
            yield from walk_pieces(p.then)
            yield from walk_pieces(p.orelse)
        elif isinstance(p, For):
            yield from walk_pieces(p.body)


def all_holes(em):
    out = []
    for b in em.blocks + ([em.ret] if em.ret else []):
        out.extend(p for p in walk_pieces(b) if isinstance(p, (Hole, Sub)))
    return out


def cond_keys(em):
    keys = []
    for b in em.blocks + ([em.ret] if em.ret else []):
        for p in walk_pieces(b):
            if isinstance(p, If):
                k = norm_text(p.cond)
                if k not in keys:
                    keys.append(k)
    return keys


class Renderer:
    """Piece tree -> python text with placeholder identifiers; inline `if` pieces are resolved by `choice`."""

    def __init__(self, choice):
        self.choice = choice          # cond text -> bool
        self.r = Rendered()
        self.n = 0
        self.memo = {}

    def name(self, prefix):
        self.n += 1
        return "%s%d" % (prefix, self.n)

    def render(self, pieces, loopdepth=0):
        out = []
        for p in pieces:
            if isinstance(p, Text):
                out.append(p.s)
            elif isinstance(p, Hole):
                nm = self.memo.get(id(p))
                if nm is None:
                    nm = self.memo[id(p)] = self.name("H_")
                self.r.holes[nm] = p
                out.append(nm)
            elif isinstance(p, Sub):
                nm = self.name("T_")
                self.r.subs[nm] = p
                out.append("__subparse__(%s, io, this)" % nm if p.kind == "parse" else "__subbuild__(%s, obj, io, this)" % nm)
            elif isinstance(p, If):
                k = norm_text(p.cond)
                self.r.conds[k] = p.cond
                out.append(self.render(p.then if self.choice.get(k, True) else p.orelse, loopdepth))
            elif isinstance(p, For):
                body = self.render(p.body, loopdepth + 1)
                nm = self.name("I_")
                self.r.iters[nm] = (p.target, p.iter)
                if "\n" in body or p.stmt:
                    lines = [l for l in body.split("\n")]
                    first = next((l for l in lines if l.strip()), "")
                    ind = len(first) - len(first.lstrip())
                    hdr = " " * ind + "for __m in __iter__(%s):" % nm
                    out.append("\n" + hdr + "\n" + "\n".join(("    " + l) if l.strip() else l for l in lines) + "\n")
                else:
                    # expression-level repetition (join): one generic element
                    out.append("__each__(%s, %s)" % (nm, body) if not p.sep else body)
        return "".join(out)


def codegen_append_normalise(block):
    """What CodeGen.append does to a block: drop blank lines, trim the first line's indentation."""
    lines = [s for s in block.splitlines() if s.strip()]
    if not lines:
        return ""
    trim = len(lines[0]) - len(lines[0].lstrip())
    return "\n".join(s[trim:] for s in lines)


def render_variants(em, max_variants=64):
    """Yield Rendered objects for every assignment of the inline conditions (bounded)."""
    keys = cond_keys(em)
    if 2 ** len(keys) > max_variants:
        # vary one condition at a time around all-True / all-False
        assigns = [dict.fromkeys(keys, True), dict.fromkeys(keys, False)]
        for k in keys:
            a = dict.fromkeys(keys, True)
            a[k] = False
            assigns.append(a)
    else:
        assigns = [dict(zip(keys, vals)) for vals in itertools.product((True, False), repeat=len(keys))]
    for a in assigns:
        rn = Renderer(a)
        for b in em.blocks:
            rn.r.text_blocks.append(codegen_append_normalise(rn.render(b)))
        rn.r.text_ret = rn.render(em.ret).strip() if em.ret else None
        rn.r.choices = a
        yield rn.r


def emitters(model, names=("_emitparse", "_emitbuild")):
    """(FuncInfo, class name or macro name) of every concrete emitter: class level and macro closures."""
    out = []
    for ci in model.construct_classes():
        if ci.name == "Construct":
            continue
        for n in names:
            if n in ci.methods:
                out.append((FuncInfo(ci.methods[n], ci.relpath, cls=ci, qual="%s.%s" % (ci.name, n)), ci.name))
    for name, mf in model.macros().items():
        for cl in model.closures(mf):
            if cl.name in names:
                out.append((cl, name))
    return out
