"""S -- method summariser.

A flow- and path-sensitive abstract interpreter over the statements of one
function in a symbolic value-numbering domain.  Output: one :class:`Path` per
acyclic path (loops contribute "zero iterations" and "last iteration took body
path p" variants), each an ordered list of :class:`Event` s with normalised
terms.  Local names never appear in terms (definitions are substituted), so
renaming locals, extracting a local, reordering independent assignments or
re-wording messages cannot change a summary.
"""
import ast
import os

from . import norm as N
from .model import AnalysisError, FuncInfo, norm_text
from .known import PACKAGE_FUNCTIONS

PATH_BOUND = 512

SUB_METHODS = {
    "_parsereport": ("stream", "ctx", "path"),
    "_parse": ("stream", "ctx", "path"),
    "_build": ("obj", "stream", "ctx", "path"),
    "_sizeof": ("ctx", "path"),
    "_actualsize": ("stream", "ctx", "path"),
    "parse": ("data",),
    "parse_stream": ("stream",),
    "parse_file": ("filename",),
    "build": ("obj",),
    "build_stream": ("obj", "stream"),
    "build_file": ("obj", "filename"),
    "sizeof": (),
}
STREAM_HELPERS = {
    "stream_tell": ("TELL", ("stream", "path")),
    "stream_seek": ("SEEK", ("stream", "offset", "whence", "path")),
    "stream_read": ("READ", ("stream", "length", "path")),
    "stream_read_entire": ("READALL", ("stream", "path")),
    "stream_write": ("WRITE", ("stream", "data", "length", "path")),
    "stream_size": ("SIZE", ("stream",)),
    "stream_iseof": ("ISEOF", ("stream",)),
}
RAW_METHODS = {"read", "write", "seek", "tell", "close", "readinto", "truncate", "flush", "readline", "readlines", "writelines", "read1", "peek"}
PURE_BUILTINS = {
    "callable", "isinstance", "issubclass", "len", "type", "repr", "str", "int", "float", "bytes", "bytearray", "bool",
    "list", "tuple", "dict", "set", "frozenset", "range", "enumerate", "iter", "reversed", "sorted", "min", "max",
    "abs", "sum", "all", "any", "zip", "hex", "format", "hasattr", "id", "slice", "ord", "chr", "divmod", "map", "filter",
    "getattr", "object", "memoryview", "round",
}
PURE_METHODS = {
    "rstrip", "lstrip", "strip", "split", "startswith", "endswith", "replace", "lower", "upper", "items", "keys", "values",
    "find", "join", "format", "islower", "isupper", "indices", "get", "copy", "count", "index", "hex", "timetuple", "total_seconds",
    "splitlines", "__getfield__", "bit_length",
}
MUT_METHODS = {"append", "extend", "update", "pop", "clear", "insert", "remove", "setdefault", "add", "sort", "popitem", "discard"}
STREAM_NAMES = {"stream", "io", "substream", "stream2", "f"}
STREAM_ATTRS = {"stream", "_stream", "substream", "stream2", "parent_stream", "_io"}
CTX_NAMES = {"context", "this", "ctx"}
MAY_RAISE = {"SUB", "READ", "READALL", "WRITE", "TELL", "SEEK", "EVAL", "CALL", "RAWIO", "GETITEM", "SELFCALL", "SIZE", "ISEOF", "DELITEM", "STREAMARG"}
STREAM_EXC = {"TELL": {"StreamError"}, "SEEK": {"StreamError"}, "READ": {"StreamError"}, "READALL": {"StreamError"},
              "WRITE": {"StreamError", "StringError"}, "SIZE": {"StreamError"}, "ISEOF": {"StreamError"}}
BUILTIN_EXC = {
    "BaseException": [], "Exception": ["BaseException"], "LookupError": ["Exception"], "KeyError": ["LookupError"],
    "IndexError": ["LookupError"], "ValueError": ["Exception"], "UnicodeError": ["ValueError"],
    "UnicodeDecodeError": ["UnicodeError"], "UnicodeEncodeError": ["UnicodeError"], "ArithmeticError": ["Exception"],
    "OverflowError": ["ArithmeticError"], "ZeroDivisionError": ["ArithmeticError"], "RuntimeError": ["Exception"],
    "NotImplementedError": ["RuntimeError"], "StopIteration": ["Exception"], "AttributeError": ["Exception"],
    "TypeError": ["Exception"], "OSError": ["Exception"], "IOError": ["Exception"], "AssertionError": ["Exception"],
    "struct.error": ["Exception"], "NameError": ["Exception"], "UnboundLocalError": ["NameError"],
    "BlockingIOError": ["OSError"], "ImportError": ["Exception"],
}


class Event:
    __slots__ = ("kind", "a", "node", "trys", "loops", "under", "raised", "depth")

    def __init__(self, kind, a, node, trys, loops, under=None, raised=False, depth=0):
        self.kind, self.a, self.node = kind, a, node
        self.trys, self.loops, self.under, self.raised, self.depth = trys, loops, under, raised, depth

    def copy(self, **kw):
        e = Event(self.kind, self.a, self.node, self.trys, self.loops, self.under, self.raised, self.depth)
        for k, v in kw.items():
            setattr(e, k, v)
        return e

    def __getitem__(self, k):
        return self.a.get(k)

    def sig(self):
        """Hashable structural signature (no AST nodes)."""
        return (self.kind, tuple(sorted((k, v) for k, v in self.a.items() if k != "_")), self.raised)

    def show(self):
        parts = []
        for k, v in self.a.items():
            if k == "_":
                continue
            parts.append("%s=%s" % (k, N.show(v) if isinstance(v, tuple) else v))
        s = "%s(%s)" % (self.kind, ", ".join(parts))
        if self.raised:
            s += " !raises"
        if self.under is not None:
            s += " under " + N.show(self.under)
        return s

    @property
    def lineno(self):
        return getattr(self.node, "lineno", 0)


class Path:
    def __init__(self, events, outcome, env, closures):
        self.events = events
        self.outcome = outcome        # ('return', term) | ('raise', info) | ('fall',)
        self.env = env
        self.closures = closures
        self.loop_steps = []

    def of(self, *kinds):
        return [e for e in self.events if e.kind in kinds]

    def index(self, ev):
        for i, e in enumerate(self.events):
            if e is ev:
                return i
        return -1

    @property
    def returns(self):
        return self.outcome[0] in ("return", "fall")

    @property
    def retval(self):
        if self.outcome[0] == "return":
            return self.outcome[1]
        if self.outcome[0] == "fall":
            return N.NONE
        return None

    def guards(self, upto=None):
        out = []
        for e in self.events:
            if e is upto:
                break
            if e.kind == "ASSUME":
                out.append(e["cond"])
        return out

    def show(self):
        lines = ["  " + e.show() for e in self.events]
        o = self.outcome
        if o[0] == "return":
            lines.append("  => return " + N.show(o[1]))
        elif o[0] == "raise":
            lines.append("  => raise " + str(o[1].get("cls")) + (" (implicit)" if o[1].get("kind") == "implicit" else ""))
        else:
            lines.append("  => fall")
        return "\n".join(lines)


_COLLECT_CACHE = {}


def _collect_loops(stmts):
    """`L = []` directly followed by `for T in IT: L.append(E)` (or `if c: L.append(E)`) is the comprehension `L = [E for T in IT if c]`
    (bytearray() likewise): the statements are replaced by that assignment, so both spellings give the same comprehension term."""
    key = tuple(id(x) for x in stmts)
    hit = _COLLECT_CACHE.get(key)
    if hit is not None and hit[0] is stmts:
        return hit[1]
    out = []
    i = 0
    changed = False
    while i < len(stmts):
        a = stmts[i]
        b = stmts[i + 1] if i + 1 < len(stmts) else None
        new = _collect_pair(a, b) if b is not None else None
        if new is None and b is not None:
            new = _return_pair(a, b) or _iter_next_pair(a, b, stmts[i + 2:])
            if new is not None:
                out.append(new)
                i += 2
                changed = True
                continue
        if new is not None:
            # a for loop leaves its target bound, a comprehension does not
            tnames = {x.id for x in ast.walk(b.target) if isinstance(x, ast.Name)}
            if len(b.body) > 1:
                tnames |= {t.targets[0].id for t in b.body[:-1] if isinstance(t, ast.Assign) and isinstance(t.targets[0], ast.Name)}
            if any(isinstance(x, ast.Name) and x.id in tnames for later in stmts[i + 2:] for x in ast.walk(later)):
                new = None
        if new is not None:
            out.append(new)
            i += 2
            changed = True
        else:
            out.append(a)
            i += 1
    res = out if changed else stmts
    _COLLECT_CACHE[key] = (stmts, res)
    return res


_PURE_FUNCS = {"hex", "len", "int", "str", "bool", "repr", "range", "reversed", "min", "max", "abs", "ord", "chr", "bytes", "tuple", "dict", "list", "sorted",
               "isinstance", "divmod", "oct", "bin", "float", "enumerate", "zip"}
_PURE_METHODS = {"get", "items", "keys", "values", "format", "join", "strip", "split", "startswith", "endswith", "encode", "decode", "lower", "upper", "rstrip", "lstrip"}


def _pure_expr(node):
    for x in ast.walk(node):
        if isinstance(x, ast.Call):
            if isinstance(x.func, ast.Name) and x.func.id in _PURE_FUNCS:
                continue
            if isinstance(x.func, ast.Attribute) and x.func.attr in _PURE_METHODS:
                continue
            return False
        if isinstance(x, (ast.Yield, ast.YieldFrom, ast.Await, ast.NamedExpr, ast.Lambda)):
            return False
    return True


class _Subst(ast.NodeTransformer):
    def __init__(self, m):
        self.m = m

    def visit_Name(self, node):
        if isinstance(node.ctx, ast.Load) and node.id in self.m:
            return self.m[node.id]
        return node


def _without_temporaries(loop):
    """`for T in IT: t1 = e1; t2 = e2(t1); L.append(E(t1, t2))` with side-effect-free e1, e2, E: the temporaries are substituted away."""
    import copy
    *pre, last = loop.body
    m = {}
    for stmt_ in pre:
        if not (isinstance(stmt_, ast.Assign) and len(stmt_.targets) == 1 and isinstance(stmt_.targets[0], ast.Name) and stmt_.targets[0].id not in m):
            return None
        if not _pure_expr(stmt_.value):
            return None
        m[stmt_.targets[0].id] = _Subst(m).visit(copy.deepcopy(stmt_.value))
    tnames = {x.id for x in ast.walk(loop.target) if isinstance(x, ast.Name)}
    if tnames & set(m):
        return None
    # only the appending call itself may be impure-looking (`.append`): checked by the caller's shape test
    new_last = _Subst(m).visit(copy.deepcopy(last))
    new = ast.For(target=loop.target, iter=loop.iter, body=[new_last], orelse=[])
    new._temporaries = set(m)
    return ast.copy_location(new, loop)


def _iter_next_pair(a, b, later):
    """The `for` statement written out:  it = iter(X)  /  while True: try: T = next(it) except StopIteration: break|return ...  ; BODY
    is  for T in X: BODY  [else: return ...]  when `it` is used nowhere else."""
    if not (isinstance(a, ast.Assign) and len(a.targets) == 1 and isinstance(a.targets[0], ast.Name) and isinstance(a.value, ast.Call)
            and isinstance(a.value.func, ast.Name) and a.value.func.id == "iter" and len(a.value.args) == 1 and not a.value.keywords):
        return None
    it = a.targets[0].id
    if not (isinstance(b, ast.While) and isinstance(b.test, ast.Constant) and b.test.value is True and not b.orelse and b.body and isinstance(b.body[0], ast.Try)):
        return None
    tr = b.body[0]
    if not (len(tr.body) == 1 and isinstance(tr.body[0], ast.Assign) and len(tr.body[0].targets) == 1 and not tr.orelse and not tr.finalbody and len(tr.handlers) == 1):
        return None
    asg, h = tr.body[0], tr.handlers[0]
    if not (isinstance(asg.value, ast.Call) and isinstance(asg.value.func, ast.Name) and asg.value.func.id == "next" and len(asg.value.args) == 1
            and isinstance(asg.value.args[0], ast.Name) and asg.value.args[0].id == it and not asg.value.keywords):
        return None
    if not (isinstance(h.type, ast.Name) and h.type.id == "StopIteration" and h.name is None and len(h.body) == 1 and isinstance(h.body[0], (ast.Break, ast.Return))):
        return None
    rest = b.body[1:]
    if any(isinstance(x, ast.Name) and x.id == it for st_ in list(rest) + list(later) for x in ast.walk(st_)):
        return None
    # a `break` of the body would leave the `while`; in the `for` it still leaves the loop -- but then an `else:` clause must not run, which is what
    # for/else gives; a `continue` goes to the next `next()`, as in the for loop
    orelse = [] if isinstance(h.body[0], ast.Break) else [h.body[0]]
    new = ast.For(target=asg.targets[0], iter=a.value.args[0], body=rest or [ast.copy_location(ast.Pass(), b)], orelse=orelse)
    ast.copy_location(new, b)
    ast.fix_missing_locations(new)
    return new


def _return_pair(a, b):
    """`if c: return A` directly followed by `return B` is `return A if c else B` (so that the guard-clause spelling of the evaluate idiom,
    `if callable(x): return x(ctx)` / `return x`, is the idiom)."""
    if isinstance(a, ast.If) and not a.orelse and len(a.body) == 1 and isinstance(a.body[0], ast.Return) and a.body[0].value is not None \
            and isinstance(b, ast.Return) and b.value is not None:
        t = a.test
        if isinstance(t, ast.Call) and isinstance(t.func, ast.Name) and t.func.id == "callable" and len(t.args) == 1 and not t.keywords:
            # `return f(x(c))` / `return f(x)`: the idiom sits inside a common wrapper
            merged = _merge_on_callable(a.body[0].value, b.value, ast.dump(t.args[0]), a.test)
            v = merged if merged is not None else ast.copy_location(ast.IfExp(test=a.test, body=a.body[0].value, orelse=b.value), a)
            return ast.copy_location(ast.Return(value=v), a)
    return None


def _merge_on_callable(e1, e2, xdump, test):
    """e2 with its occurrence of x replaced by `x(c) if callable(x) else x`, when e1 is e2 with that occurrence replaced by x(c); else None."""
    import copy
    if ast.dump(e2) == xdump and isinstance(e1, ast.Call) and ast.dump(e1.func) == xdump and len(e1.args) == 1 and not e1.keywords:
        return ast.copy_location(ast.IfExp(test=test, body=e1, orelse=e2), e1)
    if type(e1) is not type(e2) or ast.dump(e1) == ast.dump(e2):
        return None
    diff = []
    for (f1, v1), (f2, v2) in zip(ast.iter_fields(e1), ast.iter_fields(e2)):
        if isinstance(v1, ast.AST) and isinstance(v2, ast.AST):
            if ast.dump(v1) != ast.dump(v2):
                diff.append((f1, None, v1, v2))
        elif isinstance(v1, list) and isinstance(v2, list):
            if len(v1) != len(v2):
                return None
            for k, (x1, x2) in enumerate(zip(v1, v2)):
                if isinstance(x1, ast.AST) and isinstance(x2, ast.AST):
                    if ast.dump(x1) != ast.dump(x2):
                        diff.append((f1, k, x1, x2))
                elif x1 != x2:
                    return None
        elif v1 != v2:
            return None
    if len(diff) != 1:
        return None
    f, k, x1, x2 = diff[0]
    sub = _merge_on_callable(x1, x2, xdump, test)
    if sub is None:
        return None
    new = copy.copy(e2)
    if k is None:
        setattr(new, f, sub)
    else:
        lst = list(getattr(new, f))
        lst[k] = sub
        setattr(new, f, lst)
    return new


def _collect_pair(a, b):
    if not (isinstance(a, ast.Assign) and len(a.targets) == 1 and isinstance(a.targets[0], ast.Name) and isinstance(b, ast.For) and not b.orelse and b.body):
        return None
    if len(b.body) > 1:
        b = _without_temporaries(b)
        if b is None:
            return None
    name = a.targets[0].id
    v = a.value
    if (isinstance(v, ast.Dict) and not v.keys) or (isinstance(v, ast.Call) and isinstance(v.func, ast.Name) and v.func.id == "dict" and not v.args and not v.keywords):
        # `d = {}` followed by `for T in IT: [if c:] d[K] = V` is `d = {K: V for T in IT if c}`
        inner = b.body[0]
        conds = []
        while isinstance(inner, ast.If) and not inner.orelse and len(inner.body) == 1:
            conds.append(inner.test)
            inner = inner.body[0]
        if not (isinstance(inner, ast.Assign) and len(inner.targets) == 1 and isinstance(inner.targets[0], ast.Subscript) and isinstance(inner.targets[0].value, ast.Name)
                and inner.targets[0].value.id == name):
            return None
        k_, v_ = inner.targets[0].slice, inner.value
        if getattr(b, "_temporaries", None) and not all(_pure_expr(x) for x in [k_, v_] + conds):
            return None
        for part in [k_, v_, b.iter, b.target] + conds:
            if any(isinstance(x, ast.Name) and x.id == name for x in ast.walk(part)) or any(isinstance(x, (ast.Yield, ast.YieldFrom, ast.Await, ast.NamedExpr)) for x in ast.walk(part)):
                return None
        comp = ast.DictComp(key=k_, value=v_, generators=[ast.comprehension(target=b.target, iter=b.iter, ifs=conds, is_async=0)])
        new = ast.Assign(targets=[ast.Name(id=name, ctx=ast.Store())], value=comp)
        ast.copy_location(new, b)
        ast.fix_missing_locations(new)
        return new
    if isinstance(v, ast.List) and not v.elts:
        kind = "list"
    elif isinstance(v, ast.Call) and isinstance(v.func, ast.Name) and v.func.id in ("list", "bytearray") and not v.args and not v.keywords:
        kind = v.func.id
    else:
        return None
    inner = b.body[0]
    conds = []
    while isinstance(inner, ast.If) and not inner.orelse and len(inner.body) == 1:
        conds.append(inner.test)
        inner = inner.body[0]
    if not (isinstance(inner, ast.Expr) and isinstance(inner.value, ast.Call) and isinstance(inner.value.func, ast.Attribute) and inner.value.func.attr == "append"
            and isinstance(inner.value.func.value, ast.Name) and inner.value.func.value.id == name and len(inner.value.args) == 1 and not inner.value.keywords):
        return None
    elt = inner.value.args[0]
    if getattr(b, "_temporaries", None) and not all(_pure_expr(x) for x in [elt] + conds):
        return None
    for part in [elt, b.iter, b.target] + conds:
        if any(isinstance(x, ast.Name) and x.id == name for x in ast.walk(part)):
            return None
        if any(isinstance(x, (ast.Yield, ast.YieldFrom, ast.Await, ast.NamedExpr)) for x in ast.walk(part)):
            return None
    comp = ast.ListComp(elt=elt, generators=[ast.comprehension(target=b.target, iter=b.iter, ifs=conds, is_async=0)])
    val = comp if kind == "list" else ast.Call(func=ast.Name(id="bytearray", ctx=ast.Load()), args=[comp], keywords=[])
    new = ast.Assign(targets=[ast.Name(id=name, ctx=ast.Store())], value=val)
    ast.copy_location(new, b)
    ast.fix_missing_locations(new)
    for x in ast.walk(new):
        if not hasattr(x, "lineno"):
            ast.copy_location(x, b)
    return new


def _canonical_try(node, model):
    """Two respellings of exception handling that are the same control flow:
    * `try: (try: B except A: H) finally: F`  is  `try: B except A: H finally: F`;
    * `except A as e:  if isinstance(e, B): raise  ; REST` with B a subclass of A  is  `except B: raise` followed by `except A as e: REST`."""
    hit = getattr(node, "_canon", None)
    if hit is not None:
        return hit
    new = node
    if not node.handlers and not node.orelse and node.finalbody and len(node.body) == 1 and isinstance(node.body[0], ast.Try) and not node.body[0].finalbody:
        inner = node.body[0]
        new = ast.copy_location(ast.Try(body=inner.body, handlers=inner.handlers, orelse=inner.orelse, finalbody=node.finalbody), node)
    hs, changed = [], False
    for h in new.handlers:
        first = h.body[0] if h.body else None
        split = None
        if h.name and isinstance(first, ast.If) and not first.orelse and len(first.body) == 1 and isinstance(first.body[0], ast.Raise) and first.body[0].exc is None \
                and isinstance(first.test, ast.Call) and isinstance(first.test.func, ast.Name) and first.test.func.id == "isinstance" and len(first.test.args) == 2 \
                and isinstance(first.test.args[0], ast.Name) and first.test.args[0].id == h.name and isinstance(first.test.args[1], ast.Name):
            sub = first.test.args[1].id
            outer = [N_dotted(e) for e in h.type.elts] if isinstance(h.type, ast.Tuple) else ([N_dotted(h.type)] if h.type is not None else ["BaseException"])
            if any(o in ("Exception", "BaseException") or (sub in model.classes and o in model.classes and model.is_subclass(sub, o)) for o in outer) and sub in model.classes:
                split = sub
        if split:
            changed = True
            hs.append(ast.copy_location(ast.ExceptHandler(type=ast.copy_location(ast.Name(id=split, ctx=ast.Load()), h), name=None,
                                                          body=[ast.copy_location(ast.Raise(exc=None, cause=None), first)]), h))
            rest = h.body[1:] or [ast.copy_location(ast.Pass(), h)]
            hs.append(ast.copy_location(ast.ExceptHandler(type=h.type, name=h.name, body=rest), h))
        else:
            hs.append(h)
    if changed:
        new = ast.copy_location(ast.Try(body=new.body, handlers=hs, orelse=new.orelse, finalbody=new.finalbody), node)
        ast.fix_missing_locations(new)
    try:
        node._canon = new
    except AttributeError:
        pass
    return new


def _induction_variables(paths, steps):
    """A variable of a `while True` loop that starts at an integer constant k and that every continuing iteration leaves one higher is the
    iteration index plus k: lv(name, loop, k) becomes idx(loop) + k, the term a `for i in itertools.count()` / enumerate loop binds."""
    by_lid = {}
    for lid, evs, env_ in steps:
        by_lid.setdefault(lid, []).append(env_)
    m = {}
    for lid, envs in by_lid.items():
        names = set.intersection(*[set(e_) for e_ in envs])
        for nm in names:
            lvs = {x for e_ in envs for x in N.walk(e_[nm]) if x[0] == "lv" and x[1] == nm and x[2] == lid} if all(isinstance(e_[nm], tuple) for e_ in envs) else set()
            if len(lvs) == 1:
                x = next(iter(lvs))
                if x[3] is not None and N.is_int(x[3]) and all(e_[nm] == N.mk_add(x, N.const(1)) for e_ in envs):
                    m[x] = N.mk_add(("idx", lid), x[3])
    if not m:
        return paths, steps

    def sub_ev(e):
        a2 = {k: (N.rebuild(v, m) if isinstance(v, tuple) and v and any(y in m for y in N.walk(v)) else v) for k, v in e.a.items()}
        u = N.rebuild(e.under, m) if e.under is not None else None
        return Event(e.kind, a2, e.node, e.trys, e.loops, u, e.raised, e.depth)
    out = []
    for p in paths:
        evs = [sub_ev(e) for e in p.events]
        o = p.outcome
        if o[0] == "return" and isinstance(o[1], tuple):
            o = ("return", N.rebuild(o[1], m))
        elif o[0] == "raise" and isinstance(o[1], dict) and o[1].get("event") is not None:
            # the raising event is referred to by identity: keep the link to the rewritten copy
            for old_e, new_e in zip(p.events, evs):
                if old_e is o[1]["event"]:
                    o = ("raise", dict(o[1], event=new_e))
                    break
        q = Path(evs, o, {k: (N.rebuild(v, m) if isinstance(v, tuple) else v) for k, v in p.env.items()}, p.closures)
        out.append(q)
    steps2 = [(lid, [sub_ev(e) for e in evs], {k: (N.rebuild(v, m) if isinstance(v, tuple) else v) for k, v in env_.items()}) for lid, evs, env_ in steps]
    return out, steps2


def _outer_ites(t):
    """ite sub-terms of t that are not inside a lambda body or a comprehension (whose conditions may mention bound variables)."""
    out = []
    stack = [t]
    while stack:
        x = stack.pop()
        if not isinstance(x, tuple) or not x:
            continue
        if isinstance(x[0], str):
            if x[0] in ("lam", "comp", "closure"):
                continue
            if x[0] == "ite":
                out.append(x)
        stack.extend(y for y in x if isinstance(y, tuple))
    return out


def expand_conditionals(path, budget=4):
    """A conditional *expression* is the same thing as the `if` statement it abbreviates: a path whose events carry `c ? a : b` terms is split
    into the path on which c holds (the terms become a, events evaluated only on the other arm disappear) and the one on which it does not,
    each with the ASSUME an `if` statement would have recorded, placed before the first event that depends on the choice.  Rules therefore
    see guards and plain values whichever spelling the code uses."""
    if budget <= 0:
        return [path]
    first = None
    for i, e in enumerate(path.events):
        if e.kind == "ASSUME":
            continue
        terms = [v for v in e.a.values() if isinstance(v, tuple)]
        found = [x for v in terms for x in _outer_ites(v)]
        if found:
            first = (i, found)
            break
    if first is None and path.outcome[0] == "return" and isinstance(path.outcome[1], tuple):
        found = _outer_ites(path.outcome[1])
        if found:
            first = (len(path.events), found)
    if first is None:
        return [path]
    idx, found = first
    # the outermost conditional first (a nested one is handled by the recursion)
    c = sorted(found, key=lambda x: -len(repr(x)))[0][1]
    if any(x[0] in ("bv",) for x in N.walk(c)):
        return [path]
    notc = N.mk_not(c)
    # the choice is made where the first event guarded by it (or using it) stands
    for j, e in enumerate(path.events[:idx]):
        if e.under in (c, notc):
            idx = j
            break
    out = []
    anchor = path.events[idx] if idx < len(path.events) else (path.events[-1] if path.events else None)
    for truth in (True, False):
        cond = c if truth else notc
        keep_under, drop_under = (c, notc) if truth else (notc, c)

        def pick(t):
            if not isinstance(t, tuple) or not t:
                return t
            if isinstance(t[0], str):
                if t[0] in ("lam", "comp", "closure", "c"):
                    return t
                if t[0] == "ite" and t[1] == c:
                    return pick(t[2] if truth else t[3])
            return tuple(pick(x) if isinstance(x, tuple) else x for x in t)
        evs = []
        for j, e in enumerate(path.events):
            if j == idx:
                evs.append(Event("ASSUME", {"cond": cond}, e.node, e.trys, e.loops, None, False, e.depth))
            if e.under == drop_under:
                continue
            a2 = {k: (pick(v) if isinstance(v, tuple) else v) for k, v in e.a.items()}
            e2 = Event(e.kind, a2, e.node, e.trys, e.loops, None if e.under == keep_under else e.under, e.raised, e.depth)
            evs.append(e2)
        if idx >= len(path.events) and anchor is not None:
            evs.append(Event("ASSUME", {"cond": cond}, anchor.node, anchor.trys, anchor.loops, None, False, anchor.depth))
        elif idx >= len(path.events):
            evs.append(Event("ASSUME", {"cond": cond}, None, (), (), None, False, 0))
        outc = path.outcome
        if outc[0] == "return" and isinstance(outc[1], tuple):
            outc = ("return", pick(outc[1]))
            # keep the RETURN event (if it is the last one) consistent with the outcome
        q = Path(evs, outc, path.env, path.closures)
        # a guard that contradicts one already on the path makes the variant infeasible
        gs = set(q.guards())
        if N.mk_not(cond) in set(path.guards()):
            continue
        out.extend(expand_conditionals(q, budget - 1))
    return out or [path]


class _State:
    __slots__ = ("env", "events", "counters", "trys", "loops", "under", "closures", "globals_", "excstack", "depth", "heap")

    def __init__(self):
        self.env = {}
        self.events = []
        self.counters = {}
        self.trys = ()
        self.loops = ()
        self.under = None
        self.closures = {}
        self.globals_ = set()
        self.excstack = ()
        self.depth = 0
        self.heap = {}

    def fork(self):
        s = _State()
        s.env = dict(self.env)
        s.events = list(self.events)
        s.counters = dict(self.counters)
        s.trys, s.loops, s.under = self.trys, self.loops, self.under
        s.closures = dict(self.closures)
        s.globals_ = set(self.globals_)
        s.excstack = self.excstack
        s.depth = self.depth
        s.heap = dict(self.heap)
        return s

    def tick(self, key):
        n = self.counters.get(key, self.counters.get("__base__", 0))
        self.counters[key] = n + 1
        return n


class Summariser:
    def __init__(self, model, inline_depth=2):
        self.model = model
        self.inline_depth = inline_depth
        self._tryid = 0
        self.cache = {}
        self.pending = []

    # ---------------------------------------------------------------- public
    def summarise(self, fi, bindings=None, self_cls=None):
        """Return list of Path for function `fi` (FuncInfo)."""
        key = (id(fi.node), self_cls, id(bindings) if bindings else None)
        if key in self.cache and bindings is None:
            return self.cache[key]
        self.fi = fi
        self.self_cls = self_cls or (fi.cls.name if fi.cls else None)
        st = _State()
        a = fi.node.args
        self._type_params(fi)
        for arg in a.posonlyargs + a.args + a.kwonlyargs:
            st.env[arg.arg] = N.param(arg.arg)
        if a.vararg:
            st.env[a.vararg.arg] = N.param("*" + a.vararg.arg)
        if a.kwarg:
            st.env[a.kwarg.arg] = N.param("**" + a.kwarg.arg)
        if bindings:
            for k, v in bindings.items():
                st.env.setdefault(k, v)
            # ordinals of a closure's own events must not collide with captured terms of the enclosing function
            st.counters["__base__"] = 100
        self._steps = []
        results = self.block(fi.node.body, st)
        steps = self._steps
        self._steps = []
        paths = []
        for s, out in results:
            if out[0] == "normal":
                out = ("fall",)
            elif out[0] in ("break", "continue"):
                raise AnalysisError("stray %s in %s" % (out[0], fi.qual))
            paths.append(Path(s.events, out, s.env, s.closures))
        if steps and os.environ.get("SA_NO_UNBOUNDED_CANON") != "1":
            paths, steps = _induction_variables(paths, steps)
        if os.environ.get("SA_NO_ITE_EXPAND") != "1":
            paths = [q for p_ in paths for q in expand_conditionals(p_)]
        if os.environ.get("SA_NO_STEP_PATHS") != "1":
            # the iteration of an unbounded loop that goes on to the next one ends no path of the function; it is listed as a path of its own
            # (outcome ('continue', loop)), so that rules which collect what a method does see those events too
            paths = paths + [q for lid, evs, env_ in steps for q in expand_conditionals(Path(list(evs), ("continue", lid), env_, {}))]
        for p_ in paths:
            p_.loop_steps = steps      # [(loop id, events of a generic iteration that goes on to the next one, locals at its end)] of `while True` loops
        if len(paths) > PATH_BOUND:
            raise AnalysisError("path bound exceeded in %s (%d paths)" % (fi.qual, len(paths)))
        if bindings is None:
            self.cache[key] = paths
        return paths

    POSITIONAL = {"_parse": {1: "stream", 2: "ctx"}, "_parsereport": {1: "stream", 2: "ctx"}, "_actualsize": {1: "stream", 2: "ctx"},
                  "_build": {2: "stream", 3: "ctx"}, "_sizeof": {1: "ctx"}, "_decode": {2: "ctx"}, "_encode": {2: "ctx"}, "_validate": {2: "ctx"}}

    def _type_params(self, fi):
        """Protocol methods receive the stream / context by position, whatever the parameter is called."""
        self.stream_params, self.ctx_params = set(), set()
        names = [x.arg for x in fi.node.args.posonlyargs + fi.node.args.args]
        offset = 0 if (names and names[0] == "self") else -1
        for pos, role in self.POSITIONAL.get(fi.node.name, {}).items():
            i = pos + offset
            if 0 <= i < len(names):
                (self.stream_params if role == "stream" else self.ctx_params).add(names[i])
        self.local_names = set()
        for n in ast.walk(fi.node):
            if isinstance(n, ast.Name) and isinstance(n.ctx, ast.Store):
                self.local_names.add(n.id)

    # ------------------------------------------------------------- statements
    def block(self, stmts, st):
        live = [(st, ("normal",))]
        if os.environ.get("SA_NO_COLLECT_CANON") != "1":
            stmts = _collect_loops(stmts)
        for stmt in stmts:
            nxt = []
            for s, out in live:
                if out[0] != "normal":
                    nxt.append((s, out))
                else:
                    nxt.extend(self.stmt(stmt, s))
            live = nxt
            if len(live) > 4 * PATH_BOUND:
                raise AnalysisError("path bound exceeded in %s" % self.fi.qual)
        return live

    def stmt(self, node, st):
        m = getattr(self, "s_" + type(node).__name__, None)
        if m is None:
            raise AnalysisError("unsupported statement %s in %s line %d" % (type(node).__name__, self.fi.qual, node.lineno))
        outer = self.pending
        self.pending = []
        try:
            res = m(node, st)
            res = list(res) + self.pending
        finally:
            self.pending = outer
        return res

    def s_Pass(self, node, st):
        return [(st, ("normal",))]

    def s_Import(self, node, st):
        for al in node.names:
            nm = (al.asname or al.name).split(".")[0]
            st.env[nm] = ("module", al.name if al.asname else al.name.split(".")[0])
        return [(st, ("normal",))]

    def s_ImportFrom(self, node, st):
        for al in node.names:
            st.env[al.asname or al.name] = ("free", "%s.%s" % (node.module, al.name))
        return [(st, ("normal",))]

    def s_Global(self, node, st):
        st.globals_.update(node.names)
        self.emit(st, "GLOBALDECL", {"names": tuple(node.names)}, node)
        return [(st, ("normal",))]

    s_Nonlocal = s_Global

    def s_Expr(self, node, st):
        if isinstance(node.value, ast.Constant):
            return [(st, ("normal",))]
        v = node.value
        if isinstance(v, ast.Call) and isinstance(v.func, ast.Name) and (v.func.id.startswith("_") or v.func.id not in PACKAGE_FUNCTIONS) and v.func.id in self.model.functions and v.func.id not in st.env \
                and not v.func.id[1:2].isupper() and st.depth < self.inline_depth:
            # a private package-level procedure called for its effects: its body runs in place (loops included), one continuation per exit
            multi = self._multi_inline_fi(self.model.functions[v.func.id], v, st, static=True, bound=False, procedure=True)
            if not multi:
                multi = self.multi_inline(v, st)          # no loop, but several exits (guards, handlers)
            if multi:
                return [(s_, ("normal",)) for s_, _ in multi]
        self.expr(node.value, st)
        return [(st, ("normal",))]

    def s_Assert(self, node, st):
        c = self.expr(node.test, st)
        self.emit(st, "ASSUME", {"cond": c, "assert_": True}, node)
        return [(st, ("normal",))]

    def s_Delete(self, node, st):
        for t in node.targets:
            if isinstance(t, ast.Subscript):
                b = self.expr(t.value, st)
                k = self.expr(t.slice, st)
                self.emit(st, "DELITEM", {"base": b, "key": k}, node)
            elif isinstance(t, ast.Name):
                st.env.pop(t.id, None)
            elif isinstance(t, ast.Attribute):
                b = self.expr(t.value, st)
                self.emit(st, "DELATTR", {"base": b, "attr": t.attr}, node)
        return [(st, ("normal",))]

    def s_FunctionDef(self, node, st):
        fi = FuncInfo(node, self.fi.relpath, cls=self.fi.cls, qual=self.fi.qual + "." + node.name, outer=self.fi)
        st.closures[node.name] = fi
        st.env[node.name] = ("closure", fi.qual)
        return [(st, ("normal",))]

    def s_ClassDef(self, node, st):
        st.env[node.name] = ("localclass", node.name, tuple(N_dotted(b) for b in node.bases))
        st.closures[node.name] = node
        return [(st, ("normal",))]

    def multi_inline(self, call, st):
        """`x = self.helper(...)` / `return self.helper(...)` / `Cls.helper(...)` where the helper is a method of the analysed class with several
        return paths (the single-path case is handled inside e_Call): the caller's path forks, one continuation per exit of the helper, the
        helper's guards and events recorded one level deeper.  Returns [(state, value term)] or None when the call is not of that kind."""
        M = self.model
        f = call.func if isinstance(call, ast.Call) else None
        if f is None or st.depth >= self.inline_depth:
            return None
        if isinstance(f, ast.Name) and (f.id.startswith("_") or f.id not in PACKAGE_FUNCTIONS) and f.id in M.functions and f.id not in st.env and not f.id.lstrip("_")[:1].isupper():
            # a private package-level helper with several exits (straight-line): forked like a class helper
            return self._multi_inline_fi(M.functions[f.id], call, st, static=True, bound=False, loops_ok=True)
        if not (isinstance(f, ast.Attribute) and isinstance(f.value, ast.Name)) or not self.self_cls:
            return None
        meth = f.attr
        if meth.startswith("_emit") or meth.startswith("_compile") or meth in self.POSITIONAL or meth.startswith("__"):
            return None
        if f.value.id == "self" and st.env.get("self", ("param", "self")) == ("param", "self"):
            fi, bound = M.resolve(self.self_cls, meth), True
        elif f.value.id == self.self_cls and f.value.id not in st.env:
            fi, bound = M.resolve(self.self_cls, meth), False
        else:
            return None
        if fi is None:
            return None
        static = any(isinstance(d, ast.Name) and d.id == "staticmethod" for d in fi.node.decorator_list)
        if not static and not bound:
            return None
        return self._multi_inline_fi(fi, call, st, static=static, bound=bound)

    def _multi_inline_fi(self, fi, call, st, static, bound, procedure=False, loops_ok=False):
        if fi.node is self.fi.node or any(isinstance(a, ast.Starred) for a in call.args) or any(k.arg is None for k in call.keywords):
            return None
        if procedure:
            if any(isinstance(n, (ast.Try, ast.With, ast.Yield, ast.YieldFrom)) for n in ast.walk(fi.node)) or not any(isinstance(n, (ast.For, ast.While)) for n in ast.walk(fi.node)):
                return None
        elif any(isinstance(n, (ast.With,) if loops_ok else (ast.For, ast.While, ast.With)) for n in ast.walk(fi.node)):
            return None        # only straight-line helpers (branches and comprehensions); anything with loops or handlers stays a call
        elif not any(isinstance(n, (ast.If, ast.IfExp, ast.BoolOp, ast.Raise, ast.Try) + ((ast.For, ast.While) if loops_ok else ())) for n in ast.walk(fi.node)):
            return None        # a helper without branches is inlined by the ordinary (single-exit) route
        probe = st.fork()
        args = [self.expr(a, probe) for a in call.args]
        kws = [(k.arg, self.expr(k.value, probe)) for k in call.keywords]
        a = fi.node.args
        names = [x.arg for x in a.posonlyargs + a.args]
        if not static:
            args = [("param", "self")] + args
        if (len(args) > len(names) and not a.vararg) or a.kwonlyargs:
            return None
        extra_kw = [(k, v) for k, v in kws if k not in names]
        if extra_kw and not a.kwarg:
            return None
        sub = probe.fork()
        sub.env = dict(self.inline_env(probe))
        if a.vararg:
            sub.env[a.vararg.arg] = ("tuple", tuple(args[len(names):]))
            args = args[:len(names)]
        if a.kwarg:
            sub.env[a.kwarg.arg] = ("kwdict", tuple(extra_kw))
            kws = [(k, v) for k, v in kws if k in names]
        defaults = dict(zip(names[len(names) - len(a.defaults):], a.defaults))
        for nm in names[len(args):]:
            if nm in dict(kws):
                continue
            if nm not in defaults:
                return None
            sub.env[nm] = self.expr(defaults[nm], probe.fork())
        for nm, v in zip(names, args):
            sub.env[nm] = v
        for k, v in kws:
            sub.env[k] = v
        saved_fi, saved_cls = self.fi, self.self_cls
        self.fi, self.self_cls = fi, (fi.cls.name if fi.cls else None)
        sub.depth += 1
        try:
            res = self.block(fi.node.body, sub)
        except AnalysisError:
            return None
        finally:
            self.fi, self.self_cls = saved_fi, saved_cls
        out = []
        for s, o in res:
            s.env = dict(probe.env)
            s.depth = probe.depth
            s.loops, s.trys, s.under = probe.loops, probe.trys, probe.under
            if o[0] == "raise":
                self.pending.append((s, o))
            elif o[0] == "return":
                out.append((s, o[1]))
            elif o[0] == "normal":
                out.append((s, N.NONE))
            else:
                return None
        return out or None

    def s_Return(self, node, st):
        multi = self.multi_inline(node.value, st) if node.value is not None else None
        if multi:
            res = []
            for s, t in multi:
                self.emit(s, "RETURN", {"value": t}, node)
                res.append((s, ("return", t)))
            return res
        t = self.expr(node.value, st) if node.value is not None else N.NONE
        self.emit(st, "RETURN", {"value": t}, node)
        return [(st, ("return", t))]

    def s_Break(self, node, st):
        return [(st, ("break",))]

    def s_Continue(self, node, st):
        return [(st, ("continue",))]

    def s_Raise(self, node, st):
        if node.exc is None:
            info = st.excstack[-1] if st.excstack else {"kind": "reraise", "cls": None}
            self.emit(st, "RERAISE", {}, node)
            info = dict(info)
            info["reraised"] = True
            return [(st, ("raise", info))]
        t = self.expr(node.exc, st)
        cls, args, kw = None, (), ()
        if t[0] == "exc":
            cls, args, kw = t[1], t[2], t[3]
        elif t[0] == "free":
            cls = t[1]
        haspath = dict(kw).get("path")
        if haspath is None and t[0] == "exc" and len(args) >= 2 and self.model.is_subclass(cls, "ConstructError"):
            haspath = args[1]
        self.emit(st, "RAISE", {"cls": cls, "path": haspath, "exc": t}, node)
        return [(st, ("raise", {"kind": "explicit", "cls": cls, "term": t, "node": node, "path": haspath}))]

    # ---- assignment
    def s_Assign(self, node, st):
        multi = self.multi_inline(node.value, st)
        if multi:
            res = []
            for s, v in multi:
                for t in node.targets:
                    self.assign(t, v, s, node)
                res.append((s, ("normal",)))
            return res
        v = self.expr(node.value, st)
        for t in node.targets:
            self.assign(t, v, st, node)
        return [(st, ("normal",))]

    def s_AnnAssign(self, node, st):
        if node.value is not None:
            v = self.expr(node.value, st)
            self.assign(node.target, v, st, node)
        return [(st, ("normal",))]

    def s_AugAssign(self, node, st):
        cur = self.expr(_load(node.target), st)
        v = self.expr(node.value, st)
        op = _OPS[type(node.op)]
        if isinstance(node.target, ast.Name) and isinstance(node.op, ast.Add):
            # `x += seq` on a local that aliases an object reachable from self (possibly on one arm of a conditional) extends that object
            # in place when it is a list: record the possible mutation of the aliased object
            def aliases(t):
                if not isinstance(t, tuple) or not t:
                    return []
                if t[0] == "ite":
                    return aliases(t[2]) + aliases(t[3])
                if t[0] == "attr" and self.roots_in_self(t):
                    return [t]
                return []
            def listy(t):
                return N._seqish(t) or (isinstance(t, tuple) and t and t[0] == "ite" and (listy(t[2]) or listy(t[3])))
            if listy(v) or listy(cur):
                for a in aliases(cur):
                    self.emit(st, "SELFWRITE", {"base": a, "attr": ["__iadd__"], "value": v}, node)
        self.assign(node.target, N.mk_bin(op, cur, v), st, node, aug=op)
        return [(st, ("normal",))]

    def assign(self, target, v, st, node, aug=None):
        if isinstance(target, ast.Name):
            if target.id in st.globals_:
                self.emit(st, "GLOBALWRITE", {"name": target.id, "value": v}, node)
            st.env[target.id] = v
        elif isinstance(target, (ast.Tuple, ast.List)):
            n = len(target.elts)
            if v[0] in ("tuple", "list") and len(v[1]) == n:
                for t, x in zip(target.elts, v[1]):
                    self.assign(t, x, st, node)
            else:
                for i, t in enumerate(target.elts):
                    if isinstance(t, ast.Starred):
                        self.assign(t.value, ("unpack*", v, i), st, node)
                    else:
                        self.assign(t, ("unpack", v, i), st, node)
        elif isinstance(target, ast.Attribute):
            b = self.expr(target.value, st)
            if not self.is_ctx(b):
                st.heap[(b, target.attr)] = v
            if self.is_ctx(b):
                self.emit(st, "CTXSET", {"ctx": b, "key": N.const(target.attr), "value": v}, node)
            elif self.roots_in_self(b):
                self.emit(st, "SELFWRITE", {"base": b, "attr": target.attr, "value": v}, node)
            else:
                self.emit(st, "ATTRSET", {"base": b, "attr": target.attr, "value": v}, node)
        elif isinstance(target, ast.Subscript):
            b = self.expr(target.value, st)
            k = self.expr(target.slice, st)
            if self.is_ctx(b):
                self.emit(st, "CTXSET", {"ctx": b, "key": k, "value": v}, node)
            else:
                kind = "SELFWRITE" if self.roots_in_self(b) else "STORE"
                a = {"base": b, "key": k, "value": v}
                if kind == "SELFWRITE":
                    a["attr"] = "[...]"
                self.emit(st, kind, a, node)
        elif isinstance(target, ast.Starred):
            self.assign(target.value, v, st, node)
        else:
            raise AnalysisError("unsupported assignment target in %s line %d" % (self.fi.qual, node.lineno))

    # ---- control flow
    def s_If(self, node, st):
        # `if callable(v): try: v = v(context) except H: ...` is `try: if callable(v): v = v(context) except H: ...` (callable() itself raises nothing)
        t_ = node.test
        if not node.orelse and len(node.body) == 1 and isinstance(node.body[0], ast.Try) and isinstance(t_, ast.Call) and isinstance(t_.func, ast.Name) \
                and t_.func.id == "callable" and len(t_.args) == 1 and isinstance(t_.args[0], ast.Name):
            tr = node.body[0]
            if len(tr.body) == 1 and isinstance(tr.body[0], ast.Assign) and not tr.orelse and not tr.finalbody:
                inner = ast.copy_location(ast.If(test=node.test, body=tr.body, orelse=[]), node)
                outer = ast.copy_location(ast.Try(body=[inner], handlers=tr.handlers, orelse=[], finalbody=[]), tr)
                return self.s_Try(outer, st)
        # two-statement evaluate idiom:  if callable(v): v = v(context)
        idi = self._callable_idiom(node, st)
        if idi:
            return [(st, ("normal",))]
        # `if [not] self.helper(...):` with a branching helper of the class: the helper's exits fork the path first, then the test is decided
        # per exit (the same thing as `t = self.helper(...)` followed by `if [not] t:`)
        tcall = node.test.operand if isinstance(node.test, ast.UnaryOp) and isinstance(node.test.op, ast.Not) else node.test
        if isinstance(tcall, ast.Call):
            multi = self.multi_inline(tcall, st)
            if multi:
                out = []
                for s_, v_ in multi:
                    tmp = "__helper_result_%d" % getattr(node, "lineno", 0)
                    s_.env[tmp] = v_
                    test2 = ast.copy_location(ast.Name(id=tmp, ctx=ast.Load()), tcall)
                    if tcall is not node.test:
                        test2 = ast.copy_location(ast.UnaryOp(op=ast.Not(), operand=test2), node.test)
                    node2 = ast.copy_location(ast.If(test=test2, body=node.body, orelse=node.orelse), node)
                    out.extend(self.s_If(node2, s_))
                return out
        c = self.expr(node.test, st)
        if N.is_const(c):
            return self.block(node.body if c[2] else node.orelse, st)
        # infeasible-path pruning: the same immutable condition was already decided on this path
        if not any(x[0] in ("new", "newctx", "getvalue", "rawio") for x in N.walk(c)):
            nc = N.mk_not(c)
            for e in st.events:
                if e.kind == "ASSUME" and e.depth == st.depth:
                    if e.a["cond"] == c:
                        return self.block(node.body, st)
                    if e.a["cond"] == nc:
                        return self.block(node.orelse, st)
        out = []
        s1 = st.fork()
        self.emit(s1, "ASSUME", {"cond": c}, node)
        out.extend(self.block(node.body, s1))
        s2 = st
        self.emit(s2, "ASSUME", {"cond": N.mk_not(c)}, node)
        out.extend(self.block(node.orelse, s2))
        return out

    def _callable_idiom(self, node, st):
        t = node.test
        # statement form of `t = X(c) if callable(X) else X`:  if callable(X): t = X(c)  else: t = X
        if len(node.body) == 1 and len(node.orelse) == 1 and isinstance(t, ast.Call) and isinstance(t.func, ast.Name) and t.func.id == "callable" and len(t.args) == 1 \
                and not t.keywords:
            b, o = node.body[0], node.orelse[0]
            if isinstance(b, ast.Assign) and isinstance(o, ast.Assign) and len(b.targets) == 1 and len(o.targets) == 1 and isinstance(b.targets[0], ast.Name) \
                    and isinstance(o.targets[0], ast.Name) and b.targets[0].id == o.targets[0].id and isinstance(b.value, ast.Call) and len(b.value.args) == 1 \
                    and not b.value.keywords and ast.dump(b.value.func) == ast.dump(t.args[0]) and ast.dump(o.value) == ast.dump(t.args[0]):
                p = self.expr(t.args[0], st)
                ctx = self.expr(b.value.args[0], st)
                self.assign(b.targets[0], self.mk_eval(st, p, ctx, node), st, node)
                return True
        if node.orelse or len(node.body) != 1:
            return False
        if not (isinstance(t, ast.Call) and isinstance(t.func, ast.Name) and t.func.id == "callable" and len(t.args) == 1
                and isinstance(t.args[0], ast.Name)):
            return False
        b = node.body[0]
        v = t.args[0].id
        if not (isinstance(b, ast.Assign) and len(b.targets) == 1 and isinstance(b.targets[0], ast.Name) and b.targets[0].id == v
                and isinstance(b.value, ast.Call) and isinstance(b.value.func, ast.Name) and b.value.func.id == v
                and len(b.value.args) == 1 and not b.value.keywords):
            return False
        p = st.env.get(v, ("free", v))
        ctx = self.expr(b.value.args[0], st)
        st.env[v] = self.mk_eval(st, p, ctx, node)
        return True

    def s_With(self, node, st):
        for item in node.items:
            v = self.expr(item.context_expr, st)
            if item.optional_vars is not None:
                self.assign(item.optional_vars, ("with", v), st, node)
        return self.block(node.body, st)

    def _with_loop_targets(self, st, body, lid):
        f = st.fork()
        for nm in self._loop_targets(body):
            f.env[nm] = ("lv", nm, lid, f.env.get(nm))
        return f

    def _loop_targets(self, body):
        names = set()
        for n in body:
            for x in ast.walk(n):
                if isinstance(x, ast.Name) and isinstance(x.ctx, ast.Store):
                    names.add(x.id)
        return names - self._exit_flags(body)

    def _exit_flags(self, body):
        """Names whose every assignment in the loop body is a plain `name = expr` directly followed by leaving the loop (break / return / raise):
        at the start of every iteration such a name still has the value it had before the loop (`found = True; break`), so it is not loop-carried."""
        good, bad = set(), set()

        def scan(stmts):
            for i, st_ in enumerate(stmts):
                if isinstance(st_, ast.Assign) and len(st_.targets) == 1 and isinstance(st_.targets[0], ast.Name):
                    nxt = stmts[i + 1] if i + 1 < len(stmts) else None
                    (good if isinstance(nxt, (ast.Break, ast.Return, ast.Raise)) else bad).add(st_.targets[0].id)
                    for x in ast.walk(st_.value):
                        if isinstance(x, ast.NamedExpr):
                            bad.add(x.target.id)
                    continue
                if isinstance(st_, (ast.FunctionDef, ast.ClassDef, ast.Lambda)):
                    continue
                # any other binding form (augmented, tuple targets, for targets, with ... as, walrus, except ... as) is an ordinary loop-carried store
                for x in ast.walk(st_) if not isinstance(st_, (ast.If, ast.Try, ast.With, ast.For, ast.While)) else []:
                    if isinstance(x, ast.Name) and isinstance(x.ctx, ast.Store):
                        bad.add(x.id)
                if isinstance(st_, (ast.If,)):
                    for x in ast.walk(st_.test):
                        if isinstance(x, ast.NamedExpr):
                            bad.add(x.target.id)
                    scan(st_.body); scan(st_.orelse)
                elif isinstance(st_, ast.Try):
                    scan(st_.body); scan(st_.orelse); scan(st_.finalbody)
                    for h in st_.handlers:
                        if h.name:
                            bad.add(h.name)
                        scan(h.body)
                elif isinstance(st_, (ast.With, ast.For, ast.While)):
                    # nested loops and with-blocks: everything stored inside is treated as an ordinary store
                    for x in ast.walk(st_):
                        if isinstance(x, ast.Name) and isinstance(x.ctx, ast.Store):
                            bad.add(x.id)
        scan(body)
        return good - bad

    def _havoc_heap(self, body, st, lid):
        """Attributes stored inside a loop body are loop-carried."""
        for n in body:
            for x in ast.walk(n):
                if isinstance(x, ast.Attribute) and isinstance(x.ctx, ast.Store):
                    try:
                        b = self.expr(x.value, st.fork())
                    except AnalysisError:
                        continue
                    prior = st.heap.get((b, x.attr), ("attr", b, x.attr))
                    st.heap[(b, x.attr)] = ("lv", "%s.%s" % (N.show(b), x.attr), lid, prior)

    def s_For(self, node, st):
        it = self.expr(node.iter, st)
        if it[0] == "call" and it[1] in (("attr", ("module", "itertools"), "count"), ("attr", ("free", "itertools"), "count")) and not it[2] and not it[3] \
                and not node.orelse and os.environ.get("SA_NO_UNBOUNDED_CANON") != "1":
            # `for i in itertools.count(): body` is `while True: body` with i the 0-based iteration index: one representation for both spellings
            return self.s_While(node, st, unbounded_for=it)
        if it[0] in ("tuple", "list") and 1 <= len(it[1]) <= 4 and not node.orelse and not any(x[0] == "star" for x in it[1]) \
                and os.environ.get("SA_NO_UNROLL") != "1":
            # a loop over a literal tuple of a few items is its body written out once per item
            states = [(st, ("normal",))]
            for elem in it[1]:
                nxt = []
                for s_, o_ in states:
                    if o_[0] != "normal":
                        nxt.append((s_, o_))
                        continue
                    self.assign(node.target, elem, s_, node)
                    for s2, o2 in self.block(node.body, s_):
                        nxt.append((s2, ("normal",) if o2[0] == "continue" else o2))
                states = nxt
            return [(s_, ("normal",) if o_[0] == "break" else o_) for s_, o_ in states]
        lid = st.tick("loop")
        self.emit(st, "LOOP", {"lid": lid, "iter": it, "kind": "for"}, node)
        results = []
        # zero iterations
        z = st.fork()
        self.emit(z, "LOOPEND", {"lid": lid, "how": "zero"}, node)
        results.extend(self.block(node.orelse, z))
        # generic (last) iteration
        b = st
        for nm in self._loop_targets(node.body):
            if nm in b.env:
                b.env[nm] = ("lv", nm, lid, b.env[nm])
            else:
                b.env[nm] = ("lv", nm, lid, None)
        self._havoc_heap(node.body, b, lid)
        self.bind_iter(node.target, it, lid, b, node)
        b.loops = b.loops + (lid,)
        self.emit(b, "ITER", {"lid": lid}, node)
        for s, out in self.block(node.body, b):
            s.loops = tuple(x for x in s.loops if x != lid)
            if out[0] in ("normal", "continue"):
                self.emit(s, "LOOPEND", {"lid": lid, "how": "exhausted"}, node)
                results.extend(self.block(node.orelse, s))
            elif out[0] == "break":
                self.emit(s, "LOOPEND", {"lid": lid, "how": "break"}, node)
                results.append((s, ("normal",)))
            else:
                results.append((s, out))
        return results

    def bind_iter(self, target, it, lid, st, node):
        idx = ("idx", lid)
        if it[0] == "call" and it[1] == ("free", "enumerate") and len(it[2]) >= 1:
            elem = ("elem", it[2][0], lid)
            v = ("tuple", (idx, elem))
        elif it[0] == "call" and it[1] == ("free", "range"):
            if len(it[2]) == 1:
                v = idx
            else:
                v = ("rangeelem", it[2], lid)
        elif it[0] == "call" and it[1] in (("attr", ("module", "itertools"), "count"), ("attr", ("free", "itertools"), "count")) and not it[2]:
            v = idx
        elif it[0] == "call" and it[1][0] == "attr" and it[1][2] == "items" and not it[2]:
            v = ("tuple", (("key", it[1][1], lid), ("val", it[1][1], lid)))
        else:
            v = ("elem", it, lid)
        self.assign(target, v, st, node)

    def s_While(self, node, st, unbounded_for=None):
        # `while [not] self.helper(...): body` with a branching helper of the class is `while True: if not (...): break; body`
        test_node = ast.copy_location(ast.Constant(value=True), node) if unbounded_for is not None else node.test
        tcall = test_node.operand if isinstance(test_node, ast.UnaryOp) and isinstance(test_node.op, ast.Not) else test_node
        if isinstance(tcall, ast.Call) and not node.orelse and not getattr(node, "_desugared", False):
            probe = st.fork()
            saved_pending = self.pending
            self.pending = []
            try:
                cand = self.multi_inline(tcall, probe)
            finally:
                self.pending = saved_pending
            if cand:
                neg = node.test.operand if tcall is not node.test else ast.copy_location(ast.UnaryOp(op=ast.Not(), operand=node.test), node.test)
                brk = ast.copy_location(ast.If(test=neg, body=[ast.copy_location(ast.Break(), node)], orelse=[]), node)
                loop = ast.copy_location(ast.While(test=ast.copy_location(ast.Constant(value=True), node), body=[brk] + list(node.body), orelse=[]), node)
                loop._desugared = True
                ast.fix_missing_locations(loop)
                return self.s_While(loop, st)
        lid = st.tick("loop")
        c0 = self.expr(test_node, st)
        # the test is constantly true only if nothing it mentions is assigned in the body (`terminated = False; while not terminated:` is true on
        # entry, not for ever)
        forever = N.is_const(c0) and bool(c0[2]) and not ({x.id for x in ast.walk(test_node) if isinstance(x, ast.Name)} & self._loop_targets(node.body))
        true_on_entry = N.is_const(c0) and bool(c0[2])
        if true_on_entry and not forever:
            c0 = self.expr(test_node, self._with_loop_targets(st, node.body, lid))
        self.emit(st, "LOOP", {"lid": lid, "iter": c0, "kind": "while"}, node)
        results = []
        if not true_on_entry:
            z = st.fork()
            self.emit(z, "ASSUME", {"cond": N.mk_not(c0)}, node)
            self.emit(z, "LOOPEND", {"lid": lid, "how": "zero"}, node)
            results.extend(self.block(node.orelse, z))
        b = st
        for nm in self._loop_targets(node.body):
            b.env[nm] = ("lv", nm, lid, b.env.get(nm))
        self._havoc_heap(node.body, b, lid)
        b.loops = b.loops + (lid,)
        if unbounded_for is not None:
            self.bind_iter(node.target, unbounded_for, lid, b, node)
        self.emit(b, "ITER", {"lid": lid}, node)
        c = self.expr(test_node, b)
        if not N.is_const(c):
            self.emit(b, "ASSUME", {"cond": c}, node)
        for s, out in self.block(node.body, b):
            s.loops = tuple(x for x in s.loops if x != lid)
            if out[0] in ("normal", "continue"):
                if forever:
                    # `while True` never exits normally: the iteration that carries on is not the tail of any path; keep its events
                    # (from the ITER marker on) for rules about what a non-final iteration does
                    evs = list(s.events)
                    start = max((i for i, e in enumerate(evs) if e.kind == "ITER" and e.a.get("lid") == lid), default=0)
                    if hasattr(self, "_steps"):
                        self._steps.append((lid, evs[start:], dict(s.env)))
                    continue
                c2 = self.expr(test_node, s)
                self.emit(s, "ASSUME", {"cond": N.mk_not(c2)}, node)
                self.emit(s, "LOOPEND", {"lid": lid, "how": "exhausted"}, node)
                results.extend(self.block(node.orelse, s))
            elif out[0] == "break":
                self.emit(s, "LOOPEND", {"lid": lid, "how": "break"}, node)
                results.append((s, ("normal",)))
            else:
                results.append((s, out))
        return results

    # ---- try
    def s_Try(self, node, st):
        if os.environ.get("SA_NO_TRY_CANON") != "1":
            node = _canonical_try(node, self.model)
        self._tryid += 1
        tid = st.tick("try")
        handlers = []
        for h in node.handlers:
            handlers.append(self.handler_types(h, st))
        self.emit(st, "TRY", {"tid": tid, "handlers": tuple(handlers)}, node)
        st.trys = st.trys + (tid,)
        body = self.block_try(node.body, st)
        after = []
        for s, out in body:
            s.trys = tuple(x for x in s.trys if x != tid)
            if out[0] == "normal":
                after.extend(self.block_try_else(node.orelse, s))
            elif out[0] == "raise":
                after.extend(self.dispatch(node, handlers, s, out[1], tid))
            else:
                after.append((s, out))
        if not node.finalbody:
            return after
        final = []
        for s, out in after:
            self.emit(s, "FINALLY", {"tid": tid}, node)
            for s2, out2 in self.block(node.finalbody, s):
                final.append((s2, out if out2[0] == "normal" else out2))
        return final

    def block_try(self, stmts, st):
        return self.block(stmts, st)

    def block_try_else(self, stmts, st):
        return self.block(stmts, st)

    def handler_types(self, h, st):
        if h.type is None:
            return ("*",)
        if isinstance(h.type, ast.Tuple):
            return tuple(N_dotted(e) for e in h.type.elts)
        return (N_dotted(h.type),)

    def ancestors(self, cls):
        if cls is None:
            return None
        out = [cls]
        ci = self.model.classes.get(cls)
        if ci is not None:
            out.extend(c.name for c in ci.mro[1:])
            out.extend(["Exception", "BaseException"])
            return out
        seen, todo = set(), [cls]
        while todo:
            c = todo.pop()
            if c in seen:
                continue
            seen.add(c)
            out.append(c)
            if c not in BUILTIN_EXC:
                return out + ["?"]
            todo.extend(BUILTIN_EXC[c])
        return out

    def catches(self, htypes, cls):
        """True / False / None(unknown)."""
        if "*" in htypes or "Exception" in htypes or "BaseException" in htypes:
            return True
        anc = self.ancestors(cls)
        if anc is None:
            return None
        if any(h in anc for h in htypes):
            return True
        if "?" in anc:
            return None
        return False

    def dispatch(self, node, handlers, s, info, tid):
        """Route an exception outcome to the handlers of this try."""
        classes = info.get("classes")
        if info.get("cls") is not None:
            classes = {info["cls"]}
        out = []
        if classes is not None:
            rest = set(classes)
            for i, ht in enumerate(handlers):
                hit = {c for c in rest if self.catches(ht, c)}
                if hit:
                    out.extend(self.run_handler(node.handlers[i], i, ht, s.fork(), dict(info, caught=tuple(sorted(hit))), tid))
                    rest -= hit
            if rest:
                out.append((s, ("raise", dict(info, classes=rest))))
            return out
        # unknown class: may be caught by any handler not subsumed by an earlier one
        total = False
        for i, ht in enumerate(handlers):
            out.extend(self.run_handler(node.handlers[i], i, ht, s.fork(), dict(info, caught=("?",)), tid))
            if "*" in ht or "Exception" in ht or "BaseException" in ht:
                total = True
                break
        if not total:
            out.append((s, ("raise", info)))
        return out

    def run_handler(self, h, idx, htypes, s, info, tid):
        self.emit(s, "CATCH", {"tid": tid, "handler": idx, "types": htypes, "exc": info.get("cls"), "implicit": info.get("kind") == "implicit"}, h)
        if h.name:
            s.env[h.name] = ("excobj", tid)
        s.excstack = s.excstack + (info,)
        res = self.block(h.body, s)
        for s2, o2 in res:
            s2.excstack = s2.excstack[:-1] if s2.excstack else ()
            if o2[0] != "raise":
                # the handler completed without raising: the exception is swallowed
                self.emit(s2, "ENDCATCH", {"tid": tid, "handler": idx, "how": o2[0]}, h)
        return res

    # ------------------------------------------------------------ expressions
    def emit(self, st, kind, a, node):
        e = Event(kind, a, node, st.trys, st.loops, st.under, False, st.depth)
        st.events.append(e)
        if st.trys and kind in MAY_RAISE:
            # exceptional edge: snapshot of the state as of this event (targets of the
            # current statement keep their previous binding)
            x = st.fork()
            x.events[-1] = e.copy(raised=True)
            if st.under is not None:
                # the arm of the conditional expression / short-circuit was entered: on this edge its condition is a guard, as after an `if`
                x.events[-1].under = None
                x.events.insert(len(x.events) - 1, Event("ASSUME", {"cond": st.under}, node, st.trys, st.loops, None, False, st.depth))
                x.under = None
            self.pending.append((x, ("raise", {"kind": "implicit", "event": e, "cls": None, "classes": STREAM_EXC.get(kind)})))
        return e

    def expr(self, node, st):
        if node is None:
            return N.NONE
        m = getattr(self, "e_" + type(node).__name__, None)
        if m is None:
            raise AnalysisError("unsupported expression %s in %s line %d" % (type(node).__name__, self.fi.qual, getattr(node, "lineno", 0)))
        return m(node, st)

    def e_Constant(self, node, st):
        return N.const(node.value)

    def e_Name(self, node, st):
        if node.id in st.env:
            return st.env[node.id]
        if node.id in ("True", "False", "None"):
            return N.const({"True": True, "False": False, "None": None}[node.id])
        if node.id in getattr(self, "local_names", ()) and st.depth == 0:
            self.emit(st, "UNDEF", {"name": node.id}, node)
            return ("undef", node.id)
        return ("free", node.id)

    def class_constant(self, attr):
        """Value term of a class-level constant of the analysed class read through `self` (`displayedbytes = HexDisplayedBytes` in the class body,
        overridden per subclass): resolved along the MRO of the class under analysis, provided no method anywhere stores `self.<attr>`."""
        M = self.model
        stores = getattr(M, "_self_stores", None)
        if stores is None:
            stores = set()
            for tree in M.modules.values():
                for n in ast.walk(tree):
                    if isinstance(n, ast.Attribute) and isinstance(n.ctx, (ast.Store, ast.Del)) and isinstance(n.value, ast.Name) and n.value.id == "self":
                        stores.add(n.attr)
                    elif isinstance(n, ast.Call) and isinstance(n.func, ast.Name) and n.func.id in ("setattr", "delattr") and len(n.args) >= 2 and isinstance(n.args[1], ast.Constant):
                        stores.add(n.args[1].value)
            M._self_stores = stores
        if attr in stores or not self.self_cls or self.self_cls not in M.classes:
            return None
        for ci in M.cls(self.self_cls).mro:
            v = ci.assigns.get(attr)
            if v is None:
                continue
            if isinstance(v, ast.Constant) and (v.value is None or isinstance(v.value, (bool, int, str, bytes))):
                return N.const(v.value) if v.value is not None else N.NONE
            if isinstance(v, ast.Name) and (v.id in M.classes or v.id in M.functions):
                return ("free", v.id)
            return None
        return None

    def e_Attribute(self, node, st):
        b = self.expr(node.value, st)
        if (b, node.attr) in st.heap:
            return st.heap[(b, node.attr)]
        if b == ("param", "self") and st.env.get("self", b) == b:
            c = self.class_constant(node.attr)
            if c is not None:
                return c
        return ("attr", b, node.attr)

    def e_Subscript(self, node, st):
        b = self.expr(node.value, st)
        k = self.expr(node.slice, st)
        t = ("sub", b, k)
        if b[0] in ("tuple", "list") and N.is_int(k) and -len(b[1]) <= k[2] < len(b[1]):
            return b[1][k[2]]
        if N.is_const(k) and isinstance(k[2], str) and b[0] == "call" and b[1] == ("free", "dict") and not b[2] and k[2] in dict(b[3]) and "**" not in dict(b[3]):
            return dict(b[3])[k[2]]          # dict(id=x, ...)["id"] is x
        if N.is_const(k) and b[0] == "dict" and any(kk == k for kk, _ in b[1]) and not any(kk == ("**",) for kk, _ in b[1]):
            return [vv for kk, vv in b[1] if kk == k][-1]
        if k == N.const(-1) and (b, "[-1]") in st.heap:
            return st.heap[(b, "[-1]")]      # x[-1] right after x.append(v)
        if b[0] not in ("tuple", "list", "dict", "c") and k[0] != "slice":
            self.emit(st, "GETITEM", {"base": b, "key": k, "res": t}, node)
        return t

    def e_Slice(self, node, st):
        return ("slice", self.expr(node.lower, st), self.expr(node.upper, st), self.expr(node.step, st))

    def e_Tuple(self, node, st):
        return ("tuple", tuple(self.expr(e, st) for e in node.elts))

    def e_List(self, node, st):
        if not node.elts:
            return ("new", "list", st.tick("new:list"))
        return ("list", tuple(self.expr(e, st) for e in node.elts))

    def e_Set(self, node, st):
        return ("set", tuple(self.expr(e, st) for e in node.elts))

    def e_Dict(self, node, st):
        items = []
        for k, v in zip(node.keys, node.values):
            items.append((self.expr(k, st) if k is not None else ("**",), self.expr(v, st)))
        if not items:
            return ("new", "dict", st.tick("new:dict"))
        return ("dict", tuple(items))

    def e_Starred(self, node, st):
        return ("star", self.expr(node.value, st))

    def e_JoinedStr(self, node, st):
        parts = []
        for v in node.values:
            if isinstance(v, ast.Constant):
                parts.append(N.const(v.value))
            else:
                parts.append(("fmtval", self.expr(v.value, st), v.conversion, self.expr(v.format_spec, st) if v.format_spec else None))
        return ("fstr", tuple(parts))

    def e_FormattedValue(self, node, st):
        return ("fmtval", self.expr(node.value, st), node.conversion, None)

    def e_UnaryOp(self, node, st):
        v = self.expr(node.operand, st)
        return N.mk_un(_UOPS[type(node.op)], v)

    def e_BinOp(self, node, st):
        l = self.expr(node.left, st)
        r = self.expr(node.right, st)
        return N.mk_bin(_OPS[type(node.op)], l, r)

    def e_BoolOp(self, node, st):
        op = "and" if isinstance(node.op, ast.And) else "or"
        items = []
        saved = st.under
        for i, v in enumerate(node.values):
            t = self.expr(v, st)
            items.append(t)
            if i == 0:
                st.under = t if op == "and" else N.mk_not(t)
        st.under = saved
        return N.mk_bool(op, items)

    def e_Compare(self, node, st):
        l = self.expr(node.left, st)
        parts = []
        for op, c in zip(node.ops, node.comparators):
            r = self.expr(c, st)
            parts.append(N.mk_cmp(_CMPS[type(op)], l, r))
            l = r
        return parts[0] if len(parts) == 1 else N.mk_bool("and", parts)

    def e_IfExp(self, node, st):
        # evaluate idiom:  X(ctx) if callable(X) else X
        t, b, o = node.test, node.body, node.orelse
        if isinstance(t, ast.Call) and isinstance(t.func, ast.Name) and t.func.id == "callable" and len(t.args) == 1 \
                and isinstance(b, ast.Call) and len(b.args) == 1 and not b.keywords \
                and ast.dump(b.func) == ast.dump(t.args[0]) and ast.dump(o) == ast.dump(t.args[0]):
            p = self.expr(t.args[0], st)
            ctx = self.expr(b.args[0], st)
            return self.mk_eval(st, p, ctx, node)
        c = self.expr(node.test, st)
        saved = st.under
        st.under = c
        x = self.expr(node.body, st)
        st.under = N.mk_not(c)
        y = self.expr(node.orelse, st)
        st.under = saved
        return N.mk_ite(c, x, y)

    def e_Lambda(self, node, st):
        sub = st.fork()
        names = [a.arg for a in node.args.posonlyargs + node.args.args + node.args.kwonlyargs]
        for i, nm in enumerate(names):
            sub.env[nm] = ("bv", i)
        sub.depth += 1
        sub.trys = ()
        n0 = len(sub.events)
        body = self.expr(node.body, sub)
        inner = tuple(e.sig() for e in sub.events[n0:])
        return ("lam", len(names), body, inner)

    def _comp(self, node, st, kind):
        saved_env = dict(st.env)
        gens = []
        lids = []
        saved_loops = st.loops
        for g in node.generators:
            it = self.expr(g.iter, st)
            lid = st.tick("loop")
            lids.append(lid)
            st.loops = st.loops + (lid,)
            self.bind_iter(g.target, it, lid, st, node)
            conds = tuple(self.expr(c, st) for c in g.ifs)
            gens.append((it, conds))
        if kind == "dict":
            elt = ("kv", self.expr(node.key, st), self.expr(node.value, st))
        else:
            elt = self.expr(node.elt, st)
        st.loops = saved_loops
        for k in list(st.env):
            if k not in saved_env:
                del st.env[k]
        st.env.update(saved_env)
        return ("comp", kind, elt, tuple(gens), tuple(lids))

    def e_ListComp(self, node, st):
        return self._comp(node, st, "list")

    def e_GeneratorExp(self, node, st):
        return self._comp(node, st, "gen")

    def e_SetComp(self, node, st):
        return self._comp(node, st, "set")

    def e_DictComp(self, node, st):
        return self._comp(node, st, "dict")

    def e_NamedExpr(self, node, st):
        v = self.expr(node.value, st)
        st.env[node.target.id] = v
        return v

    # ---- typing helpers
    def is_stream(self, t):
        if not isinstance(t, tuple):
            return False
        k = t[0]
        if k == "param":
            return t[1] in STREAM_NAMES or t[1] in getattr(self, "stream_params", ())
        if k == "newstream":
            return True
        if k == "attr":
            return t[2] in STREAM_ATTRS
        if k == "bool":
            return any(self.is_stream(x) for x in t[2])
        if k == "ite":
            return self.is_stream(t[2]) or self.is_stream(t[3])
        if k == "with":
            return True
        if k == "lv":
            return t[1] in STREAM_NAMES
        if k == "call" and t[1] == ("free", "super"):
            return False
        return False

    def is_ctx(self, t):
        if not isinstance(t, tuple):
            return False
        if t[0] == "param":
            return t[1] in CTX_NAMES or t[1] in getattr(self, "ctx_params", ())
        if t[0] == "newctx":
            return True
        if t[0] == "attr":
            return t[2] in ("_context",)
        return False

    def roots_in_self(self, t):
        return root_of(t) == ("param", "self")

    def mk_eval(self, st, p, ctx, node):
        t = ("eval", p, ctx)
        self.emit(st, "EVAL", {"param": p, "ctx": ctx, "res": t}, node)
        return t

    # ---- calls
    def e_Call(self, node, st):
        f = node.func
        if isinstance(f, ast.Name) and f.id == "map" and "map" not in st.env and len(node.args) == 2 and not node.keywords:
            # map(T.__getitem__, xs) and map(lambda x: E, xs) are the generators (T[x] for x in xs) and (E for x in xs)
            g0 = node.args[0]
            gen = None
            if isinstance(g0, ast.Attribute) and g0.attr == "__getitem__":
                v_ = ast.Name(id="__map_item", ctx=ast.Load())
                gen = ast.GeneratorExp(elt=ast.Subscript(value=g0.value, slice=v_, ctx=ast.Load()),
                                       generators=[ast.comprehension(target=ast.Name(id="__map_item", ctx=ast.Store()), iter=node.args[1], ifs=[], is_async=0)])
            elif isinstance(g0, ast.Lambda) and len(g0.args.args) == 1 and not g0.args.defaults and not g0.args.vararg and not g0.args.kwarg and not g0.args.kwonlyargs:
                gen = ast.GeneratorExp(elt=g0.body, generators=[ast.comprehension(target=ast.Name(id=g0.args.args[0].arg, ctx=ast.Store()), iter=node.args[1], ifs=[], is_async=0)])
            if gen is not None:
                ast.copy_location(gen, node)
                ast.fix_missing_locations(gen)
                return self._comp(gen, st, "gen")
        # receiver / function term first, then arguments (python order)
        if isinstance(f, ast.Attribute):
            base = self.expr(f.value, st)
            fterm = ("attr", base, f.attr)
        else:
            base = None
            fterm = self.expr(f, st)
        args = []
        for a in node.args:
            t_ = self.expr(a, st)
            if t_[0] == "star" and t_[1][0] in ("tuple", "list") and not any(x[0] == "star" for x in t_[1][1]):
                args.extend(t_[1][1])        # f(*(a, b)) is f(a, b)
            else:
                args.append(t_)
        kws = []
        for k in node.keywords:
            v_ = self.expr(k.value, st)
            if k.arg is None and v_[0] == "kwdict":
                kws.extend(v_[1])            # f(**kwargs) where kwargs are the extra keywords a helper run in place was called with
            else:
                kws.append((k.arg if k.arg is not None else "**", v_))
        args, kws = tuple(args), tuple(kws)
        kwd = dict(kws)
        if isinstance(f, ast.Name) and f.id == "bytes" and "bytes" not in st.env and len(args) == 1 and not kws and args[0][0] == "call" \
                and args[0][1] == ("free", "bytearray") and len(args[0][2]) == 1 and not args[0][3] and args[0][2][0][0] == "comp":
            # bytes(bytearray(<comprehension>)) is bytes(<comprehension>): the intermediate mutable copy is not observable
            args = args[0][2]

        if base is None:
            name = f.id if isinstance(f, ast.Name) else None
            local = isinstance(f, ast.Name) and f.id in st.env
            if name and not local:
                return self.call_global(name, fterm, args, kws, kwd, node, st)
            if not isinstance(f, ast.Name) and fterm[0] == "attr" and isinstance(fterm[2], str):
                # a method obtained as a value, e.g. getattr(obj, "decode")(...) with a constant name: the same call as obj.decode(...)
                return self.call_method(fterm[1], fterm[2], fterm, args, kws, kwd, node, st)
            return self.call_value(fterm, args, kws, node, st)
        if base == ("param", "self") and st.env.get("self", base) == base and self.self_cls and self.model.resolve(self.self_cls, f.attr) is None:
            c = self.class_constant(f.attr)
            if c is not None and c[0] == "free":
                # self.<class-level constant naming a class or function>(...): the call goes to that class / function
                return self.call_global(c[1], c, args, kws, kwd, node, st)
        return self.call_method(base, f.attr, fterm, args, kws, kwd, node, st)

    def call_value(self, fterm, args, kws, node, st):
        t = ("call", fterm, args, kws)
        if fterm[0] == "closure" and not kws and os.environ.get("SA_NO_PREDICATE_INLINE") != "1":
            # a local one-line predicate (`def isprivate(k): return isinstance(k, str) and k.startswith("_")`) is its expression
            cfi = next((c for c in st.closures.values() if isinstance(c, FuncInfo) and c.qual == fterm[1]), None)
            if cfi is not None:
                body = [b for b in cfi.node.body if not (isinstance(b, ast.Expr) and isinstance(b.value, ast.Constant))]
                a_ = cfi.node.args
                names = [x.arg for x in a_.posonlyargs + a_.args]
                if len(body) == 1 and isinstance(body[0], ast.Return) and body[0].value is not None and _pure_expr(body[0].value) and len(names) == len(args) \
                        and not a_.vararg and not a_.kwarg and not a_.kwonlyargs and not a_.defaults and not cfi.node.decorator_list:
                    sub = st.fork()
                    for nm, v in zip(names, args):
                        sub.env[nm] = v
                    n_ev = len(sub.events)
                    try:
                        r = self.expr(body[0].value, sub)
                    except AnalysisError:
                        r = None
                    if r is not None and len(sub.events) == n_ev:
                        return r
        if fterm[0] == "closure":
            self.emit(st, "CALL", {"func": fterm, "args": args, "kw": kws, "res": t, "callee": "closure"}, node)
        else:
            self.emit(st, "CALL", {"func": fterm, "args": args, "kw": kws, "res": t, "callee": "value"}, node)
        return t

    def call_global(self, name, fterm, args, kws, kwd, node, st):
        M = self.model
        if name == "evaluate" and len(args) == 2 and not kws:
            return self.mk_eval(st, args[0], args[1], node)
        if name in STREAM_HELPERS and name in M.functions:
            kind, roles = STREAM_HELPERS[name]
            a = {}
            for r, v in zip(roles, args):
                a[r] = v
            for k, v in kws:
                a[k] = v
            s = a.get("stream")
            if kind == "TELL":
                a["res"] = ("tell", s, st.tick(("tell", s)))
            elif kind == "READ":
                a["res"] = ("read", s, a.get("length"), st.tick(("read", s)))
            elif kind == "READALL":
                a["res"] = ("readall", s, st.tick(("read", s)))
            elif kind == "SEEK":
                a["res"] = ("seekres", s, a.get("offset"), a.get("whence"))
            else:
                a["res"] = ("call", fterm, args, kws)
            self.emit(st, kind, a, node)
            return a["res"]
        if name == "getattr" and len(args) == 2 and not kws and N.is_const(args[1]) and isinstance(args[1][2], str):
            return ("attr", args[0], args[1][2])
        if name in PURE_BUILTINS:
            if name == "bytes" and len(args) == 1 and N.is_int(args[0]):
                return ("zeros", args[0])
            return ("call", fterm, args, kws)
        if name in ("setattr", "delattr"):
            tgt = args[0] if args else None
            kind = "SELFWRITE" if (tgt is not None and self.roots_in_self(tgt)) else "SETATTR"
            self.emit(st, kind, {"base": tgt, "attr": args[1] if len(args) > 1 else None, "value": args[2] if len(args) > 2 else None, "via": name}, node)
            return N.NONE
        if name == "super":
            return ("call", fterm, args, kws)
        if name in M.classes:
            ci = M.classes[name]
            if M.is_subclass(name, "ConstructError") or name in BUILTIN_EXC:
                return ("exc", name, args, kws)
            if name == "Container":
                if "_" in kwd:
                    t = ("newctx", st.tick("newctx"))
                    self.emit(st, "NEWCTX", {"kw": kws, "args": args, "res": t}, node)
                    return t
                t = ("new", "Container", st.tick("new:Container"), args, kws)
                self.emit(st, "NEW", {"cls": "Container", "args": args, "kw": kws, "res": t}, node)
                return t
            if name == "ListContainer":
                t = ("new", "ListContainer", st.tick("new:ListContainer"), args, kws)
                self.emit(st, "NEW", {"cls": name, "args": args, "kw": kws, "res": t}, node)
                return t
            if name in ("BytesIOWithOffsets", "RestreamedBytesIO", "RebufferedBytesIO"):
                t = ("newstream", name, st.tick("newstream"), args, kws)
                self.emit(st, "NEWSTREAM", {"cls": name, "args": args, "kw": kws, "res": t}, node)
                return t
            if M.is_subclass(name, "Construct"):
                return ("ctor", name, args, kws)
            t = ("new", name, st.tick("new:" + name), args, kws)
            self.emit(st, "NEW", {"cls": name, "args": args, "kw": kws, "res": t}, node)
            return t
        if name in BUILTIN_EXC:
            return ("exc", name, args, kws)
        if name in M.functions:
            fi = M.functions[name]
            if name[:1].isupper():
                return ("ctor", name, args, kws)
            if name.startswith("_") or name not in PACKAGE_FUNCTIONS or any(self.is_stream(a) or self.is_ctx(a) for a in args) or any(self.is_stream(v) or self.is_ctx(v) for _, v in kws):
                # a package-level helper that is handed a stream or a context (a new sibling of stream_read / stream_write, a scope factory):
                # looked into, so that what it does with them is seen at the call site; helpers with several exits stay opaque calls
                r = self.inline(fi, args, kws, node, st)
                if r is not None:
                    return r
            t = ("call", fterm, args, kws)
            self.emit(st, "CALL", {"func": fterm, "args": args, "kw": kws, "res": t, "callee": "package"}, node)
            return t
        sing = M.singletons()
        if name in sing:
            # calling a singleton instance?  not used by the library
            pass
        t = ("call", fterm, args, kws)
        self.emit(st, "CALL", {"func": fterm, "args": args, "kw": kws, "res": t, "callee": "external"}, node)
        return t

    def call_method(self, base, meth, fterm, args, kws, kwd, node, st):
        M = self.model
        if meth == "join" and N.is_const(base) and isinstance(base[2], str) and len(args) == 1 and not kws and args[0][0] == "call" and args[0][1][0] == "attr" \
                and args[0][1][2] == "split" and len(args[0][2]) == 1 and N.is_const(args[0][2][0]) and isinstance(args[0][2][0][2], str) and args[0][2][0][2] and not args[0][3]:
            # J.join(s.split(K)) is s.replace(K, J)
            src = args[0][1][1]
            return self.call_method(src, "replace", ("attr", src, "replace"), (args[0][2][0], base), (), {}, node, st)
        if meth == "update" and len(args) == 1 and not kws and args[0][0] == "dict" and not any(k == ("**",) for k, _ in args[0][1]) and base[0] != "c":
            # d.update({k: v, ...}) with a literal dict is the stores d[k] = v in order
            for k_, v_ in args[0][1]:
                self.emit(st, "STORE", {"base": base, "key": k_, "value": v_}, node)
            return N.NONE
        is_super = base[0] == "call" and base[1] == ("free", "super")
        if is_super:
            t = ("call", fterm, args, kws)
            if self.is_stream_super():
                self.emit(st, "SUPERIO", {"method": meth, "args": args, "res": t}, node)
            else:
                self.emit(st, "SUPERCALL", {"method": meth, "args": args, "kw": kws, "res": t}, node)
            return t
        if meth in SUB_METHODS and not (base == ("param", "self") and meth not in ("_parsereport",) and False):
            roles = SUB_METHODS[meth]
            a = {"m": meth, "target": base}
            for r, v in zip(roles, args):
                a[r] = v
            extra = args[len(roles):]
            if extra:
                a["extra"] = extra
            if kws:
                a["kw"] = kws
            n = st.tick(("sub", meth, base))
            a["res"] = ("subres", meth, base, n)
            self.emit(st, "SUB", a, node)
            # a sub-construct may lead back into this very object (a recursive format): what this call stored in attributes of self before the
            # sub-call may have been overwritten by the inner invocation when it is read afterwards
            if meth in ("_parse", "_parsereport", "_build") and os.environ.get("SA_NO_REENTRY") != "1":
                for key_ in list(st.heap):
                    if key_[0] == ("param", "self") and not (isinstance(st.heap[key_], tuple) and st.heap[key_][:1] == ("reentered",)):
                        st.heap[key_] = ("reentered", key_[1], st.tick("reenter"))
            return a["res"]
        if base in (("module", "io"), ("free", "io")) and meth == "BytesIO":
            t = ("newstream", "BytesIO", st.tick("newstream"), args, kws)
            self.emit(st, "NEWSTREAM", {"cls": "BytesIO", "args": args, "kw": kws, "res": t}, node)
            return t
        if base[0] == "free" and base[1] in M.classes and M.is_subclass(base[1], "Construct") and M.resolve(base[1], meth) is not None and \
                any(isinstance(d, ast.Name) and d.id == "staticmethod" for d in M.resolve(base[1], meth).node.decorator_list):
            # Cls.helper(...) for a static helper of a package class: looked into like self.helper(...)
            r = self.inline(M.resolve(base[1], meth), args, kws, node, st)
            if r is not None:
                return r
        if base == ("free", "BytesIOWithOffsets") and "BytesIOWithOffsets" in M.classes and M.resolve("BytesIOWithOffsets", meth) is not None:
            # the factory helpers of the substream class (from_reading and any sibling): inlined, so that the offset they compute is visible
            r = self.inline(M.resolve("BytesIOWithOffsets", meth), args, kws, node, st)
            if r is not None:
                return r
        if self.is_stream(base):
            if meth in RAW_METHODS:
                t = ("rawio", meth, base, args, st.tick(("raw", base)))
                self.emit(st, "RAWIO", {"stream": base, "method": meth, "args": args, "kw": kws, "res": t}, node)
                return t
            if meth == "getvalue":
                t = ("getvalue", base)
                self.emit(st, "GETVALUE", {"stream": base, "res": t}, node)
                return t
        if self.is_ctx(base):
            if meth == "get":
                return ("ctxget", base, args)
            if meth == "update":
                self.emit(st, "CTXUPDATE", {"ctx": base, "src": args[0] if args else None}, node)
                return N.NONE
        if base == ("param", "self") and self.self_cls and M.resolve(self.self_cls, meth) is not None:
            if not (meth.startswith("_emit") or meth.startswith("_compile") or meth in self.POSITIONAL or meth.startswith("__")):
                tgt = M.resolve(self.self_cls, meth)
                is_static = any(isinstance(d, ast.Name) and d.id == "staticmethod" for d in tgt.node.decorator_list)
                r = self.inline(tgt, args if is_static else (base,) + args, kws, node, st, bound=True)
                if r is not None:
                    return r
            t = ("selfcall", meth, args, kws)
            self.emit(st, "SELFCALL", {"method": meth, "args": args, "kw": kws, "res": t}, node)
            return t
        if meth in MUT_METHODS:
            if meth == "append" and len(args) == 1:
                st.heap[(base, "[-1]")] = args[0]
            else:
                st.heap.pop((base, "[-1]"), None)
            kind = "SELFWRITE" if self.roots_in_self(base) else "MUT"
            t = ("call", fterm, args, kws)
            a = {"base": base, "method": meth, "args": args, "kw": kws, "res": t}
            if kind == "SELFWRITE":
                a["attr"] = "." + meth + "()"
            self.emit(st, kind, a, node)
            return t
        if meth in PURE_METHODS:
            return ("call", fterm, args, kws)
        t = ("call", fterm, args, kws)
        streamargs = [x for x in args if self.is_stream(x)]
        if streamargs and base[0] in ("module", "free"):
            self.emit(st, "STREAMARG", {"func": fterm, "stream": streamargs[0], "args": args, "res": t}, node)
        else:
            callee = "module" if base[0] == "module" else "method"
            self.emit(st, "CALL", {"func": fterm, "args": args, "kw": kws, "res": t, "callee": callee}, node)
        return t

    def is_stream_super(self):
        c = self.fi.cls
        return c is not None and any(b in ("io.BytesIO", "BytesIO") for b in c.bases)

    def inline_env(self, st):
        """Names every inlined callee sees besides its own parameters (none for ordinary functions)."""
        return {}

    def inline(self, fi, args, kws, node, st, bound=False):
        if fi is None or st.depth >= self.inline_depth:
            return None
        a = fi.node.args
        names = [x.arg for x in a.posonlyargs + a.args]
        if any(isinstance(d, ast.Name) and d.id == "staticmethod" for d in fi.node.decorator_list):
            pass
        elif names and names[0] == "self" and not bound:
            return None
        sub = st.fork()
        sub.env = dict(self.inline_env(st))
        dflt = dict(zip(names[len(names) - len(a.defaults):], a.defaults)) if a.defaults else {}
        for nm in names[len(args):]:
            if nm in dflt and nm not in dict(kws):
                if not isinstance(dflt[nm], ast.Constant):
                    return None
                sub.env[nm] = N.const(dflt[nm].value) if dflt[nm].value is not None else N.NONE
        if (len(args) > len(names) and not a.vararg) or a.kwonlyargs:
            return None
        if a.vararg:
            sub.env[a.vararg.arg] = ("tuple", tuple(args[len(names):]))
        extra_kw = tuple((k, v) for k, v in kws if k not in names)
        if extra_kw and not a.kwarg:
            return None
        if a.kwarg:
            sub.env[a.kwarg.arg] = ("kwdict", extra_kw)
        for nm, v in zip(names, args):
            sub.env[nm] = v
        for k, v in kws:
            if k in names:
                sub.env[k] = v
        sub.trys = st.trys
        saved_fi, saved_cls = self.fi, self.self_cls
        self.fi, self.self_cls = fi, (fi.cls.name if fi.cls else None)
        sub.depth += 1
        try:
            res = self.block(fi.node.body, sub)
        finally:
            self.fi, self.self_cls = saved_fi, saved_cls
        raises = [(s, o) for s, o in res if o[0] == "raise"]
        res = [(s, o) for s, o in res if o[0] != "raise"]
        rets = [(s, o) for s, o in res if o[0] in ("return", "normal")]
        if len(res) != 1 or len(rets) != 1:
            return None
        for s, o in raises:
            # exceptional exits of the callee continue in the caller's frame
            s.env = dict(st.env)
            s.depth = st.depth
            self.pending.append((s, o))
        s, o = rets[0]
        st.events[:] = s.events
        st.counters = s.counters
        return o[1] if o[0] == "return" else N.NONE


def root_of(t):
    """Follow attribute/subscript/element/loop-carried wrappers down to the object a reference starts from."""
    while isinstance(t, tuple) and t:
        if t[0] in ("attr", "sub", "elem", "val", "key"):
            t = t[1]
        elif t[0] == "lv" and t[3] is not None:
            t = t[3]
        elif t[0] == "call" and t[1][0] == "attr" and t[1][2] in ("get", "values", "items", "keys"):
            t = t[1][1]
        else:
            break
    return t


def N_dotted(node):
    if isinstance(node, ast.Name):
        return node.id
    if isinstance(node, ast.Attribute):
        return N_dotted(node.value) + "." + node.attr
    return ast.dump(node)


def _load(target):
    t = ast.parse(ast.unparse(target), mode="eval").body
    ast.copy_location(t, target)
    for n in ast.walk(t):
        if not hasattr(n, "lineno"):
            n.lineno = getattr(target, "lineno", 0)
            n.col_offset = 0
    return t


_OPS = {ast.Add: "+", ast.Sub: "-", ast.Mult: "*", ast.Div: "/", ast.FloorDiv: "//", ast.Mod: "%", ast.Pow: "**",
        ast.LShift: "<<", ast.RShift: ">>", ast.BitOr: "|", ast.BitXor: "^", ast.BitAnd: "&", ast.MatMult: "@"}
_UOPS = {ast.USub: "-", ast.UAdd: "+", ast.Not: "not", ast.Invert: "~"}
_CMPS = {ast.Eq: "==", ast.NotEq: "!=", ast.Lt: "<", ast.LtE: "<=", ast.Gt: ">", ast.GtE: ">=", ast.Is: "is",
         ast.IsNot: "is not", ast.In: "in", ast.NotIn: "not in"}
