"""I -- interval analysis of the integer kernels (thorough tier only).

A small abstract interpreter over the AST of a function body in the domain of integer intervals with a
"loop ran at least once" trace partition.  It is used for a handful of obligations only (C03.R7: LEB128 byte ranges and
canonicality of VarInt._build; C15.R5: byte ranges of the rotation formulas).  If a kernel is rewritten into a shape the
domain cannot follow, the obligation is reported as *undecided* (analysis error on that rule), never as a violation.
"""
import ast
import math

from .model import AnalysisError

INF = math.inf


class Undecided(Exception):
    pass


def iv(lo, hi=None):
    return (lo, lo if hi is None else hi)


def join(a, b):
    if a is None:
        return b
    if b is None:
        return a
    return (min(a[0], b[0]), max(a[1], b[1]))


def widen(old, new):
    lo = old[0] if new[0] >= old[0] else -INF
    hi = old[1] if new[1] <= old[1] else INF
    return (lo, hi)


def bits(n):
    return 0 if n <= 0 else int(n).bit_length()


def ev(node, env):
    """Interval of an integer expression."""
    if isinstance(node, ast.Constant) and isinstance(node.value, int) and not isinstance(node.value, bool):
        return iv(node.value)
    if isinstance(node, ast.Name):
        if node.id in env:
            return env[node.id]
        raise Undecided("unknown name %s" % node.id)
    if isinstance(node, ast.Subscript):
        # element of a byte string / table declared in env under its textual form
        key = ast.unparse(node.value) + "[]"
        if key in env:
            return env[key]
        raise Undecided("unknown subscript %s" % ast.unparse(node))
    if isinstance(node, ast.UnaryOp) and isinstance(node.op, ast.USub):
        a = ev(node.operand, env)
        return (-a[1], -a[0])
    if isinstance(node, ast.BinOp):
        a, b = ev(node.left, env), ev(node.right, env)
        op = node.op
        if isinstance(op, ast.Add):
            return (a[0] + b[0], a[1] + b[1])
        if isinstance(op, ast.Sub):
            return (a[0] - b[1], a[1] - b[0])
        if isinstance(op, ast.Mult):
            c = [x * y for x in a for y in b if not (math.isinf(x) and y == 0) and not (math.isinf(y) and x == 0)] or [0]
            return (min(c), max(c))
        if isinstance(op, ast.BitAnd):
            # x & m with a non-negative operand is within [0, that operand's max]
            cands = [r for r in (a, b) if r[0] >= 0 and not math.isinf(r[1])]
            if cands:
                return (0, min(r[1] for r in cands))
            if a[0] >= 0 or b[0] >= 0:
                return (0, INF)
            raise Undecided("& of possibly negative values")
        if isinstance(op, ast.BitOr):
            if a[0] < 0 or b[0] < 0:
                raise Undecided("| of possibly negative values")
            if math.isinf(a[1]) or math.isinf(b[1]):
                return (max(a[0], b[0]), INF)
            k = max(bits(a[1]), bits(b[1]))
            return (max(a[0], b[0]), (1 << k) - 1)
        if isinstance(op, ast.RShift):
            if b[0] < 0 or math.isinf(b[1]):
                raise Undecided("shift amount")
            if a[0] < 0:
                raise Undecided(">> of possibly negative value")
            lo = a[0] >> int(b[1])
            hi = INF if math.isinf(a[1]) else int(a[1]) >> int(b[0])
            return (lo, hi)
        if isinstance(op, ast.LShift):
            if b[0] < 0 or math.isinf(b[1]) or a[0] < 0:
                raise Undecided("<<")
            return (a[0] << int(b[0]), INF if math.isinf(a[1]) else int(a[1]) << int(b[1]))
        if isinstance(op, ast.Mod):
            if b[0] > 0 and not math.isinf(b[1]):
                return (0, b[1] - 1)
            raise Undecided("% by non-positive")
        if isinstance(op, ast.FloorDiv):
            if b[0] > 0 and a[0] >= 0:
                return (a[0] // b[1] if not math.isinf(b[1]) else 0, INF if math.isinf(a[1]) else a[1] // b[0])
            raise Undecided("//")
    raise Undecided("expression %s" % ast.unparse(node)[:60])


def refine(test, env, truth):
    """Refine env by a comparison `name <op> const` being true/false."""
    env = dict(env)
    if isinstance(test, ast.UnaryOp) and isinstance(test.op, ast.Not):
        return refine(test.operand, env, not truth)
    if isinstance(test, ast.Compare) and len(test.ops) == 1 and isinstance(test.left, ast.Name):
        try:
            c = ev(test.comparators[0], env)
        except Undecided:
            return env
        if c[0] != c[1]:
            return env
        c = c[0]
        op = type(test.ops[0])
        neg = {ast.Gt: ast.LtE, ast.GtE: ast.Lt, ast.Lt: ast.GtE, ast.LtE: ast.Gt, ast.Eq: ast.NotEq, ast.NotEq: ast.Eq}
        if not truth:
            op = neg.get(op)
        lo, hi = env.get(test.left.id, (-INF, INF))
        if op is ast.Gt:
            lo = max(lo, c + 1)
        elif op is ast.GtE:
            lo = max(lo, c)
        elif op is ast.Lt:
            hi = min(hi, c - 1)
        elif op is ast.LtE:
            hi = min(hi, c)
        elif op is ast.Eq:
            lo, hi = max(lo, c), min(hi, c)
        if lo > hi:
            return None
        env[test.left.id] = (lo, hi)
    return env


class Kernel:
    """Runs a straight-line / single-while kernel and records the intervals of every appended byte."""

    def __init__(self, sink_method="append"):
        self.appends = []       # (node, interval, inloop, ran)
        self.sink = sink_method

    def run(self, stmts, env, inloop=False, ran=False):
        for st in stmts:
            if env is None:
                return None
            if isinstance(st, ast.Expr) and isinstance(st.value, ast.Constant):
                continue
            if isinstance(st, (ast.Pass, ast.Assert, ast.Global, ast.Nonlocal, ast.Import, ast.ImportFrom)):
                continue
            if isinstance(st, ast.Assign) and len(st.targets) == 1 and isinstance(st.targets[0], ast.Name):
                try:
                    env = dict(env)
                    env[st.targets[0].id] = ev(st.value, env)
                except Undecided:
                    env.pop(st.targets[0].id, None)
                continue
            if isinstance(st, ast.AugAssign) and isinstance(st.target, ast.Name):
                env = dict(env)
                env[st.target.id] = ev(ast.BinOp(left=ast.Name(id=st.target.id, ctx=ast.Load()), op=st.op, right=st.value), env)
                continue
            if isinstance(st, ast.If):
                body_raises = any(isinstance(x, ast.Raise) for x in st.body)
                if body_raises and not st.orelse:
                    env = refine(st.test, env, False) if isinstance(st.test, (ast.Compare, ast.UnaryOp)) else env
                    continue
                t = self.run(st.body, refine(st.test, env, True), inloop, ran)
                f = self.run(st.orelse, refine(st.test, env, False), inloop, ran)
                if t is None:
                    env = f
                elif f is None:
                    env = t
                else:
                    env = {k: join(t.get(k), f.get(k)) for k in set(t) | set(f) if t.get(k) is not None and f.get(k) is not None}
                continue
            if isinstance(st, ast.Expr) and isinstance(st.value, ast.Call) and isinstance(st.value.func, ast.Attribute) and st.value.func.attr == self.sink:
                self.appends.append((st, ev(st.value.args[0], env), inloop, ran))
                continue
            if isinstance(st, ast.While):
                head = dict(env)
                body_env = None
                for _ in range(6):
                    be = refine(st.test, head, True)
                    if be is None:
                        break
                    k = Kernel(self.sink)
                    out = k.run(st.body, be, True, True)
                    body_env = (k, out)
                    new = {n: join(head.get(n), out.get(n)) for n in head if out.get(n) is not None}
                    nxt = {n: widen(head[n], new[n]) if n in new else head[n] for n in head}
                    if nxt == head:
                        break
                    head = nxt
                if body_env is not None:
                    self.appends.extend(body_env[0].appends)
                # exit states, partitioned by "ran at least once"
                e0 = refine(st.test, env, False)
                e1 = refine(st.test, body_env[1], False) if body_env is not None and body_env[1] is not None else None
                rest = stmts[stmts.index(st) + 1:]
                outs = []
                if e0 is not None:
                    outs.append(self.run(rest, e0, inloop, False))
                if e1 is not None:
                    outs.append(self.run(rest, e1, inloop, True))
                return outs[0] if outs else None
            if isinstance(st, (ast.Return, ast.Raise)):
                return env
            if isinstance(st, ast.Expr):
                continue
            raise Undecided("statement %s" % type(st).__name__)
        return env


def leb128_obligations(ctx, rule):
    """C03.R7: byte ranges and canonicality of VarInt._build."""
    M = ctx.model
    fi = M.method("VarInt", "_build")
    try:
        k = Kernel()
        # obj is an int (isinstance guard); everything else is derived
        k.run(fi.node.body, {"obj": (-INF, INF)})
        loop = [(n, r) for n, r, inloop, ran in k.appends if inloop]
        term0 = [(n, r) for n, r, inloop, ran in k.appends if not inloop and not ran]
        term1 = [(n, r) for n, r, inloop, ran in k.appends if not inloop and ran]
        if not loop or not term0 or not term1:
            raise Undecided("kernel shape not recognised (appends: %d in loop, %d/%d after)" % (len(loop), len(term0), len(term1)))
        ctx.ob(rule, fi, all(0 <= r[0] and r[1] <= 255 for n, r, *_ in k.appends), "every byte VarInt._build emits lies in [0, 255] (%s)" % sorted({r for n, r, *_ in k.appends}), key="byte range")
        ctx.ob(rule, fi, all(r[0] >= 128 for n, r in loop), "continuation groups have the high bit set (%s)" % sorted({r for n, r in loop}), key="continuation bit")
        ctx.ob(rule, fi, all(r[1] <= 127 for n, r in term0 + term1), "the terminal group has the high bit clear (%s)" % sorted({r for n, r in term0 + term1}), key="terminal bit")
        ctx.ob(rule, fi, all(r[0] >= 1 for n, r in term1), "minimal encoding: after a continuation group the terminal group is non-zero (%s)" % sorted({r for n, r in term1}), key="minimal encoding")
        ctx.ob(rule, fi, all(r[0] >= 0 for n, r in term0), "negative numbers never reach the encoder (%s)" % sorted({r for n, r in term0}), key="non-negative")
        # relational: mask + 1 == 1 << shift, threshold == mask
        wh = next(n for n in ast.walk(fi.node) if isinstance(n, ast.While))
        masks = [n.right.value for n in ast.walk(wh) if isinstance(n, ast.BinOp) and isinstance(n.op, ast.BitAnd) and isinstance(n.right, ast.Constant)]
        shifts = [n.value.value for n in ast.walk(wh) if isinstance(n, ast.AugAssign) and isinstance(n.op, ast.RShift) and isinstance(n.value, ast.Constant)]
        shifts += [n.value.right.value for n in ast.walk(wh) if isinstance(n, ast.Assign) and isinstance(n.value, ast.BinOp) and isinstance(n.value.op, ast.RShift) and isinstance(n.value.right, ast.Constant)
                   and len(n.targets) == 1 and isinstance(n.targets[0], ast.Name) and isinstance(n.value.left, ast.Name) and n.value.left.id == n.targets[0].id]
        thr = None
        if isinstance(wh.test, ast.Compare) and len(wh.test.ops) == 1:
            l_, r_, op_ = wh.test.left, wh.test.comparators[0], wh.test.ops[0]
            # x > k, x >= k+1, k < x, k+1 <= x: the loop goes on while x exceeds k
            if isinstance(r_, ast.Constant) and isinstance(op_, ast.Gt):
                thr = r_.value
            elif isinstance(r_, ast.Constant) and isinstance(op_, ast.GtE):
                thr = r_.value - 1
            elif isinstance(l_, ast.Constant) and isinstance(op_, ast.Lt):
                thr = l_.value
            elif isinstance(l_, ast.Constant) and isinstance(op_, ast.LtE):
                thr = l_.value - 1
        ok = len(masks) == 1 and len(shifts) == 1 and masks[0] + 1 == 1 << shifts[0] and thr == masks[0]
        ctx.ob(rule, fi, ok, "the payload mask, the shift and the loop threshold describe the same group width (mask %s, shift %s, threshold %s)" % (masks, shifts, thr), key="group width")
        # parse side: same mask/shift
        fp = M.method("VarInt", "_parse")
        pm = [n.right.value for n in ast.walk(fp.node) if isinstance(n, ast.BinOp) and isinstance(n.op, ast.BitAnd) and isinstance(n.right, ast.Constant)]
        ps = [n.right.value for n in ast.walk(fp.node) if isinstance(n, ast.BinOp) and isinstance(n.op, ast.LShift) and isinstance(n.right, ast.Constant)]
        # a running shift (`<< shift` with `shift += k` per group) states the same width as `<< k`
        running = {n.right.id for n in ast.walk(fp.node) if isinstance(n, ast.BinOp) and isinstance(n.op, ast.LShift) and isinstance(n.right, ast.Name)}
        ps += [n.value.value for n in ast.walk(fp.node) if isinstance(n, ast.AugAssign) and isinstance(n.op, ast.Add) and isinstance(n.target, ast.Name) and n.target.id in running
               and isinstance(n.value, ast.Constant)]
        ps += [c.value for n in ast.walk(fp.node) if isinstance(n, ast.Assign) and len(n.targets) == 1 and isinstance(n.targets[0], ast.Name) and n.targets[0].id in running
               and isinstance(n.value, ast.BinOp) and isinstance(n.value.op, ast.Add) for a, c in ((n.value.left, n.value.right), (n.value.right, n.value.left))
               if isinstance(a, ast.Name) and a.id == n.targets[0].id and isinstance(c, ast.Constant)]
        ok = set(pm) == {masks[0], masks[0] + 1} and ps == shifts if masks and shifts else False
        ctx.ob(rule, fp, ok, "VarInt._parse uses the same payload mask / continuation bit / shift as _build (masks %s, shifts %s)" % (sorted(set(pm)), ps), key="parse width")
    except Undecided as e:
        ctx.error("%s undecided: interval engine cannot follow VarInt._build (%s)" % (rule, e))


def _range_iv(node):
    """Interval of the elements of a literal range(...) call."""
    if isinstance(node, ast.Call) and isinstance(node.func, ast.Name) and node.func.id == "range" and all(isinstance(a, ast.Constant) and isinstance(a.value, int) for a in node.args):
        a = [x.value for x in node.args]
        lo, hi, step = (0, a[0], 1) if len(a) == 1 else (a[0], a[1], 1) if len(a) == 2 else a
        if step == 1 and hi > lo:
            return (lo, hi - 1)
    raise Undecided("not a literal range: %s" % ast.unparse(node))


def _enclosing(node, kind):
    p = getattr(node, "_parent", None)
    while p is not None and not isinstance(p, kind):
        p = getattr(p, "_parent", None)
    return p


def _shift_count_iv(fn, name, formula, seen=()):
    """Interval of local `name` where `formula` uses it: name = X % m (m a constant) gives [0, m-1], narrowed to [1, m-1] when the
    assignment sits in the else-chain of a test `X % m == 0`; name = c - other is evaluated from other's interval."""
    if name in seen:
        raise Undecided("cyclic definition of %s" % name)
    defs = [st for st in ast.walk(fn) if isinstance(st, ast.Assign) and len(st.targets) == 1 and isinstance(st.targets[0], ast.Name) and st.targets[0].id == name]
    same = [st for st in defs if _enclosing(st, (ast.If, ast.FunctionDef)) is _enclosing_stmt_block(formula)]
    defs = same or defs
    if len(defs) != 1:
        raise Undecided("%d definitions of shift count %s" % (len(defs), name))
    v = defs[0].value
    if isinstance(v, ast.BinOp) and isinstance(v.op, ast.Mod) and isinstance(v.right, ast.Constant) and isinstance(v.right.value, int) and v.right.value > 1:
        m = v.right.value
        lo = 0
        # walk up the if/elif chain: an earlier branch that tests `<same left> % m == 0` excludes zero here
        node = defs[0]
        par = getattr(node, "_parent", None)
        def is_zero_test(t):
            if isinstance(t, ast.Compare) and len(t.ops) == 1 and isinstance(t.left, ast.Constant):
                t = ast.Compare(left=t.comparators[0], ops=t.ops, comparators=[t.left])
            return isinstance(t, ast.Compare) and len(t.ops) == 1 and isinstance(t.ops[0], ast.Eq) and isinstance(t.comparators[0], ast.Constant) and t.comparators[0].value == 0 \
                and isinstance(t.left, ast.BinOp) and isinstance(t.left.op, ast.Mod) and ast.dump(t.left.left) == ast.dump(v.left) and ast.dump(t.left.right) == ast.dump(v.right)
        def is_nonzero_test(t):
            if isinstance(t, ast.UnaryOp) and isinstance(t.op, ast.Not):
                return is_zero_test(t.operand)
            if isinstance(t, ast.Compare) and len(t.ops) == 1 and isinstance(t.ops[0], ast.NotEq):
                return is_zero_test(ast.Compare(left=t.left, ops=[ast.Eq()], comparators=t.comparators))
            return isinstance(t, ast.BinOp) and isinstance(t.op, ast.Mod) and ast.dump(t.left) == ast.dump(v.left) and ast.dump(t.right) == ast.dump(v.right)
        while par is not None and not isinstance(par, ast.FunctionDef):
            if isinstance(par, ast.If):
                in_else = any(node is x for x in par.orelse)
                in_body = any(node is x for x in par.body)
                if (in_else and is_zero_test(par.test)) or (in_body and is_nonzero_test(par.test)):
                    lo = 1
            node, par = par, getattr(par, "_parent", None)
        return (lo, m - 1)
    if isinstance(v, ast.BinOp) and isinstance(v.op, ast.Sub) and isinstance(v.left, ast.Constant) and isinstance(v.right, ast.Name):
        o = _shift_count_iv(fn, v.right.id, formula, seen + (name,))
        return (v.left.value - o[1], v.left.value - o[0])
    raise Undecided("definition of shift count %s not recognised: %s" % (name, ast.unparse(v)))


def _enclosing_stmt_block(node):
    return _enclosing(node, (ast.If, ast.FunctionDef))


def _defs_ok(fn, name):
    """The shift count is defined by plain single-target assignments (what _shift_count_iv can follow)."""
    defs = [st for st in ast.walk(fn) if isinstance(st, (ast.Assign, ast.AugAssign)) and any(isinstance(t, ast.Name) and t.id == name for t in (st.targets if isinstance(st, ast.Assign) else [st.target]))]
    return bool(defs)


def rotation_obligations(ctx, rule, decided_elsewhere=()):
    """C15.R5: every element produced by the rotation formulas is a byte (intervals; names resolved by def-use, not by spelling).
    `decided_elsewhere`: methods whose kernel was folded and compared with the reference (shift counts r and 8-r with 1 <= r <= 7, masked high
    part) by C15.R6 -- for those a formula that is not spelled inside the method body is not an open question."""
    M = ctx.model
    try:
        ci = M.cls("ProcessRotateLeft")
        tab = ci.assigns.get("precomputed_single_rotations")
        if not isinstance(tab, ast.DictComp) or not isinstance(tab.value, ast.ListComp):
            raise Undecided("rotation table is not a dict-of-list comprehension")
        gen, inner = tab.generators[0], tab.value.generators[0]
        if not (isinstance(gen.target, ast.Name) and isinstance(inner.target, ast.Name)):
            raise Undecided("rotation table comprehension targets")
        env = {gen.target.id: _range_iv(gen.iter), inner.target.id: _range_iv(inner.iter)}
        r = ev(tab.value.elt, env)
        ctx.ob(rule, "ProcessRotateLeft", env[gen.target.id] == (1, 7) and env[inner.target.id] == (0, 255) and 0 <= r[0] and r[1] <= 255,
               "every entry of the single-rotation table is a byte, for amounts 1..7 and inputs 0..255 (%s)" % (r,), key="table bytes", loc="%s:%d" % (ci.relpath, tab.lineno))
        for meth in ("_parse", "_build"):
            fi = M.method("ProcessRotateLeft", meth)
            n = 0
            for node in ast.walk(fi.node):
                if isinstance(node, ast.GeneratorExp) and isinstance(node.elt, ast.BinOp) and isinstance(node.elt.op, ast.BitOr):
                    n += 1
                    env = {}
                    for x in ast.walk(node.elt):
                        if isinstance(x, ast.Subscript):
                            env[ast.unparse(x.value) + "[]"] = (0, 255)       # an element of a byte string
                    counts = [x.right.id for x in ast.walk(node.elt) if isinstance(x, ast.BinOp) and isinstance(x.op, (ast.LShift, ast.RShift)) and isinstance(x.right, ast.Name)]
                    try:
                        for nm in counts:
                            env[nm] = _shift_count_iv(fi.node, nm, node)
                    except Undecided:
                        if meth in decided_elsewhere:
                            continue       # kernel folded and compared with the reference by C15.R6 (shift counts r and 8-r, 1 <= r <= 7)
                        raise
                    r = ev(node.elt, env)
                    ctx.ob(rule, fi, 0 <= r[0] and r[1] <= 255 and all(env[c][0] >= 1 and env[c][1] <= 7 for c in counts),
                           "the bit-pair rotation formula of %s yields bytes, with shift counts in 1..7 (%s; counts %s)" % (meth, r, {c: env[c] for c in counts}), key="%s formula" % meth, node=node)
            if n == 0 and meth not in decided_elsewhere:
                raise Undecided("bit-pair formula not found in %s" % meth)
    except Undecided as e:
        ctx.error("%s undecided: interval engine cannot follow the rotation kernels (%s)" % (rule, e))
