"""Check driver: obligations, floors, positive controls, known findings, evidence."""
import hashlib
import importlib
import json
import os
import sys
import time
import traceback

from .model import Model, AnalysisError, FuncInfo, norm_text

VERIF = os.path.dirname(os.path.dirname(os.path.abspath(__file__)))
EVID = os.path.join(VERIF, "evidence")
KNOWN = os.path.join(VERIF, "known_findings.json")
PROPS = ["C%02d" % i for i in range(1, 21)]


class Obligation:
    __slots__ = ("rule", "where", "loc", "ok", "what", "key", "detail")

    def __init__(self, rule, where, loc, ok, what, key, detail):
        self.rule, self.where, self.loc, self.ok = rule, where, loc, ok
        self.what, self.key, self.detail = what, key, detail

    def ident(self):
        return (self.rule, self.where, self.key)

    def as_json(self):
        d = {"rule": self.rule, "where": self.where, "loc": self.loc, "ok": self.ok, "what": self.what, "key": self.key}
        if self.detail is not None:
            d["detail"] = self.detail
        return d


class Ctx:
    """Everything a rule module needs; collects obligations."""

    def __init__(self, prop, tier, root, model=None):
        self.prop = prop
        self.tier = tier
        self.root = root
        self.model = model or Model(root)
        self.obligations = []
        self.rule_stats = {}       # rule -> dict(floor, found, violations)
        self.errors = []           # analysis errors (exit 2)
        self.controls = {}         # rule -> fired?
        self.functions = set()
        self.paths = 0
        self.call_sites = 0
        self.notes = []
        self.extra = {}

    # -- bookkeeping -------------------------------------------------------
    def _stat(self, rule):
        return self.rule_stats.setdefault(rule, {"floor": 0, "found": 0, "violations": 0})

    def ob(self, rule, where, ok, what, key=None, node=None, loc=None, detail=None):
        """Record one obligation (one rule instance at one site)."""
        if isinstance(where, FuncInfo):
            if loc is None:
                loc = "%s:%d" % (where.relpath, getattr(node, "lineno", where.node.lineno))
            self.functions.add(where.qual)
            where = where.qual
        if key is None:
            key = norm_text(node) if node is not None else what
        if len(key) > 300:
            key = key[:120] + "..." + hashlib.sha1(key.encode()).hexdigest()[:12]
        o = Obligation(rule, where, loc or "", bool(ok), what, key, detail)
        self.obligations.append(o)
        st = self._stat(rule)
        st["found"] += 1
        if not ok:
            st["violations"] += 1
        return bool(ok)

    def floor(self, rule, floor):
        """Declare the number of instances confirmed by reading; fewer found => exit 2."""
        self._stat(rule)["floor"] = floor

    def control(self, rule, fired, what=""):
        """Positive control: a built-in violating snippet that the rule must report."""
        self.controls[rule] = bool(fired)
        if not fired:
            self.errors.append("positive control of %s did not fire %s" % (rule, what))

    def error(self, msg):
        self.errors.append(msg)

    def saw(self, fi, paths=0, calls=0):
        self.functions.add(fi.qual if isinstance(fi, FuncInfo) else str(fi))
        self.paths += paths
        self.call_sites += calls


_ANCHOR_CACHE = {}


def vanished_anchors(model):
    """Attribute names the rule modules refer to (N.selfattr("x") / selfattr("x")) must still be assigned somewhere in the analysed package;
    a renamed attribute makes the run analysis-broken (exit 2) instead of letting shape rules report violations against a name that no longer exists."""
    import ast
    import glob
    import re
    names = _ANCHOR_CACHE.get("names")
    if names is None:
        names = set()
        for f in glob.glob(os.path.join(VERIF, "sa", "rules", "*.py")):
            names.update(re.findall(r'selfattr\("([A-Za-z_][A-Za-z_0-9]*)"\)', open(f).read()))
        _ANCHOR_CACHE["names"] = names
    have = set()
    for rel, tree in model.modules.items():
        for n in ast.walk(tree):
            if isinstance(n, ast.Attribute) and isinstance(n.ctx, ast.Store):
                have.add(n.attr)
            elif isinstance(n, ast.ClassDef):
                for st in n.body:
                    if isinstance(st, ast.Assign):
                        for t in st.targets:
                            if isinstance(t, ast.Name):
                                have.add(t.id)
                    elif isinstance(st, ast.FunctionDef):
                        have.add(st.name)
    # name-mangled private attributes are referred to without the class prefix
    have |= {h.lstrip("_") for h in have if h.startswith("__")} | {"__" + h for h in have}
    missing = sorted(n for n in names if n not in have and n.lstrip("_") not in have)
    return ["anchor vanished: attribute self.%s is referred to by the rules but is no longer assigned anywhere in the package" % n for n in missing]


def load_known():
    if not os.path.exists(KNOWN):
        return []
    with open(KNOWN) as fh:
        return json.load(fh)["findings"]


def evidence_dir(root):
    """Evidence of the registered commands (root /repo) lives in /verif/evidence; runs against scratch copies must not overwrite it."""
    if os.path.realpath(root) == os.path.realpath("/repo"):
        return EVID
    if os.environ.get("SA_EVIDENCE_DIR"):
        return os.environ["SA_EVIDENCE_DIR"]
    import tempfile
    return os.path.join(tempfile.gettempdir(), "verif-evidence-" + hashlib.sha1(os.path.realpath(root).encode()).hexdigest()[:10])


def run_property(prop, tier="quick", root="/repo", replay=None, quiet=False):
    t0 = time.time()
    out = []

    def say(s):
        out.append(s)
        if not quiet:
            print(s, flush=True)

    status = 0
    ctx = None
    meta = {}
    try:
        mod = importlib.import_module("sa.rules." + prop)
        meta = getattr(mod, "META", {})
        ctx = Ctx(prop, tier, root)
        gone = vanished_anchors(ctx.model)
        ctx.errors.extend(gone)
        if not gone:        # with an anchor gone the shape rules would only report noise: the run is analysis-broken, nothing else
            mod.run(ctx)
        for rule, st in sorted(ctx.rule_stats.items()):
            if st["found"] < st["floor"]:
                ctx.errors.append("rule %s matched %d instances, floor is %d (a rule that matches too few sites passes vacuously)" % (rule, st["found"], st["floor"]))
    except AnalysisError as e:
        if ctx is None:
            ctx = _EmptyCtx(prop, tier, root)
        ctx.errors.append(str(e))
    except Exception:
        if ctx is None:
            ctx = _EmptyCtx(prop, tier, root)
        ctx.errors.append("internal error: " + traceback.format_exc())

    known = [k for k in load_known() if k["property"] == prop]
    known_idx = {(k["rule"], k["where"], k["key"]): k for k in known if k.get("status") == "known"}

    # ---- V: test the checker both ways (thorough tier, top-level runs only)
    if tier == "thorough" and not os.environ.get("SA_NESTED") and ctx.model is not None and not ctx.errors:
        from . import selftest

        def analyse(pr, root2):
            m2 = importlib.import_module("sa.rules." + pr)
            c2 = Ctx(pr, "quick", root2)
            try:
                c2.errors.extend(vanished_anchors(c2.model))
                if not c2.errors:
                    m2.run(c2)
                for rule, st in sorted(c2.rule_stats.items()):
                    if st["found"] < st["floor"]:
                        c2.errors.append("rule %s matched %d instances, floor is %d" % (rule, st["found"], st["floor"]))
            except AnalysisError as e:
                c2.errors.append(str(e))
            except Exception:
                c2.errors.append("internal error: " + traceback.format_exc()[-400:])
            v = ["%s %s: %s" % (o.rule, o.where, o.what) for o in c2.obligations if not o.ok and o.ident() not in known_idx]
            return v, list(c2.errors)
        try:
            report, problems = selftest.run(prop, root, analyse)
            ctx.extra["selftest"] = {"seeded_fired": sum(1 for r in report["seeded"] if r.get("fired")), "seeded_total": len(report["seeded"]),
                                     "neutral_silent": sum(1 for r in report["neutral"] if r.get("silent")), "neutral_total": len(report["neutral"]), "detail": report}
            for pb in problems:
                ctx.errors.append("selftest: " + pb)
        except Exception:
            ctx.errors.append("selftest internal error: " + traceback.format_exc()[-600:])
    viol = [o for o in ctx.obligations if not o.ok]
    new, listed = [], []
    seen = set()
    for o in viol:
        if o.ident() in seen:
            continue
        seen.add(o.ident())
        (listed if o.ident() in known_idx else new).append(o)

    for o in listed:
        say("KNOWN-FINDING: property=%s %s %s: %s [%s]" % (prop, o.rule, o.where, o.what, o.loc))
    replay_dir = os.path.join(evidence_dir(root), "replay")
    for o in new:
        os.makedirs(replay_dir, exist_ok=True)
        h = hashlib.sha1(repr(o.ident()).encode()).hexdigest()[:10]
        rp = os.path.join(replay_dir, "%s-%s-%s.json" % (prop, o.rule.replace(".", "_"), h))
        with open(rp, "w") as fh:
            json.dump({"property": prop, "tier": tier, "root": root, "finding": o.as_json()}, fh, indent=1)
        say("  %s %s at %s: %s\n    key: %s" % (o.rule, o.where, o.loc, o.what, o.key))
        say("VIOLATION property=%s replay=%s" % (prop, rp))
        status = 1
    if ctx.errors:
        for e in ctx.errors:
            say("ANALYSIS-ERROR property=%s %s" % (prop, e))
        status = 2 if status == 0 else status

    wall = time.time() - t0
    if ctx is not None:
        write_evidence(prop, tier, ctx, meta, new, listed, wall, status)
    if not quiet:
        n = len(ctx.obligations)
        print("%s %s: %d obligations, %d discharged, %d new violations, %d known findings, %d analysis errors, %.2fs" % (
            prop, tier, n, n - len(viol), len(new), len(listed), len(ctx.errors), wall))

    if replay:
        with open(replay) as fh:
            want = json.load(fh)["finding"]
        ident = (want["rule"], want["where"], want["key"])
        still = any(o.ident() == ident and not o.ok for o in ctx.obligations)
        print("REPLAY %s: %s" % (replay, "still violated" if still else "not reproduced"))
        return 1 if still else 0
    return status


class _EmptyCtx(Ctx):
    def __init__(self, prop, tier, root):
        self.prop, self.tier, self.root = prop, tier, root
        self.model = None
        self.obligations, self.rule_stats, self.errors, self.controls = [], {}, [], {}
        self.functions, self.paths, self.call_sites, self.notes, self.extra = set(), 0, 0, [], {}


def write_evidence(prop, tier, ctx, meta, new, listed, wall, status):
    EVID = evidence_dir(ctx.root)
    os.makedirs(EVID, exist_ok=True)
    obs = ctx.obligations
    ok = [o for o in obs if o.ok]
    # samples: spread over rules
    samples, per = [], {}
    for o in obs:
        per.setdefault(o.rule, []).append(o)
    for rule in sorted(per):
        for o in per[rule][:2]:
            samples.append(o.as_json())
    samples = samples[:40] or [{"note": "no obligations were generated"}]
    cov = {
        "explanation": meta.get("explanation", ""),
        "obligations": len(obs),
        "discharged": len(ok),
        "evaluations": len(obs),
        "distinct_nontrivial": len({o.ident() for o in obs}),
        "rule": "one obligation per (rule, site) enumerated from the current source tree; distinct by (rule, qualified function, normalised node text)",
        "rule_instances": ctx.rule_stats,
        "positive_controls": ctx.controls,
        "functions_analysed": len(ctx.functions),
        "paths_enumerated": ctx.paths,
        "call_sites": ctx.call_sites,
        "samples": samples,
        "trusted_base": meta.get("trusted_base", []),
        "checker_cmd": "./check %s --tier %s" % (prop, tier),
        "exhaustive": not ctx.errors,
        "known_findings": [o.as_json() for o in listed],
        "new_violations": [o.as_json() for o in new],
        "analysis_errors": ctx.errors,
        "tree_digest": ctx.model.digest.hexdigest() if ctx.model else None,
        "root": ctx.root,
        "undecided": meta.get("undecided", ""),
    }
    if meta.get("level") == "translation_validation":
        cov["programs"] = ctx.extra.get("programs", 0)
        cov["disagreements_checked"] = ctx.extra.get("disagreements_checked", 0)
    cov.update({k: v for k, v in ctx.extra.items() if k not in cov})
    ev = {
        "property_id": prop,
        "tier": tier,
        "seed": int(os.environ.get("VERIF_SEED", "0") or 0),
        "level": meta.get("level", "other"),
        "coverage": cov,
        "assumptions": meta.get("assumptions", []),
        "wall_s": round(wall, 3),
        "violations": len(new),
        "exit_status": status,
    }
    with open(os.path.join(EVID, prop + ".json"), "w") as fh:
        json.dump(ev, fh, indent=1, sort_keys=False, default=str)


def main(argv=None):
    import argparse
    ap = argparse.ArgumentParser(prog="check")
    ap.add_argument("prop", help="C01..C20 or 'all'")
    ap.add_argument("--tier", default=os.environ.get("VERIF_TIER", "quick"), choices=["quick", "thorough"])
    ap.add_argument("--root", default="/repo")
    ap.add_argument("--replay", default=None)
    a = ap.parse_args(argv)
    props = PROPS if a.prop == "all" else [a.prop]
    worst = 0
    for p in props:
        if not os.path.exists(os.path.join(VERIF, "sa", "rules", p + ".py")):
            print("ANALYSIS-ERROR property=%s no rule module" % p)
            worst = max(worst, 2)
            continue
        try:
            rc = run_property(p, a.tier, a.root, a.replay)
        except Exception:
            print("ANALYSIS-ERROR property=%s %s" % (p, traceback.format_exc()))
            rc = 2
        if rc == 1 or (rc == 2 and worst != 1):
            worst = rc if worst != 1 else 1
    return worst
