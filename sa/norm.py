"""N -- term constructors with built-in normalisation.

Terms are nested tuples (hashable, structurally comparable).  Normalisation is
value numbering as in a compiler: two terms are equal only if their normal forms
are identical.  Folded idioms: comparison orientation and negation, integer
linear arithmetic (+, -, * by constants, unary -), three sound modular rewrites.
"""

NEG = {"<": ">=", "<=": ">", ">": "<=", ">=": "<", "==": "!=", "!=": "==",
       "is": "is not", "is not": "is", "in": "not in", "not in": "in"}
FLIP = {"<": ">", "<=": ">=", ">": "<", ">=": "<=", "==": "==", "!=": "!=", "is": "is", "is not": "is not"}


def const(v):
    return ("c", type(v).__name__, v)


def is_const(t):
    return isinstance(t, tuple) and len(t) == 3 and t[0] == "c"


def is_int(t):
    return is_const(t) and t[1] == "int"


def cval(t):
    return t[2]


TRUE = const(True)
FALSE = const(False)
NONE = const(None)


def param(name):
    return ("param", name)


def attr(base, name):
    return ("attr", base, name)


def selfattr(name):
    return ("attr", ("param", "self"), name)


def mk_not(t):
    if is_const(t):
        return const(not t[2])
    if t[0] == "not":
        return t[1]
    if t[0] == "cmp":
        return mk_cmp(NEG[t[1]], t[2], t[3])
    if t[0] == "bool":
        # De Morgan keeps guards comparable
        other = "or" if t[1] == "and" else "and"
        return ("bool", other, tuple(mk_not(x) for x in t[2]))
    return ("not", t)


def mk_cmp(op, l, r):
    if op in FLIP:
        # orientation: constant to the right; otherwise ordered textually for == / !=
        if is_const(l) and not is_const(r):
            l, r, op = r, l, FLIP[op]
        elif op in ("==", "!=", "is", "is not") and not is_const(r) and repr(l) > repr(r):
            l, r = r, l
        # x - y < 0  style is left alone
    if is_const(l) and is_const(r) and op in ("==", "!=", "<", "<=", ">", ">="):
        try:
            a, b = l[2], r[2]
            return const({"==": a == b, "!=": a != b, "<": a < b, "<=": a <= b, ">": a > b, ">=": a >= b}[op])
        except Exception:
            pass
    return ("cmp", op, l, r)


# ------------------------------------------------------------- linear arithmetic
def _lin_parts(t):
    """term -> (dict atom->coeff, const) for integer-like terms."""
    if is_int(t) and not isinstance(t[2], bool):
        return {}, t[2]
    if isinstance(t, tuple) and t and t[0] == "lin":
        return dict(t[1]), t[2]
    return {t: 1}, 0


def _mk_lin(d, c):
    d = {k: v for k, v in d.items() if v != 0}
    if not d:
        return const(c)
    if c == 0 and len(d) == 1:
        (k, v), = d.items()
        if v == 1:
            return k
    return ("lin", tuple(sorted(d.items(), key=lambda kv: repr(kv[0]))), c)


def mk_add(a, b, sign=1):
    da, ca = _lin_parts(a)
    db, cb = _lin_parts(b)
    d = dict(da)
    for k, v in db.items():
        d[k] = d.get(k, 0) + sign * v
    return _mk_lin(d, ca + sign * cb)


def mk_neg(a):
    da, ca = _lin_parts(a)
    return _mk_lin({k: -v for k, v in da.items()}, -ca)


def mk_mul(a, b):
    if is_int(a) and is_int(b):
        return const(a[2] * b[2])
    if is_int(b):
        a, b = b, a
    if is_int(a) and not isinstance(a[2], bool):
        db, cb = _lin_parts(b)
        return _mk_lin({k: v * a[2] for k, v in db.items()}, cb * a[2])
    x, y = sorted((a, b), key=repr)
    return ("mul", x, y)


def mk_mod(a, m):
    if is_int(a) and is_int(m) and m[2] != 0:
        return const(a[2] % m[2])
    # (x - (y % m)) % m -> (x - y) % m ; (m*k + x) % m -> x % m
    da, ca = _lin_parts(a)
    d = {}
    for k, v in da.items():
        if isinstance(k, tuple) and k[0] == "mod" and k[2] == m:
            dk, ck = _lin_parts(k[1])
            for kk, vv in dk.items():
                d[kk] = d.get(kk, 0) + v * vv
            ca += v * ck
        elif k == m or (isinstance(k, tuple) and k[0] == "mul" and m in k[1:]):
            continue
        else:
            d[k] = d.get(k, 0) + v
    if is_int(m) and m[2] > 0:
        ca %= m[2]
        d = {k: v for k, v in d.items()}
    return ("mod", _mk_lin(d, ca), m)


SEQ_CALLS = {"list", "bytes", "str", "tuple", "bytearray", "sorted", "reversed"}


def _seqish(t):
    """Term known to denote a sequence (concatenation with + is ordered, not arithmetic)."""
    if not isinstance(t, tuple) or not t:
        return False
    if is_const(t):
        return t[1] in ("str", "bytes", "list", "tuple")
    if t[0] in ("read", "readall", "getvalue", "concat", "fstr", "fmt", "list", "tuple", "comp", "zeros", "star"):
        return True
    if t[0] == "call" and t[1][0] == "free" and t[1][1] in SEQ_CALLS:
        return True
    if t[0] == "param" and t[1].startswith("*"):
        return True
    return False


NUM_CALLS = {"len", "int", "abs", "min", "max", "sum", "ord", "round"}


def _numish(t):
    if not isinstance(t, tuple) or not t:
        return False
    if is_const(t):
        return t[1] in ("int", "float", "bool")
    if t[0] in ("lin", "mul", "mod", "tell", "eval", "idx", "bin", "pos0", "END", "delta", "adelta", "SZ", "loopsum", "seekres", "rangeelem"):
        return True
    if t[0] == "subres":
        return t[1] in ("_sizeof", "_actualsize", "sizeof")
    if t[0] == "call" and t[1][0] == "free" and t[1][1] in NUM_CALLS:
        return True
    if t[0] == "call" and t[1][0] == "attr" and t[1][2] in ("tell", "seek", "sizeof", "count", "index", "find", "calcsize", "bit_length"):
        return True
    if t[0] in ("attr", "param") and any(w in t[-1].lower() for w in ("offset", "length", "size", "count", "amount", "index", "unit", "width", "moved")):
        return True
    if t[0] == "ite":
        return _numish(t[2]) or _numish(t[3])
    if t[0] == "lv":
        return t[3] is not None and _numish(t[3])
    return False


def mk_bin(op, a, b):
    strish = _seqish
    if op == "+" and not (_seqish(a) or _seqish(b)) and not (_numish(a) or _numish(b)):
        # operands of unknown type: keep the order (could be a buffer concatenation)
        if a[0] == "uconcat" or True:
            return ("uconcat", a, b)
    if op == "%" and strish(a):
        return ("fmt", a, b)
    if op in ("+", "-") and not (strish(a) or strish(b)):
        return mk_add(a, b, 1 if op == "+" else -1)
    if op == "+":
        return ("concat", a, b)
    if op == "*" and not (strish(a) or strish(b)):
        return mk_mul(a, b)
    if op == "%":
        return mk_mod(a, b)
    if is_int(a) and is_int(b):
        try:
            v = {"//": lambda x, y: x // y, "<<": lambda x, y: x << y, ">>": lambda x, y: x >> y,
                 "&": lambda x, y: x & y, "|": lambda x, y: x | y, "^": lambda x, y: x ^ y,
                 "**": lambda x, y: x ** y}.get(op)
            if v is not None and not (op == "**" and b[2] > 64):
                return const(v(a[2], b[2]))
        except Exception:
            pass
    if op in ("&", "|", "^"):
        a, b = sorted((a, b), key=repr)
    return ("bin", op, a, b)


def mk_un(op, a):
    if op == "-":
        return mk_neg(a)
    if op == "not":
        return mk_not(a)
    if op == "+":
        return a
    return ("un", op, a)


def mk_bool(op, items):
    flat = []
    for x in items:
        if isinstance(x, tuple) and x[0] == "bool" and x[1] == op:
            flat.extend(x[2])
        else:
            flat.append(x)
    return ("bool", op, tuple(flat))


def mk_ite(c, a, b):
    if is_const(c):
        return a if c[2] else b
    if a == b:
        return a
    if c[0] == "not":
        return ("ite", c[1], b, a)
    if c[0] == "cmp" and c[1] in ("!=", "is not", "not in"):
        return ("ite", mk_cmp(NEG[c[1]], c[2], c[3]), b, a)
    return ("ite", c, a, b)


# ------------------------------------------------------------------ utilities
def walk(t):
    """Yield every sub-term (tuples only)."""
    stack = [t]
    while stack:
        x = stack.pop()
        if isinstance(x, tuple):
            if x and isinstance(x[0], str):
                yield x
            stack.extend(y for y in x if isinstance(y, tuple))


def contains(t, sub):
    return any(x == sub for x in walk(t))


def atoms(t, kind):
    return [x for x in walk(t) if x and x[0] == kind]


def subst(t, mapping):
    """Structural substitution (bottom-up, no re-normalisation of arithmetic)."""
    if t in mapping:
        return mapping[t]
    if isinstance(t, tuple):
        return tuple(subst(x, mapping) if isinstance(x, tuple) else x for x in t)
    return t


def show(t, depth=0):
    """Compact human-readable rendering of a term."""
    if not isinstance(t, tuple) or not t:
        return repr(t)
    k = t[0]
    if not isinstance(k, str):
        return "[" + ", ".join(show(x) for x in t) + "]"
    if k == "exc":
        return "%s(...)" % t[1]
    if k == "c":
        return repr(t[2])
    if k == "param":
        return t[1]
    if k == "free":
        return t[1]
    if k == "attr":
        return "%s.%s" % (show(t[1]), t[2])
    if k == "eval":
        return "EVAL(%s)" % show(t[1])
    if k == "lin":
        parts = []
        for a, c in t[1]:
            s = show(a)
            parts.append(("+" if c > 0 else "-") + (s if abs(c) == 1 else "%d*%s" % (abs(c), s)))
        if t[2]:
            parts.append("%+d" % t[2])
        s = "".join(parts)
        return "(" + (s[1:] if s.startswith("+") else s) + ")"
    if k == "cmp":
        return "(%s %s %s)" % (show(t[2]), t[1], show(t[3]))
    if k == "call":
        args = [show(a) for a in t[2]] + ["%s=%s" % (kk, show(v)) for kk, v in t[3]]
        return "%s(%s)" % (show(t[1]), ", ".join(args))
    if k == "ite":
        return "(%s ? %s : %s)" % (show(t[1]), show(t[2]), show(t[3]))
    if k == "not":
        return "!%s" % show(t[1])
    if k == "mod":
        return "(%s %% %s)" % (show(t[1]), show(t[2]))
    if k == "sub":
        return "%s[%s]" % (show(t[1]), show(t[2]))
    return "%s(%s)" % (k, ", ".join(show(x) if isinstance(x, tuple) else repr(x) for x in t[1:]))


LID_KINDS = {"elem": 2, "idx": 1, "key": 2, "val": 2, "lv": 2, "rangeelem": 2}


def canon_lids(t):
    """Rename loop ids by order of first appearance so that terms from different loops/methods compare."""
    order = {}

    def go(x):
        if not isinstance(x, tuple):
            return x
        if x and isinstance(x[0], str):
            k = x[0]
            if k in LID_KINDS and len(x) > LID_KINDS[k] and isinstance(x[LID_KINDS[k]], int):
                i = LID_KINDS[k]
                inner = tuple(go(y) for y in x[:i])
                lid = order.setdefault(x[i], len(order))
                return inner + (lid,) + tuple(go(y) for y in x[i + 1:])
            if k == "comp":
                body = tuple(go(y) for y in x[:4])
                return body + (tuple(order.setdefault(l, len(order)) for l in x[4]),)
        return tuple(go(y) for y in x)
    # generators first so that ids are assigned in binding order
    return go(t)


def rebuild(t, mapping):
    """Substitute and re-normalise (arithmetic is re-folded after substitution)."""
    if t in mapping:
        return mapping[t]
    if not isinstance(t, tuple) or not t:
        return t
    k = t[0]
    if k == "lin":
        acc = const(t[2])
        for a, c in t[1]:
            acc = mk_add(acc, mk_mul(const(c), rebuild(a, mapping)))
        return acc
    if k == "mul":
        return mk_mul(rebuild(t[1], mapping), rebuild(t[2], mapping))
    if k == "mod":
        return mk_mod(rebuild(t[1], mapping), rebuild(t[2], mapping))
    if k == "cmp":
        return mk_cmp(t[1], rebuild(t[2], mapping), rebuild(t[3], mapping))
    if k == "not":
        return mk_not(rebuild(t[1], mapping))
    if k == "ite":
        return mk_ite(rebuild(t[1], mapping), rebuild(t[2], mapping), rebuild(t[3], mapping))
    if k == "bin":
        return mk_bin(t[1], rebuild(t[2], mapping), rebuild(t[3], mapping))
    if k == "c":
        return t
    return tuple(rebuild(x, mapping) if isinstance(x, tuple) else x for x in t)
