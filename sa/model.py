"""M -- source model of the analysed tree.

Parses every ``*.py`` under ``<root>/construct`` with :mod:`ast` and builds the
class table (bases, C3 MRO, method resolution), module-level function table,
singleton/alias table and macro table.  Nothing from the analysed tree is
imported or executed.
"""
import ast
import os
import hashlib

PROTOCOL = ("_parse", "_build", "_sizeof", "_actualsize", "_parsereport")
EXTERNAL_BASES = {
    "object", "Exception", "dict", "list", "int", "str", "bytes",
    "io.BytesIO", "BytesIO",
}


class AnalysisError(Exception):
    """The analysis could not be carried out (exit 2, never a violation)."""


class ClassInfo:
    def __init__(self, name, module, node, relpath):
        self.name = name
        self.module = module
        self.node = node
        self.relpath = relpath
        self.bases = []
        for b in node.bases:
            self.bases.append(_dotted(b))
        self.methods = {}
        self.assigns = {}          # class-level name -> value node
        self.aliases = {}          # class-level  a = b  (method aliases)
        self.decorators = [_dotted(d) if not isinstance(d, ast.Call) else _dotted(d.func) for d in node.decorator_list]
        for st in node.body:
            if isinstance(st, ast.FunctionDef):
                self.methods[st.name] = st
            elif isinstance(st, ast.Assign):
                for t in st.targets:
                    if isinstance(t, ast.Name):
                        self.assigns[t.id] = st.value
                        if isinstance(st.value, ast.Name):
                            self.aliases[t.id] = st.value.id
        self.mro = None

    def __repr__(self):
        return "<class %s>" % self.name


def _dotted(node):
    if isinstance(node, ast.Name):
        return node.id
    if isinstance(node, ast.Attribute):
        return _dotted(node.value) + "." + node.attr
    return ast.dump(node)


class FuncInfo:
    """A function or method located in the tree."""

    def __init__(self, node, relpath, cls=None, qual=None, outer=None):
        self.node = node
        self.relpath = relpath
        self.cls = cls            # ClassInfo the def textually sits in (or None)
        self.qual = qual or node.name
        self.outer = outer        # enclosing FuncInfo for closures

    @property
    def name(self):
        return self.node.name

    @property
    def loc(self):
        return "%s:%d" % (self.relpath, self.node.lineno)

    def __repr__(self):
        return "<func %s @%s>" % (self.qual, self.loc)


class Model:
    def __init__(self, root, sources=None):
        self.root = os.path.abspath(root) if root else "<memory>"
        self.pkg = os.path.join(self.root, "construct")
        if sources is None and not os.path.isdir(self.pkg):
            raise AnalysisError("no construct package under %s" % root)
        self.modules = {}       # relpath -> ast.Module
        self.sources = {}       # relpath -> text
        self.classes = {}       # name -> ClassInfo
        self.functions = {}     # module-level function name -> FuncInfo (core + lib)
        self.module_assigns = {}  # relpath -> {name: value node}
        self.module_imports = {}
        self.digest = hashlib.sha256()
        self._load(sources)
        self._link()

    @classmethod
    def from_sources(cls, sources):
        """In-memory model (synthetic modules: recovered templates, positive controls)."""
        return cls(None, sources=sources)

    # ------------------------------------------------------------------ load
    def _load(self, sources=None):
        items = []
        if sources is not None:
            items = [(rel, text.encode("utf-8")) for rel, text in sources.items()]
        else:
            paths = []
            for dp, dn, fn in os.walk(self.pkg):
                dn[:] = sorted(d for d in dn if d != "__pycache__")
                for f in sorted(fn):
                    if f.endswith(".py"):
                        paths.append(os.path.join(dp, f))
            if not paths:
                raise AnalysisError("no python sources under %s" % self.pkg)
            for p in paths:
                with open(p, "rb") as fh:
                    items.append((os.path.relpath(p, self.root), fh.read()))
        for rel, raw in items:
            self.digest.update(rel.encode() + b"\0" + raw)
            text = raw.decode("utf-8")
            try:
                tree = ast.parse(text, filename=rel)
            except SyntaxError as e:
                raise AnalysisError("cannot parse %s: %s" % (rel, e))
            for parent in ast.walk(tree):
                for ch in ast.iter_child_nodes(parent):
                    ch._parent = parent
            self.modules[rel] = tree
            self.sources[rel] = text
            assigns = {}
            for st in tree.body:
                if isinstance(st, ast.ClassDef):
                    if st.name in self.classes:
                        raise AnalysisError("duplicate class %s" % st.name)
                    self.classes[st.name] = ClassInfo(st.name, rel, st, rel)
                elif isinstance(st, ast.FunctionDef):
                    self.functions.setdefault(st.name, FuncInfo(st, rel))
                elif isinstance(st, ast.Assign):
                    for t in st.targets:
                        if isinstance(t, ast.Name):
                            assigns[t.id] = st.value
            self.module_assigns[rel] = assigns
            imps = set()
            for st in ast.walk(tree):
                if isinstance(st, ast.Import):
                    for al in st.names:
                        imps.add((al.asname or al.name).split(".")[0])
            self.module_imports[rel] = imps

    # ------------------------------------------------------------------ link
    def _link(self):
        for ci in self.classes.values():
            for b in ci.bases:
                if b not in self.classes and b not in EXTERNAL_BASES:
                    raise AnalysisError("unresolvable base %s of class %s" % (b, ci.name))
        for ci in self.classes.values():
            self._mro(ci)

    def _mro(self, ci):
        if ci.mro is not None:
            return ci.mro
        seqs = []
        for b in ci.bases:
            if b in self.classes:
                seqs.append(list(self._mro(self.classes[b])))
        seqs.append([self.classes[b] for b in ci.bases if b in self.classes])
        res = [ci]
        seqs = [s for s in seqs if s]
        while seqs:
            for s in seqs:
                cand = s[0]
                if not any(cand in t[1:] for t in seqs):
                    break
            else:
                raise AnalysisError("inconsistent MRO for %s" % ci.name)
            res.append(cand)
            seqs = [[x for x in s if x is not cand] for s in seqs]
            seqs = [s for s in seqs if s]
        ci.mro = res
        return res

    # ------------------------------------------------------------------ query
    CORE = os.path.join("construct", "core.py")
    EXPR = os.path.join("construct", "expr.py")

    def cls(self, name):
        try:
            return self.classes[name]
        except KeyError:
            raise AnalysisError("anchor vanished: class %s not found" % name)

    def is_subclass(self, name, base):
        ci = self.classes.get(name)
        if ci is None:
            return False
        return any(c.name == base for c in ci.mro)

    def subclasses(self, base):
        return [c for c in self.classes.values() if any(b.name == base for b in c.mro)]

    def construct_classes(self):
        return sorted(self.subclasses("Construct"), key=lambda c: (c.relpath, c.node.lineno))

    def error_classes(self):
        return self.subclasses("ConstructError")

    def resolve(self, clsname, method):
        """Return FuncInfo of the definition `clsname`.`method` resolves to, or None."""
        ci = self.cls(clsname) if isinstance(clsname, str) else clsname
        for c in ci.mro:
            if method in c.methods:
                return FuncInfo(c.methods[method], c.relpath, cls=c, qual="%s.%s" % (c.name, method))
            if method in c.aliases and c.aliases[method] in c.methods:
                tgt = c.aliases[method]
                return FuncInfo(c.methods[tgt], c.relpath, cls=c, qual="%s.%s" % (c.name, tgt))
        return None

    def method(self, clsname, method):
        """Definition textually inside the class (anchor: must exist)."""
        ci = self.cls(clsname)
        if method not in ci.methods:
            raise AnalysisError("anchor vanished: %s.%s not found" % (clsname, method))
        return FuncInfo(ci.methods[method], ci.relpath, cls=ci, qual="%s.%s" % (clsname, method))

    def own_methods(self, method, base="Construct"):
        """All classes (subclasses of base) that textually define `method`."""
        out = []
        for ci in self.classes.values():
            if method in ci.methods and (base is None or any(b.name == base for b in ci.mro)):
                out.append(FuncInfo(ci.methods[method], ci.relpath, cls=ci, qual="%s.%s" % (ci.name, method)))
        out.sort(key=lambda f: (f.relpath, f.node.lineno))
        return out

    def function(self, name):
        if name not in self.functions:
            raise AnalysisError("anchor vanished: function %s not found" % name)
        return self.functions[name]

    def closures(self, fi):
        """FunctionDefs nested directly or indirectly inside fi (excluding lambdas)."""
        out = []
        for n in ast.walk(fi.node):
            if isinstance(n, ast.FunctionDef) and n is not fi.node:
                out.append(FuncInfo(n, fi.relpath, cls=fi.cls, qual=fi.qual + "." + n.name, outer=fi))
        return out

    def all_functions(self):
        """Every def in the package: methods, module functions, closures, nested classes' methods."""
        out = []
        for rel, tree in self.modules.items():
            def visit(node, qual, cls):
                for st in ast.iter_child_nodes(node):
                    if isinstance(st, ast.FunctionDef):
                        q = (qual + "." if qual else "") + st.name
                        out.append(FuncInfo(st, rel, cls=cls, qual=q))
                        visit(st, q, cls)
                    elif isinstance(st, ast.ClassDef):
                        q = (qual + "." if qual else "") + st.name
                        ci = self.classes.get(st.name) if node is tree else None
                        visit(st, q, ci)
                    elif isinstance(st, (ast.If, ast.Try, ast.For, ast.While, ast.With)):
                        visit(st, qual, cls)
            visit(tree, "", None)
        return out

    # --------------------------------------------------------- singletons/macros
    def singletons(self):
        """name -> ('class', ClassInfo) | ('ctor', ast.Call) | ('alias', other)  for core.py."""
        out = {}
        tree = self.modules[self.CORE]
        for st in tree.body:
            if isinstance(st, ast.ClassDef) and any(_is_name(d, "singleton") for d in st.decorator_list):
                out[st.name] = ("class", self.classes[st.name])
            elif isinstance(st, ast.FunctionDef) and any(_is_name(d, "singleton") for d in st.decorator_list):
                rets = [n for n in ast.walk(st) if isinstance(n, ast.Return)]
                val = rets[0].value if len(rets) == 1 else None
                if isinstance(val, ast.Name):
                    # return through a local:  x = Ctor(...); return x
                    defs = [a.value for a in ast.walk(st) if isinstance(a, ast.Assign) and len(a.targets) == 1 and isinstance(a.targets[0], ast.Name) and a.targets[0].id == val.id]
                    val = defs[0] if len(defs) == 1 else None
                if isinstance(val, ast.Call):
                    out[st.name] = ("ctor", val)
                else:
                    out[st.name] = ("opaque", st)
            elif isinstance(st, ast.Assign) and len(st.targets) == 1 and isinstance(st.targets[0], ast.Name) \
                    and isinstance(st.value, ast.Name) and st.value.id in out:
                out[st.targets[0].id] = ("alias", st.value.id)
        return out

    def singleton_ctor(self, name, table=None):
        """Follow aliases to the underlying ('class'|'ctor', payload)."""
        table = table or self.singletons()
        seen = set()
        while name in table and table[name][0] == "alias":
            if name in seen:
                raise AnalysisError("alias cycle %s" % name)
            seen.add(name)
            name = table[name][1]
        return table.get(name)

    def macros(self):
        """Module-level functions of core.py whose name starts upper-case (construct factories)."""
        out = {}
        tree = self.modules[self.CORE]
        for st in tree.body:
            if isinstance(st, ast.FunctionDef) and st.name[:1].isupper() and \
                    not any(_is_name(d, "singleton") for d in st.decorator_list):
                out[st.name] = FuncInfo(st, self.CORE)
        return out

    def init_signature(self, clsname):
        fi = self.resolve(clsname, "__init__")
        if fi is None:
            return None
        return fi.node.args

    def segment(self, fi_or_node, relpath=None):
        node = fi_or_node.node if isinstance(fi_or_node, FuncInfo) else fi_or_node
        rel = fi_or_node.relpath if isinstance(fi_or_node, FuncInfo) else relpath
        return ast.get_source_segment(self.sources[rel], node)


def _is_name(node, name):
    return isinstance(node, ast.Name) and node.id == name


def norm_text(node):
    """Normalised statement/expression text used in finding keys (never line numbers)."""
    try:
        return ast.unparse(node)
    except Exception:
        return ast.dump(node)
