"""P -- stream-position algebra over S traces.

Position of one stream identity along a path, as a linear term over
  P0            entry position
  ('delta', k)  unknown non-negative advance of the k-th sub-construct call on that stream
  ('adelta', k) unknown advance of an _actualsize probe
  END, TOP
TELL binds its result term to the current position, so later arithmetic on tell
results (``pad = length - (position2 - position1)``) is resolved symbolically.
"""
from . import norm as N

TOP = ("TOP",)
PARSE_LIKE = ("_parsereport", "_parse", "parse_stream")
BUILD_LIKE = ("_build", "build_stream")


def P0(stream):
    return ("pos0", stream)


def END(stream):
    return ("END", stream)


def is_top(t):
    return N.contains(t, TOP)


class Trace:
    def __init__(self, path, stream, abstract_sz=False):
        self.path = path
        self.stream = stream
        self.bind = {}            # tell/subres terms -> value terms
        self.steps = []           # (event, pos_before, pos_after)
        self.deltas = {}          # delta atom -> SUB event
        self.abstract_sz = abstract_sz
        self.final = None
        self._run()

    def val(self, t):
        """Term with recorded positions substituted for tell results."""
        if t is None:
            return None
        return N.rebuild(t, self.bind)

    def _add(self, pos, amount):
        if is_top(pos) or amount is None:
            return TOP
        return N.mk_add(pos, amount)

    def _run(self):
        s = self.stream
        pos = P0(s)
        nd = 0
        for e in self.path.events:
            before = pos
            k = e.kind
            if k == "TELL" and e["stream"] == s:
                self.bind[e["res"]] = pos
            elif k == "READ" and e["stream"] == s:
                pos = self._add(pos, self.val(e["length"]))
                if e.a.get("res") is not None and not is_top(pos):
                    self.bind[("call", ("free", "len"), (e["res"],), ())] = self.val(e["length"])        # stream_read returns exactly the length asked for
            elif k == "READALL" and e["stream"] == s:
                if e.a.get("res") is not None and not is_top(pos):
                    self.bind[("call", ("free", "len"), (e["res"],), ())] = N.mk_add(END(s), pos, -1)   # everything from here to the end
                pos = END(s)
            elif k == "WRITE" and e["stream"] == s:
                pos = self._add(pos, self.val(e["length"]))
            elif k == "SEEK" and e["stream"] == s:
                off = self.val(e["offset"])
                wh = e["whence"]
                if wh == N.const(0):
                    pos = off
                elif wh == N.const(1):
                    pos = self._add(pos, off)
                elif wh == N.const(2):
                    pos = N.mk_add(END(s), off)
                elif wh is not None and wh[0] == "ite" and {wh[2], wh[3]} == {N.const(0), N.const(2)}:
                    pos = ("target", off, wh[1])
                else:
                    pos = TOP
                self.bind[e["res"]] = pos
            elif k == "SUB" and e.a.get("stream") == s:
                m = e["m"]
                if e.raised:
                    pos = TOP
                elif m in PARSE_LIKE or m in BUILD_LIKE:
                    d = ("SZ", e["target"]) if self.abstract_sz else ("delta", nd, e["target"])
                    self.deltas[d] = e
                    nd += 1
                    pos = self._add(pos, d)
                elif m == "_actualsize":
                    d = ("adelta", nd, e["target"])
                    self.deltas[d] = e
                    nd += 1
                    pos = self._add(pos, d)
                else:
                    pos = TOP
            elif k in ("RAWIO", "STREAMARG") and e["stream"] == s:
                pos = TOP
            elif k == "CALL" and any(a == s for a in e["args"]):
                pos = TOP
            self.steps.append((e, before, pos))
        self.final = pos

    def pos_before(self, ev):
        for e, b, a in self.steps:
            if e is ev:
                return b
        return None

    def pos_after(self, ev):
        for e, b, a in self.steps:
            if e is ev:
                return a
        return None


def net(trace):
    """final - P0  as a term (TOP if unknown)."""
    if is_top(trace.final):
        return TOP
    return N.mk_add(trace.final, P0(trace.stream), -1)


def show(t):
    return N.show(t)
