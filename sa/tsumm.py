"""Summarisation of recovered templates (generated code) in the same event vocabulary as the interpreter methods.

Dictionary: io -> the stream, this -> the context, io.read(n) -> READ, io.write(x) -> WRITE(len(x)), io.tell/seek ->
TELL/SEEK, __subparse__/__subbuild__ placeholders -> SUB on the current io/this, restream/reuse and lambdas are
inlined, holes evaluate to the term of the emitter expression that was rendered into them.
"""
import ast

from . import norm as N
from .model import Model, AnalysisError, FuncInfo
from .summ import Summariser, Event, STREAM_EXC

STUB_HEAD = """
from io import BytesIO
class Container(dict):
    pass
class ListContainer(list):
    pass
class Construct(object):
    pass
def restream(data, func):
    return func(BytesIO(data))
def reuse(obj, func):
    return func(obj)
"""


def stub_source(real_model):
    lines = [STUB_HEAD]
    done = set()
    def emit(ci):
        if ci.name in done:
            return
        for b in ci.bases:
            if b in real_model.classes:
                emit(real_model.classes[b])
        done.add(ci.name)
        lines.append("class %s(%s):\n    pass" % (ci.name, ", ".join(ci.bases) or "object"))
    for ci in real_model.error_classes():
        emit(ci)
    for extra in ("EnumInteger", "EnumIntegerString"):
        if extra in real_model.classes:
            ci = real_model.classes[extra]
            lines.append("class %s(%s):\n    pass" % (ci.name, ", ".join(ci.bases) or "object"))
    return "\n".join(lines) + "\n"


class TemplateSummariser(Summariser):
    def __init__(self, real_model, rendered, emitter_fi, self_cls, eval_attrs=(), inline_depth=4):
        self.real = real_model
        self.r = rendered
        self.emitter = emitter_fi
        self.eval_attrs = set(eval_attrs)
        src = stub_source(real_model) + "\n".join(rendered.text_blocks) + "\n"
        params = "io, this" if "_emitparse" in emitter_fi.qual or emitter_fi.name == "_emitparse" else "obj, io, this"
        src += "def __template__(%s):\n    return %s\n" % (params, rendered.text_ret or "None")
        self.source = src
        try:
            model = Model.from_sources({"construct/core.py": src})
        except AnalysisError as e:
            raise AnalysisError("template of %s does not parse: %s" % (emitter_fi.qual, e))
        super().__init__(model, inline_depth=inline_depth)
        self.emitter_cls = self_cls
        self.lams = {}
        self.template = True

    # -- entry
    def summarise_template(self, fname="__template__"):
        fi = self.model.function(fname)
        return fi, self.summarise(fi, bindings={"self": ("param", "self"), "code": ("free", "code")}, self_cls=None)

    def functions(self):
        return [n for n in self.model.functions if n not in ("restream", "reuse")]

    # -- names: holes, module-level generated definitions
    def e_Name(self, node, st):
        if node.id in self.r.holes and node.id not in st.env:
            return self.hole_term(self.r.holes[node.id], st)
        if node.id in self.r.subs:
            return self.target_term(self.r.subs[node.id], st)
        if node.id not in st.env:
            d = self.model.module_assigns.get("construct/core.py", {}).get(node.id)
            if d is not None and not isinstance(d, ast.Lambda) and node.id not in getattr(self, "_resolving", ()):
                self._resolving = getattr(self, "_resolving", set()) | {node.id}
                try:
                    tmp = st.fork()
                    tmp.trys = ()
                    return ("def", node.id, self.expr(d, tmp))
                finally:
                    self._resolving = self._resolving - {node.id}
        return super().e_Name(node, st)

    def summarise_call(self, fname, args):
        """Paths of generated helper `fname` with its parameters bound to the call-site argument terms."""
        fi = self.model.function(fname)
        names = [a.arg for a in fi.node.args.posonlyargs + fi.node.args.args]
        # wrap: def __call__(io, this[, obj]): return fname(<args>)  is what __template__ is; here bind directly
        self._argmap = dict(zip(names, args))
        try:
            return self.summarise(fi, bindings={"self": ("param", "self"), "code": ("free", "code")})
        finally:
            self._argmap = None

    def summarise(self, fi, bindings=None, self_cls=None):
        paths = super().summarise(fi, bindings=bindings, self_cls=self_cls)
        return paths

    def block(self, stmts, st):
        am = getattr(self, "_argmap", None)
        if am:
            self._argmap = None
            for k, v in am.items():
                st.env[k] = v
        return super().block(stmts, st)

    def _emitter_expr(self, node, st):
        """Evaluate an expression of the *emitter* (hole content) in the current bindings."""
        saved = self.self_cls
        self.self_cls = self.emitter_cls
        tmp = st.fork()
        tmp.trys = ()
        try:
            t = self.expr(node, tmp)
        finally:
            self.self_cls = saved
        return t

    def hole_term(self, hole, st):
        t = self._emitter_expr(hole.node, st)
        # a rendered constructor parameter denotes its value in the running context
        if t[0] == "attr" and t[1] == ("param", "self") and t[2] in self.eval_attrs:
            ctx = st.env.get("this", ("param", "this"))
            ev = ("eval", t, ctx)
            self.emit(st, "EVAL", {"param": t, "ctx": ctx, "res": ev, "conv": hole.conv}, hole.node)
            return ev
        if t[0] == "subres" and t[1] == "sizeof":
            return ("SZ", t[2])
        return t

    def target_term(self, sub, st):
        return self._emitter_expr(sub.target, st)

    def inline_env(self, st):
        # holes inside generated helpers refer to the emitter's `self`
        return {k: st.env[k] for k in ("self", "code") if k in st.env}

    # -- loops over members
    def s_For(self, node, st):
        it = node.iter
        if isinstance(it, ast.Call) and isinstance(it.func, ast.Name) and it.func.id == "__iter__":
            key = it.args[0].id
            target, iter_ast = self.r.iters[key]
            itt = self._emitter_expr(iter_ast, st)
            lid = st.tick("loop")
            self.emit(st, "LOOP", {"lid": lid, "iter": itt, "kind": "for", "unrolled": True}, node)
            # generated code is the unrolled loop: every member contributes this fragment once, in order
            b = st
            for nm in self._loop_targets(node.body):
                b.env[nm] = ("lv", nm, lid, b.env.get(nm))
            self.bind_iter(target, itt, lid, b, node)
            b.loops = b.loops + (lid,)
            self.emit(b, "ITER", {"lid": lid}, node)
            results = []
            for s, out in self.block(node.body, b):
                s.loops = tuple(x for x in s.loops if x != lid)
                if out[0] in ("normal", "continue"):
                    self.emit(s, "LOOPEND", {"lid": lid, "how": "exhausted"}, node)
                    results.append((s, ("normal",)))
                else:
                    results.append((s, out))
            return results
        return super().s_For(node, st)

    # -- calls
    def e_Lambda(self, node, st):
        k = len(self.lams)
        self.lams[k] = (node, dict(st.env))
        return ("lamc", k)

    def call_value(self, fterm, args, kws, node, st):
        if fterm[0] == "lamc":
            lam, env = self.lams[fterm[1]]
            names = [a.arg for a in lam.args.posonlyargs + lam.args.args]
            saved = st.env
            st.env = dict(env)
            # names rebound after the lambda was created are visible (python closures), parameters shadow them
            for kname, v in saved.items():
                if kname not in names and kname in ("io", "this", "obj"):
                    pass
            for nm, v in zip(names, args):
                st.env[nm] = v
            try:
                return self.expr(lam.body, st)
            finally:
                st.env = saved
        if fterm == ("param", "func") and not args:
            # helper taking the compiled sub-expression as a thunk:  func()
            io = st.env.get("io", ("param", "io"))
            n = st.tick(("sub", "thunk"))
            res = ("subres", "thunk", fterm, n)
            self.emit(st, "SUB", {"m": "_parsereport" if "parse" in self.fi.name else "_build", "target": fterm, "stream": io,
                                  "ctx": st.env.get("this", ("param", "this")), "path": None, "res": res, "thunk": True}, node)
            return res
        return super().call_value(fterm, args, kws, node, st)

    def call_global(self, name, fterm, args, kws, kwd, node, st):
        if name in ("__subparse__", "__subbuild__"):
            kind = "_parsereport" if name == "__subparse__" else "_build"
            a = {"m": kind, "target": args[0]}
            if kind == "_build":
                a["obj"], a["stream"], a["ctx"] = args[1], args[2], args[3]
            else:
                a["stream"], a["ctx"] = args[1], args[2]
            a["path"] = None
            n = st.tick(("sub", kind, args[0]))
            a["res"] = ("subres", kind, args[0], n)
            self.emit(st, "SUB", a, node)
            return a["res"]
        if name == "BytesIO":
            t = ("newstream", "BytesIO", st.tick("newstream"), args, kws)
            self.emit(st, "NEWSTREAM", {"cls": "BytesIO", "args": args, "kw": kws, "res": t}, node)
            return t
        if name == "__each__":
            return args[1]
        if name in self.model.functions and name not in ("restream", "reuse") or name in ("restream", "reuse"):
            fi = self.model.functions[name]
            r = self.inline(fi, args, kws, node, st)
            if r is not None:
                return r
        return super().call_global(name, fterm, args, kws, kwd, node, st)

    def call_method(self, base, meth, fterm, args, kws, kwd, node, st):
        if self.is_stream(base) and meth in ("read", "write", "tell", "seek"):
            s = base
            if meth == "read":
                if args:
                    res = ("read", s, args[0], st.tick(("read", s)))
                    self.emit(st, "READ", {"stream": s, "length": args[0], "path": None, "res": res}, node)
                else:
                    res = ("readall", s, st.tick(("read", s)))
                    self.emit(st, "READALL", {"stream": s, "path": None, "res": res}, node)
                return res
            if meth == "write":
                res = ("call", fterm, args, kws)
                self.emit(st, "WRITE", {"stream": s, "data": args[0], "length": ("call", ("free", "len"), (args[0],), ()), "path": None, "res": res}, node)
                return res
            if meth == "tell":
                res = ("tell", s, st.tick(("tell", s)))
                self.emit(st, "TELL", {"stream": s, "path": None, "res": res}, node)
                return res
            if meth == "seek":
                wh = args[1] if len(args) > 1 else N.const(0)
                res = ("seekres", s, args[0], wh)
                self.emit(st, "SEEK", {"stream": s, "offset": args[0], "whence": wh, "path": None, "res": res}, node)
                return res
        return super().call_method(base, meth, fterm, args, kws, kwd, node, st)

    def is_stream(self, t):
        if isinstance(t, tuple) and t and t[0] == "param" and t[1] == "io":
            return True
        return super().is_stream(t)
