"""Folding of *closed index arithmetic*: integer / list / tuple valued terms of a path summary (range, slices, concatenation, zip, divmod,
comprehensions over such lists) are evaluated for given small values of the integers they mention (a group size, a rotation amount, a data
length).  Only terms are folded -- no statement, loop or function of the analysed repository runs; bytes of the data stay symbolic
(`data[<folded index>]`).  Used where a rule must know *which* positions a kernel combines, whatever idiom computes the positions.
"""
from . import norm as N


class Unfoldable(Exception):
    pass


class Raises(Exception):
    pass


def _int(v, what):
    if isinstance(v, bool) or not isinstance(v, int):
        raise Unfoldable("%s is not an integer" % what)
    return v


def foldv(t, env, binds=None):
    """Python value (int, list, tuple, None) of a closed term.  env: {term: value}; binds: {lid: (index, element value)}."""
    binds = binds or {}
    if t in env:
        return env[t]
    k = t[0]
    if k == "c":
        if t[1] in ("int", "bool", "NoneType", "none") or t[2] is None or isinstance(t[2], int):
            return t[2]
        raise Unfoldable(N.show(t))
    if t == N.NONE:
        return None
    if k == "lin":
        return sum(c * _int(foldv(a, env, binds), N.show(a)) for a, c in t[1]) + t[2]
    if k == "mul":
        return _int(foldv(t[1], env, binds), "factor") * _int(foldv(t[2], env, binds), "factor")
    if k == "mod":
        a, b = _int(foldv(t[1], env, binds), "dividend"), _int(foldv(t[2], env, binds), "modulus")
        if b == 0:
            raise Raises("modulo by zero")
        return a % b
    if k == "bin":
        a, b = foldv(t[2], env, binds), foldv(t[3], env, binds)
        op = t[1]
        if op == "+" and isinstance(a, (list, tuple)) and type(a) is type(b):
            return a + b
        a, b = _int(a, "operand"), _int(b, "operand")
        if op in ("//", "%") and b == 0:
            raise Raises("division by zero")
        if op in ("<<", ">>") and (b < 0 or b > 4096):
            raise Raises("shift count %d" % b)
        try:
            return {"+": lambda: a + b, "-": lambda: a - b, "*": lambda: a * b, "//": lambda: a // b, "%": lambda: a % b, "<<": lambda: a << b,
                    ">>": lambda: a >> b, "&": lambda: a & b, "|": lambda: a | b, "^": lambda: a ^ b}[op]()
        except KeyError:
            raise Unfoldable("operator %s" % op)
    if k == "neg":
        return -_int(foldv(t[1], env, binds), "operand")
    if k == "idx":
        if t[1] in binds:
            return binds[t[1]][0]
        raise Unfoldable("unbound loop index")
    if k in ("elem", "rangeelem"):
        if t[2] in binds:
            return binds[t[2]][1]
        raise Unfoldable("unbound loop element")
    if k == "unpack":
        v = foldv(t[1], env, binds)
        if isinstance(v, (list, tuple)) and -len(v) <= t[2] < len(v):
            return v[t[2]]
        raise Unfoldable("unpack")
    if k in ("tuple", "list"):
        vals = [foldv(x, env, binds) for x in t[1]]
        return tuple(vals) if k == "tuple" else vals
    if k in ("uconcat", "concat"):
        parts = [foldv(x, env, binds) for x in t[1:]]
        if all(isinstance(p, list) for p in parts) or all(isinstance(p, tuple) for p in parts):
            out = parts[0]
            for p in parts[1:]:
                out = out + p
            return out
        raise Unfoldable("concatenation of non-lists")
    if k == "slice":
        return slice(*[foldv(x, env, binds) for x in t[1:4]])
    if k == "sub":
        base, idx = foldv(t[1], env, binds), foldv(t[2], env, binds)
        if isinstance(base, (list, tuple)) and isinstance(idx, (int, slice)) and not isinstance(idx, bool):
            try:
                return base[idx]
            except IndexError:
                raise Raises("index %s out of range for a list of %d" % (idx, len(base)))
        raise Unfoldable("subscript")
    if k == "ite":
        return foldv(t[2] if truth(t[1], env, binds) else t[3], env, binds)
    if k == "call" and t[1][0] == "free" and not t[3]:
        f, args = t[1][1], [foldv(a, env, binds) for a in t[2]]
        if f == "range" and all(isinstance(a, int) and not isinstance(a, bool) for a in args) and 1 <= len(args) <= 3:
            if len(args) == 3 and args[2] == 0:
                raise Raises("range() step 0")
            r = range(*args)
            if len(r) > 4096:
                raise Unfoldable("range too long")
            return list(r)
        if f in ("list", "tuple") and len(args) == 1 and isinstance(args[0], (list, tuple)):
            return list(args[0]) if f == "list" else tuple(args[0])
        if f == "reversed" and len(args) == 1 and isinstance(args[0], (list, tuple)):
            return list(reversed(args[0]))
        if f == "zip" and args and all(isinstance(a, (list, tuple)) for a in args):
            return [tuple(x) for x in zip(*args)]
        if f == "enumerate" and len(args) == 1 and isinstance(args[0], (list, tuple)):
            return [tuple(x) for x in enumerate(args[0])]
        if f == "divmod" and len(args) == 2:
            if _int(args[1], "divisor") == 0:
                raise Raises("divmod by zero")
            return tuple(divmod(_int(args[0], "dividend"), args[1]))
        if f == "len" and len(args) == 1 and isinstance(args[0], (list, tuple)):
            return len(args[0])
        if f in ("min", "max") and args and all(isinstance(a, int) for a in args):
            return min(args) if f == "min" else max(args)
        if f == "abs" and len(args) == 1:
            return abs(_int(args[0], "operand"))
        raise Unfoldable("call %s" % f)
    if k == "comp":
        return [v for v, _ in enumerate_comp(t, env, binds, foldv)]
    raise Unfoldable(N.show(t)[:80])


def truth(c, env, binds=None):
    k = c[0]
    if k == "cmp":
        a, b = foldv(c[2], env, binds), foldv(c[3], env, binds)
        try:
            return {"==": a == b, "!=": a != b, "<": a < b, "<=": a <= b, ">": a > b, ">=": a >= b, "is": a is b, "is not": a is not b}[c[1]]
        except (KeyError, TypeError):
            raise Unfoldable(N.show(c)[:80])
    if k == "not":
        return not truth(c[1], env, binds)
    if k == "bool":
        vals = [truth(x, env, binds) for x in c[2]]
        return all(vals) if c[1] == "and" else any(vals)
    return bool(foldv(c, env, binds))


def enumerate_comp(t, env, binds, element):
    """[(element(elt, env, binds'), binds')] over all bindings of the generators of a comprehension term whose iterables fold."""
    _, _kind, elt, gens, lids = t
    out = []

    def rec(n, b):
        if n == len(gens):
            out.append((element(elt, env, b), dict(b)))
            return
        it, conds = gens[n]
        seq = foldv(it, env, b)
        if not isinstance(seq, (list, tuple)):
            raise Unfoldable("generator over a non-list")
        for i, v in enumerate(seq):
            b2 = dict(b)
            b2[lids[n]] = (i, v)
            if all(truth(c, env, b2) for c in conds):
                rec(n + 1, b2)
    rec(0, dict(binds or {}))
    return out


def pfold(t, env, binds=None):
    """Partial fold: every maximal closed integer sub-term becomes a constant, the rest of the term is kept (symbolic data stays symbolic)."""
    if not isinstance(t, tuple) or not t:
        return t
    try:
        v = foldv(t, env, binds)
        if isinstance(v, int) and not isinstance(v, bool):
            return N.const(v)
    except Unfoldable:
        pass
    if t[0] == "c":
        return t
    return tuple(pfold(x, env, binds) if isinstance(x, tuple) else x for x in t)
