"""Static analysis of construct/construct (no code of /repo is imported or run)."""
