"""Helpers shared by the rule modules."""
import ast

from .. import norm as N
from ..model import AnalysisError, FuncInfo, norm_text
from ..summ import Summariser, SUB_METHODS

PROTO_SUB = ("_parsereport", "_parse", "_build", "_sizeof", "_actualsize")
PUBLIC_SUB = ("parse", "parse_stream", "parse_file", "build", "build_stream", "build_file", "sizeof")
STREAM_EVENTS = ("TELL", "SEEK", "READ", "READALL", "WRITE")
PATH = ("param", "path")
CTX = ("param", "context")
STREAM = ("param", "stream")
OBJ = ("param", "obj")
SELF = ("param", "self")


def summariser(ctx):
    s = getattr(ctx, "_summ", None)
    if s is None:
        depth = 3 if ctx.tier == "thorough" else 2
        s = ctx._summ = Summariser(ctx.model, inline_depth=depth)
    return s


def paths_of(ctx, fi, self_cls=None):
    ps = summariser(ctx).summarise(fi, self_cls=self_cls)
    ctx.saw(fi, paths=len(ps))
    return ps


def method_paths(ctx, cls, meth, required=True):
    """Summarise the definition that cls.meth resolves to, with `self` typed as cls."""
    fi = ctx.model.resolve(cls, meth)
    if fi is None:
        if required:
            raise AnalysisError("anchor vanished: %s.%s does not resolve" % (cls, meth))
        return None, []
    return fi, paths_of(ctx, fi, self_cls=cls)


def own_method_paths(ctx, cls, meth):
    fi = ctx.model.method(cls, meth)
    return fi, paths_of(ctx, fi, self_cls=cls)


def uniq_events(paths, *kinds):
    """Events of the given kinds, one per AST node (paths share nodes), in source order."""
    seen, out = set(), []
    for p in paths:
        for e in p.events:
            # a statement that S wrote out more than once (the body of a loop over a literal tuple) gives one event per copy: the loop ids differ
            k_ = (id(e.node), e.a.get("lid") if e.kind in ("LOOP", "ITER", "LOOPEND") else None)
            if e.kind in kinds and k_ not in seen:
                seen.add(k_)
                out.append(e)
    out.sort(key=lambda e: (getattr(e.node, "lineno", 0), getattr(e.node, "col_offset", 0), e.a.get("lid") or 0 if e.kind in ("LOOP", "ITER", "LOOPEND") else 0))
    return out


def all_events(paths, *kinds):
    for p in paths:
        for e in p.events:
            if e.kind in kinds:
                yield p, e


def has_param(fi, name):
    a = fi.node.args
    return any(x.arg == name for x in a.posonlyargs + a.args + a.kwonlyargs)


def protocol_functions(model, names=("_parse", "_build", "_sizeof", "_actualsize", "_decode", "_encode", "_validate")):
    """(FuncInfo, self_cls) for every textual definition of a protocol method in a Construct subclass,
    plus closures nested in them and protocol-named closures patched by macros."""
    out = []
    for ci in model.construct_classes():
        for n in names:
            if n in ci.methods:
                fi = FuncInfo(ci.methods[n], ci.relpath, cls=ci, qual="%s.%s" % (ci.name, n))
                out.append((fi, ci.name))
                for cl in model.closures(fi):
                    out.append((cl, ci.name))
    for name, mf in model.macros().items():
        for cl in model.closures(mf):
            if cl.name in names:
                out.append((cl, None))
    # local classes defined inside macros (Timestamp adapters)
    for name, mf in model.macros().items():
        for n in ast.walk(mf.node):
            if isinstance(n, ast.ClassDef):
                for st in n.body:
                    if isinstance(st, ast.FunctionDef) and st.name in names:
                        out.append((FuncInfo(st, mf.relpath, cls=None, qual="%s.%s.%s" % (name, n.name, st.name)), None))
    return out


def term_has(t, sub):
    return N.contains(t, sub)


def is_error_class(model, name):
    return name is not None and model.is_subclass(name, "ConstructError")


def src(ctx, fi, node):
    try:
        return ast.get_source_segment(ctx.model.sources[fi.relpath], node) or norm_text(node)
    except Exception:
        return norm_text(node)


def control_model(source, filename="construct/core.py"):
    """Build a throw-away in-memory Model from a snippet (positive controls)."""
    from ..model import Model
    return Model.from_sources({filename: source})


UNUSED_PARAM_FROZEN = {
    ("BinExpr.__call__", "args"): "context expressions are called as f(ctx) or f(obj, ctx); extra positional arguments are accepted and ignored by design",
    ("UniExpr.__call__", "args"): "see BinExpr.__call__", ("Path.__call__", "args"): "see BinExpr.__call__", ("FuncPath.__call__", "args"): "see BinExpr.__call__",
    ("Compiled.compile", "filename"): "a compiled instance is already compiled: compile() returns self",
}


def unused_parameters(ctx, rule, select):
    """Every parameter of the selected functions is used in the body (a parameter that is accepted and then dropped -- a keyword context not
    handed on, a pattern not forwarded, a `signed` flag ignored -- changes the result for exactly the calls that pass it).
    `select(fi)` chooses the functions; stubs (raise / pass / docstring only) are skipped."""
    import ast as _ast
    n = 0
    for fi in ctx.model.all_functions():
        if not select(fi):
            continue
        node = fi.node
        if all(isinstance(s, (_ast.Raise, _ast.Pass)) or (isinstance(s, _ast.Expr) and isinstance(s.value, _ast.Constant)) for s in node.body):
            continue
        a = node.args
        params = [x.arg for x in a.posonlyargs + a.args + a.kwonlyargs] + ([a.vararg.arg] if a.vararg else []) + ([a.kwarg.arg] if a.kwarg else [])
        used = {x.id for x in _ast.walk(node) if isinstance(x, _ast.Name)}
        for p in params:
            if p in ("self", "cls"):
                continue
            n += 1
            fro = UNUSED_PARAM_FROZEN.get((fi.qual, p))
            ctx.ob(rule, fi, p in used or bool(fro), "%s uses its parameter %s" % (fi.qual, p), key="param %s used" % p, detail=fro)
    return n


ATTR_FROZEN = {
    ("Construct", "subcons"): "read only under isinstance(self, Struct) in the + / >> operators",
    ("EnumIntegerString", "intvalue"): "set on the new object by the static factory EnumIntegerString.new",
    ("HexDisplayedInteger", "fmtstr"): "set on the new object by the static factory HexDisplayedInteger.new",
}


def attributes_defined(ctx, rule, select=lambda ci: True):
    """Every attribute a class reads from self is assigned somewhere in the class or its bases (an __init__ that no longer stores a parameter,
    or no longer calls super().__init__, makes the first use raise AttributeError -- not a ConstructError, and not what the format says)."""
    import ast as _ast
    M = ctx.model
    n = 0
    for ci in M.classes.values():
        if ci.relpath.endswith("debug.py") or not select(ci):
            continue
        mro = list(ci.mro) if ci.mro else [ci]
        assigned = set()
        for c in mro:
            assigned |= set(c.assigns) | set(c.methods)
            # an assignment in a method counts only if that method belongs to the class or a base whose __init__ chain is intact:
            # attributes stored by a base __init__ are available only if every __init__ between calls super().__init__
            for st in _ast.walk(c.node):
                if isinstance(st, _ast.Attribute) and isinstance(st.ctx, _ast.Store) and isinstance(st.value, _ast.Name) and st.value.id == "self":
                    assigned.add(st.attr)
        # super().__init__ chain: a class that defines __init__ and has a base (other than object) defining __init__ must call it
        chain_ok = True
        if "__init__" in ci.methods:
            base_has = any("__init__" in c.methods for c in mro[1:])
            calls_super = any(isinstance(x, _ast.Call) and isinstance(x.func, _ast.Attribute) and x.func.attr == "__init__" and isinstance(x.func.value, _ast.Call)
                              and isinstance(x.func.value.func, _ast.Name) and x.func.value.func.id == "super" for x in _ast.walk(ci.methods["__init__"]))
            explicit = any(isinstance(x, _ast.Call) and isinstance(x.func, _ast.Attribute) and x.func.attr == "__init__" and isinstance(x.func.value, _ast.Name)
                           and x.func.value.id in M.classes for x in _ast.walk(ci.methods["__init__"]))
            chain_ok = (not base_has) or calls_super or explicit
            n += 1
            ctx.ob(rule, ci.name, chain_ok, "%s.__init__ calls the __init__ of its base class (which stores the attributes the inherited methods read)" % ci.name, key="%s super init" % ci.name, loc=ci.relpath)
        reads = set()
        for m in ci.methods.values():
            for st in _ast.walk(m):
                if isinstance(st, _ast.Attribute) and isinstance(st.ctx, _ast.Load) and isinstance(st.value, _ast.Name) and st.value.id == "self":
                    reads.add(st.attr)
        for r in sorted(reads):
            if r.startswith("__") and r.endswith("__"):
                continue
            n += 1
            ok = r in assigned or (ci.name, r) in ATTR_FROZEN
            ctx.ob(rule, ci.name, ok, "%s reads self.%s, which is assigned in the class or one of its bases" % (ci.name, r), key="%s.%s defined" % (ci.name, r), loc=ci.relpath, detail=ATTR_FROZEN.get((ci.name, r)))
    return n


UNDEF_FROZEN = {
    ("FocusedSeq._parse", "finalret"): "unbound only when parsebuildfrom names no member (construction misuse)",
    ("FocusedSeq._build", "finalret"): "unbound only when parsebuildfrom names no member (construction misuse)",
    ("Union._emitparse", "skipfallback"): "unbound only for a callable parsefrom, which the emitter does not support", ("Union._emitparse", "skipforward"): "see skipfallback",
    ("Union._emitparse", "index"): "see skipfallback",
    ("RestreamData._parse", "stream2"): "unbound only for a datafunc of an undocumented type (construction misuse)",
    ("Transformed._parse", "data"): "unbound only for a decodeamount that is neither None nor int (construction misuse)",
}


def no_undefined_names(ctx, rule, select=lambda fi: True):
    """No function reads a local name on a path on which it was never bound (NameError / UnboundLocalError is not a ConstructError)."""
    M = ctx.model
    n = 0
    for fi in M.all_functions():
        if fi.relpath.endswith("debug.py") or not select(fi):
            continue
        try:
            ps = paths_of(ctx, fi, fi.cls.name if fi.cls else None)
        except AnalysisError:
            continue
        names = {e["name"] for p in ps for e in p.events if e.kind == "UNDEF"}
        # a loop-carried local that has no value before the loop (`x += ...` in the body without an initialisation)
        for p in ps:
            for e in p.events:
                for v in list(e.a.values()) + [p.retval]:
                    if isinstance(v, tuple):
                        for x in N.walk(v):
                            if x[0] == "lv" and len(x) > 3 and x[3] is None and isinstance(x[1], str) and "." not in x[1]:
                                names.add(x[1])
        names = sorted(names)
        n += 1
        # frozen by function and *number* of such locals (the table names them for the reader; a consistent renaming of a local must not matter)
        allowed = [k for k in UNDEF_FROZEN if k[0] == fi.qual]
        bad = names if len(names) > len(allowed) else []
        ctx.ob(rule, fi, not bad, "%s binds every name before it reads it on every path%s" % (fi.qual, (" (unbound: %s; %d such local(s) are documented)" % (bad, len(allowed))) if bad else ""), key="names bound",
               detail="; ".join(UNDEF_FROZEN[k] for k in allowed) or None)
    return n


def free_names_defined(ctx, rule, select=lambda fi: True):
    """Every name a function reads is bound somewhere it can see: a parameter or local of the function or of an enclosing function, a
    module-level name of the package (the modules star-import each other), or a builtin.  A local whose only assignment was removed turns
    into a global lookup and raises NameError at run time."""
    import ast as _ast
    import builtins as _bi
    M = ctx.model
    top = set(dir(_bi))
    for rel, tree in M.modules.items():
        for st in tree.body:
            if isinstance(st, (_ast.FunctionDef, _ast.ClassDef)):
                top.add(st.name)
            elif isinstance(st, _ast.Assign):
                for t in st.targets:
                    for x in _ast.walk(t):
                        if isinstance(x, _ast.Name):
                            top.add(x.id)
            elif isinstance(st, (_ast.Import, _ast.ImportFrom)):
                for a in st.names:
                    if a.name != "*":
                        top.add((a.asname or a.name).split(".")[0])
            elif isinstance(st, (_ast.If, _ast.Try)):
                for x in _ast.walk(st):
                    if isinstance(x, (_ast.Import, _ast.ImportFrom)):
                        for a in x.names:
                            if a.name != "*":
                                top.add((a.asname or a.name).split(".")[0])
                    elif isinstance(x, _ast.Name) and isinstance(x.ctx, _ast.Store):
                        top.add(x.id)
                    elif isinstance(x, (_ast.FunctionDef, _ast.ClassDef)):
                        top.add(x.name)

    def bound_in(fn):
        out = set()
        a = fn.args
        out.update(x.arg for x in a.posonlyargs + a.args + a.kwonlyargs)
        if a.vararg:
            out.add(a.vararg.arg)
        if a.kwarg:
            out.add(a.kwarg.arg)
        for x in _ast.walk(fn):
            if isinstance(x, _ast.Name) and isinstance(x.ctx, (_ast.Store, _ast.Del)):
                out.add(x.id)
            elif isinstance(x, (_ast.FunctionDef, _ast.ClassDef)) and x is not fn:
                out.add(x.name)
            elif isinstance(x, _ast.ExceptHandler) and x.name:
                out.add(x.name)
            elif isinstance(x, (_ast.Import, _ast.ImportFrom)):
                for al in x.names:
                    out.add((al.asname or al.name).split(".")[0])
            elif isinstance(x, (_ast.Global, _ast.Nonlocal)):
                out.update(x.names)
        return out
    n = 0
    for fi in M.all_functions():
        if fi.relpath.endswith("debug.py") or not select(fi):
            continue
        visible = set(bound_in(fi.node))
        par = getattr(fi.node, "_parent", None)
        while par is not None:
            if isinstance(par, _ast.FunctionDef):
                visible |= bound_in(par)
            par = getattr(par, "_parent", None)
        loads = set()

        def collect(node, extra):
            for ch in _ast.iter_child_nodes(node):
                if isinstance(ch, _ast.FunctionDef):
                    # a nested def is a function of its own (analysed separately); only its decorators/defaults belong here
                    for d in ch.decorator_list + ch.args.defaults + [x for x in ch.args.kw_defaults if x is not None]:
                        collect(d, extra)
                    continue
                if isinstance(ch, _ast.Lambda):
                    a = ch.args
                    names = {x.arg for x in a.posonlyargs + a.args + a.kwonlyargs} | ({a.vararg.arg} if a.vararg else set()) | ({a.kwarg.arg} if a.kwarg else set())
                    collect(ch, extra | names)
                    continue
                if isinstance(ch, _ast.Name) and isinstance(ch.ctx, _ast.Load) and ch.id not in extra:
                    loads.add(ch.id)
                collect(ch, extra)
        collect(fi.node, set())
        missing = sorted(x for x in loads if x not in visible and x not in top)
        n += 1
        ctx.ob(rule, fi, not missing, "%s reads only names that are bound in its scope, an enclosing scope, the package or builtins%s" % (fi.qual, (" (unbound: %s)" % missing) if missing else ""), key="free names")
    return n


def parents(node):
    """Enclosing AST nodes, innermost first (the model links every node to its parent)."""
    p = getattr(node, "_parent", None)
    while p is not None:
        yield p
        p = getattr(p, "_parent", None)


def self_capturing_closures(model):
    """[(FuncInfo, assignment node, name, captures)] for every `name = lambda ...: body` inside a function where `name` is also bound elsewhere
    in that function (a parameter or another assignment).  `captures` is True when the body reads `name`: Python closures bind late, so the
    lambda then sees *itself* (always truthy), not the value `name` had when the lambda was written."""
    import ast as _ast
    out = []
    for fi in model.all_functions():
        fn = fi.node
        a = fn.args
        params = {x.arg for x in a.posonlyargs + a.args + a.kwonlyargs}
        stores = {}
        for x in _ast.walk(fn):
            if isinstance(x, _ast.Name) and isinstance(x.ctx, _ast.Store):
                stores[x.id] = stores.get(x.id, 0) + 1
        for st in _ast.walk(fn):
            if not (isinstance(st, _ast.Assign) and len(st.targets) == 1 and isinstance(st.targets[0], _ast.Name) and isinstance(st.value, _ast.Lambda)):
                continue
            name = st.targets[0].id
            if name not in params and stores.get(name, 0) < 2:
                continue
            la = st.value.args
            own = {x.arg for x in la.posonlyargs + la.args + la.kwonlyargs} | ({la.vararg.arg} if la.vararg else set()) | ({la.kwarg.arg} if la.kwarg else set())
            defaults = {id(n) for d in la.defaults + [k for k in la.kw_defaults if k is not None] for n in _ast.walk(d)}
            reads = any(isinstance(n, _ast.Name) and n.id == name and id(n) not in defaults for n in _ast.walk(st.value.body)) and name not in own
            out.append((fi, st, name, reads))
    return out


def no_self_capture(ctx, rule):
    """Obligation per rebinding lambda of the package; positive control on a snippet."""
    n = 0
    for fi, st, name, reads in self_capturing_closures(ctx.model):
        n += 1
        ctx.ob(rule, fi, not reads, "%s rebinds `%s` to a lambda; the lambda's body must not read `%s` (closures bind late: it would see the lambda itself, which is always truthy, instead of the previous value)" % (fi.qual, name, name),
               key="rebinding lambda %s" % name, node=st)
    cm = control_model("def f(p):\n    if not callable(p):\n        p = lambda a: p\n    return p(1)\n")
    ctx.control(rule + " self-capture", any(r for _, _, _, r in self_capturing_closures(cm)), "(late-binding lambda)")
    return n


def none_or_equal_cases(guards, obj, value):
    """Which of the four cases (obj is None?, obj == value?) satisfy all guards that speak about them: guards of the forms `obj is (not) None`,
    `obj ==/!= value`, `obj (not) in (None, value)` and not/and/or combinations are evaluated, anything else is ignored (treated as true).
    Returns the set of feasible (is_none, equals) pairs."""
    import itertools
    none = N.NONE

    def ev(c, a, b):
        if c[0] == "cmp":
            op, l, r = c[1], c[2], c[3]
            if {l, r} == {obj, none} and op in ("is", "==", "is not", "!="):
                return a if op in ("is", "==") else (not a)
            if {l, r} == {obj, value} and op in ("==", "!="):
                return b if op == "==" else (not b)
            if op in ("in", "not in") and l == obj and r[0] in ("tuple", "list") and set(r[1]) <= {none, value}:
                inside = (a and none in r[1]) or (b and value in r[1])
                return inside if op == "in" else (not inside)
            return None
        if c[0] == "not":
            v = ev(c[1], a, b)
            return None if v is None else (not v)
        if c[0] == "bool":
            vals = [ev(x, a, b) for x in c[2]]
            if c[1] == "and":
                if any(v is False for v in vals):
                    return False
                return None if any(v is None for v in vals) else True
            if any(v is True for v in vals):
                return True
            return None if any(v is None for v in vals) else False
        return None
    out = set()
    for a, b in itertools.product((False, True), repeat=2):
        if all(ev(g, a, b) is not False for g in guards):
            out.add((a, b))
    return out


def loop_variable_captures(model):
    """[(relpath, lambda node, names)] for every lambda / nested def created inside a `for` loop (at module, class or function level) whose
    body reads the loop variable without binding it (a default argument `x=x` binds it): closures bind late, so after the loop every such
    function sees the *last* value.  Lambdas that are called on the spot (the callee of a call) are not reported."""
    import ast as _ast
    out = []
    for rel, tree in model.modules.items():
        for loop in _ast.walk(tree):
            if not isinstance(loop, _ast.For):
                continue
            targets = {n.id for n in _ast.walk(loop.target) if isinstance(n, _ast.Name)}
            called = {id(c.func) for st in loop.body for c in _ast.walk(st) if isinstance(c, _ast.Call)}
            for st in loop.body:
                for fn in _ast.walk(st):
                    if not isinstance(fn, (_ast.Lambda, _ast.FunctionDef)) or id(fn) in called:
                        continue
                    a = fn.args
                    own = {x.arg for x in a.posonlyargs + a.args + a.kwonlyargs} | ({a.vararg.arg} if a.vararg else set()) | ({a.kwarg.arg} if a.kwarg else set())
                    body = [fn.body] if isinstance(fn, _ast.Lambda) else fn.body
                    reads = {n.id for b in body for n in _ast.walk(b) if isinstance(n, _ast.Name) and isinstance(n.ctx, _ast.Load)}
                    # generator expressions / comprehensions inside the lambda that rebind the name are rare enough to ignore
                    hit = sorted((reads & targets) - own)
                    if hit:
                        out.append((rel, fn, hit))
    return out


def no_loop_variable_capture(ctx, rule):
    n = 0
    for rel, fn, names in loop_variable_captures(ctx.model):
        n += 1
        ctx.ob(rule, "%s:%d" % (rel, fn.lineno), False, "a function created inside a loop reads the loop variable %s without binding it (closures bind late: every function made by the loop sees the last value)" % names,
               key="loop variable captured %s" % ",".join(names), loc="%s:%d" % (rel, fn.lineno))
    cm = control_model("class A(object):\n    pass\nfor _name, _op in (('a', 1), ('b', 2)):\n    setattr(A, _name, lambda self, other: (_op, other))\n")
    ctx.control(rule + " loop capture", bool(loop_variable_captures(cm)), "(late-binding lambda in a loop)")
    return n


def flat_guards(p, upto=None):
    """Guards of a path with top-level conjunctions split into their conjuncts."""
    out = set()
    for g in p.guards(upto):
        out |= set(g[2]) if g[0] == "bool" and g[1] == "and" else {g}
    return out


def decided(p, cond):
    """True / False if the path's guards contain cond / its negation (conjunctions flattened), else None."""
    g = flat_guards(p)
    if cond in g:
        return True
    if N.mk_not(cond) in g:
        return False
    return None


def specialise(t, p):
    """The reference term t with every conditional `c ? a : b` resolved by the path's guards (S expands conditional expressions into
    guarded paths, so a reference written with conditionals is compared path by path)."""
    if not isinstance(t, tuple) or not t:
        return t
    if t[0] == "ite":
        d = decided(p, t[1])
        if d is None and t[1][0] == "bool":
            # a compound condition: decided if the path carries it (or its negation) as a whole, or decides all of its parts
            parts = [decided(p, x) for x in t[1][2]]
            if all(x is not None for x in parts):
                d = all(parts) if t[1][1] == "and" else any(parts)
        if d is True:
            return specialise(t[2], p)
        if d is False:
            return specialise(t[3], p)
        return ("ite", t[1], specialise(t[2], p), specialise(t[3], p))
    if t[0] == "c":
        return t
    return tuple(specialise(x, p) if isinstance(x, tuple) else x for x in t)


def shared_run(ctx, mod, prop=None, flags=()):
    """The finished context of another rule module run on the same model (its obligations are re-stated by the borrower under its own rule
    id).  One run per (module, tier, flags) and model: the borrowers of a process share it."""
    from ..core import Ctx
    name = prop or mod.__name__.split(".")[-1]
    cache = ctx.model.__dict__.setdefault("_shared_runs", {})
    key = (mod.__name__, name, ctx.tier, tuple(flags))
    if key in cache and cache[key] is None:
        raise AnalysisError("rule modules borrow from each other in a cycle (%s)" % mod.__name__)
    sub = cache.get(key)
    if sub is None:
        sub = Ctx(name, ctx.tier, ctx.root, model=ctx.model)
        sub._summ = summariser(ctx)
        for f in flags:
            setattr(sub, f, True)
        cache[key] = None          # a borrower that is reached again while its lender runs sees no result (recursion guard)
        mod.run(sub)
        cache[key] = sub
    return sub


import re as _re_fp
_FP_SPEC = _re_fp.compile(r"%(?:%|([sdr]))")


def format_parts(t):
    """One form for a formatted string, whichever way it is spelled: ("parts", (piece, ...)) with literal text as str (adjacent text merged) and
    each formatted value as ("v", term, "r" for repr / "" for str).  Understood: `"lit %s %r" % (a, b)` / `% a` with plain %s %d %r only,
    f-strings without format specs, str.format is not.  Anything else is returned unchanged."""
    pieces = None
    if isinstance(t, tuple) and t and t[0] == "fmt" and N.is_const(t[1]) and isinstance(t[1][2], str):
        text = t[1][2]
        args = list(t[2][1]) if t[2][0] == "tuple" else [t[2]]
        if "%" in _FP_SPEC.sub("", text):
            return t
        pieces, pos, k = [], 0, 0
        for m in _FP_SPEC.finditer(text):
            if m.start() > pos:
                pieces.append(text[pos:m.start()])
            pos = m.end()
            if m.group(0) == "%%":
                pieces.append("%")
                continue
            if k >= len(args):
                return t
            pieces.append(("v", args[k], "r" if m.group(1) == "r" else ""))
            k += 1
        if pos < len(text):
            pieces.append(text[pos:])
        if k != len(args):
            return t
    elif isinstance(t, tuple) and t and t[0] == "fstr":
        pieces = []
        for x in t[1]:
            if N.is_const(x) and isinstance(x[2], str):
                pieces.append(x[2])
            elif x[0] == "fmtval" and x[3] is None and x[2] in (-1, 114, 115):
                pieces.append(("v", x[1], "r" if x[2] == 114 else ""))
            else:
                return t
    if pieces is None:
        return t
    out = []
    for x in pieces:
        if isinstance(x, str) and out and isinstance(out[-1], str):
            out[-1] += x
        elif x != "":
            out.append(x)
    return ("parts", tuple(out))


import re as _re_rel
_RULE_AT_START = _re_rel.compile(r"^((?:shared C\d\d rules: )*)(C\d\d\.R\d+)\b")


def relevant_errors(sub, rules):
    """The analysis errors of a lender that concern a borrower of `rules`: an error that names its rule (`Cxx.Ry undecided: ...`) concerns only
    borrowers of that rule; errors without a rule id (anchor vanished, floors, engine errors, errors the lender itself inherited) concern everybody."""
    out = []
    for e in sub.errors:
        m = _RULE_AT_START.match(e)
        if m and not m.group(1) and m.group(2).startswith(sub.prop + ".") and m.group(2) not in rules:
            continue
        out.append(e)
    return out
