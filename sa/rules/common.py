"""Helpers shared by the rule modules."""
import ast

from .. import norm as N
from ..model import AnalysisError, FuncInfo, norm_text
from ..summ import Summariser, SUB_METHODS

PROTO_SUB = ("_parsereport", "_parse", "_build", "_sizeof", "_actualsize")
PUBLIC_SUB = ("parse", "parse_stream", "parse_file", "build", "build_stream", "build_file", "sizeof")
STREAM_EVENTS = ("TELL", "SEEK", "READ", "READALL", "WRITE")
PATH = ("param", "path")
CTX = ("param", "context")
STREAM = ("param", "stream")
OBJ = ("param", "obj")
SELF = ("param", "self")


def summariser(ctx):
    s = getattr(ctx, "_summ", None)
    if s is None:
        depth = 3 if ctx.tier == "thorough" else 2
        s = ctx._summ = Summariser(ctx.model, inline_depth=depth)
    return s


def paths_of(ctx, fi, self_cls=None):
    ps = summariser(ctx).summarise(fi, self_cls=self_cls)
    ctx.saw(fi, paths=len(ps))
    return ps


def method_paths(ctx, cls, meth, required=True):
    """Summarise the definition that cls.meth resolves to, with `self` typed as cls."""
    fi = ctx.model.resolve(cls, meth)
    if fi is None:
        if required:
            raise AnalysisError("anchor vanished: %s.%s does not resolve" % (cls, meth))
        return None, []
    return fi, paths_of(ctx, fi, self_cls=cls)


def own_method_paths(ctx, cls, meth):
    fi = ctx.model.method(cls, meth)
    return fi, paths_of(ctx, fi, self_cls=cls)


def uniq_events(paths, *kinds):
    """Events of the given kinds, one per AST node (paths share nodes), in source order."""
    seen, out = set(), []
    for p in paths:
        for e in p.events:
            if e.kind in kinds and id(e.node) not in seen:
                seen.add(id(e.node))
                out.append(e)
    out.sort(key=lambda e: (getattr(e.node, "lineno", 0), getattr(e.node, "col_offset", 0)))
    return out


def all_events(paths, *kinds):
    for p in paths:
        for e in p.events:
            if e.kind in kinds:
                yield p, e


def has_param(fi, name):
    a = fi.node.args
    return any(x.arg == name for x in a.posonlyargs + a.args + a.kwonlyargs)


def protocol_functions(model, names=("_parse", "_build", "_sizeof", "_actualsize", "_decode", "_encode", "_validate")):
    """(FuncInfo, self_cls) for every textual definition of a protocol method in a Construct subclass,
    plus closures nested in them and protocol-named closures patched by macros."""
    out = []
    for ci in model.construct_classes():
        for n in names:
            if n in ci.methods:
                fi = FuncInfo(ci.methods[n], ci.relpath, cls=ci, qual="%s.%s" % (ci.name, n))
                out.append((fi, ci.name))
                for cl in model.closures(fi):
                    out.append((cl, ci.name))
    for name, mf in model.macros().items():
        for cl in model.closures(mf):
            if cl.name in names:
                out.append((cl, None))
    # local classes defined inside macros (Timestamp adapters)
    for name, mf in model.macros().items():
        for n in ast.walk(mf.node):
            if isinstance(n, ast.ClassDef):
                for st in n.body:
                    if isinstance(st, ast.FunctionDef) and st.name in names:
                        out.append((FuncInfo(st, mf.relpath, cls=None, qual="%s.%s.%s" % (name, n.name, st.name)), None))
    return out


def term_has(t, sub):
    return N.contains(t, sub)


def is_error_class(model, name):
    return name is not None and model.is_subclass(name, "ConstructError")


def src(ctx, fi, node):
    try:
        return ast.get_source_segment(ctx.model.sources[fi.relpath], node) or norm_text(node)
    except Exception:
        return norm_text(node)


def control_model(source, filename="construct/core.py"):
    """Build a throw-away in-memory Model from a snippet (positive controls)."""
    from ..model import Model
    return Model.from_sources({filename: source})


UNUSED_PARAM_FROZEN = {
    ("BinExpr.__call__", "args"): "context expressions are called as f(ctx) or f(obj, ctx); extra positional arguments are accepted and ignored by design",
    ("UniExpr.__call__", "args"): "see BinExpr.__call__", ("Path.__call__", "args"): "see BinExpr.__call__", ("FuncPath.__call__", "args"): "see BinExpr.__call__",
    ("Compiled.compile", "filename"): "a compiled instance is already compiled: compile() returns self",
}


def unused_parameters(ctx, rule, select):
    """Every parameter of the selected functions is used in the body (a parameter that is accepted and then dropped -- a keyword context not
    handed on, a pattern not forwarded, a `signed` flag ignored -- changes the result for exactly the calls that pass it).
    `select(fi)` chooses the functions; stubs (raise / pass / docstring only) are skipped."""
    import ast as _ast
    n = 0
    for fi in ctx.model.all_functions():
        if not select(fi):
            continue
        node = fi.node
        if all(isinstance(s, (_ast.Raise, _ast.Pass)) or (isinstance(s, _ast.Expr) and isinstance(s.value, _ast.Constant)) for s in node.body):
            continue
        a = node.args
        params = [x.arg for x in a.posonlyargs + a.args + a.kwonlyargs] + ([a.vararg.arg] if a.vararg else []) + ([a.kwarg.arg] if a.kwarg else [])
        used = {x.id for x in _ast.walk(node) if isinstance(x, _ast.Name)}
        for p in params:
            if p in ("self", "cls"):
                continue
            n += 1
            fro = UNUSED_PARAM_FROZEN.get((fi.qual, p))
            ctx.ob(rule, fi, p in used or bool(fro), "%s uses its parameter %s" % (fi.qual, p), key="param %s used" % p, detail=fro)
    return n
