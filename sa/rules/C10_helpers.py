"""Reference-form rules for construct/lib/binary.py: MSB-first two's-complement bit strings, byte groups, byte order.

Every obligation is a necessary condition of the documented semantics, decided on the path summaries of the helper (terms, guards,
loop-carried values); arithmetic bound terms are constant-folded for widths 1..72 by `fold` below (closed integer arithmetic only --
no library code runs).  A helper written in a form none of the rules recognises is reported as undecided (analysis error), never as a violation.
"""
import ast

from .. import norm as N
from .common import *

WIDTHS = range(1, 73)


class Unfoldable(Exception):
    pass


class Raises(Exception):
    """The expression itself raises for these values (negative shift count, division by zero)."""


def fold(t, env):
    """Value of a closed integer term under env {param name: int}; len(x) is taken from env['len(x)']."""
    k = t[0]
    if k == "c":
        if isinstance(t[2], bool) or not isinstance(t[2], int):
            raise Unfoldable(N.show(t))
        return t[2]
    if k == "param":
        if t[1] in env:
            return env[t[1]]
        raise Unfoldable(N.show(t))
    if k == "lin":
        return sum(c * fold(a, env) for a, c in t[1]) + t[2]
    if k == "c" and isinstance(t[2], float):
        return t[2]
    if k == "mul":
        return fold(t[1], env) * fold(t[2], env)
    if k == "mod":
        return fold(t[1], env) % fold(t[2], env)
    if k == "bin":
        a, b = fold(t[2], env), fold(t[3], env)
        op = t[1]
        if op == "**":
            if b < 0 or b > 4096:
                raise Unfoldable("exponent")
            return a ** b
        if op in ("<<", ">>"):
            if b < 0:
                raise Raises("negative shift count")
            if b > 4096:
                raise Unfoldable("shift")
            return a << b if op == "<<" else a >> b
        if op == "//":
            if b == 0:
                raise Raises("division by zero")
            return a // b
        if op == "/":
            if b == 0:
                raise Raises("division by zero")
            try:
                return a / b            # Python semantics: a float, with its 53-bit mantissa
            except OverflowError:
                raise Raises("integer division result too large for a float")
        if op == "&":
            return a & b
        if op == "|":
            return a | b
        if op == "^":
            return a ^ b
        raise Unfoldable(op)
    if k == "call" and t[1] == ("free", "int") and len(t[2]) == 1:
        try:
            return int(fold(t[2][0], env))
        except (OverflowError, ValueError):
            raise Raises("int() of a non-finite float")
    if k == "call" and t[1] == ("free", "abs") and len(t[2]) == 1:
        return abs(fold(t[2][0], env))
    if k == "atom" and t[1] in env:
        return env[t[1]]
    if k == "call" and t[1] == ("free", "len") and len(t[2]) == 1:
        key = "len(%s)" % N.show(t[2][0])
        if key in env:
            return env[key]
    raise Unfoldable(N.show(t)[:60])


def fold_cond(c, env):
    """Truth of a guard over foldable integer terms."""
    k = c[0]
    if k == "cmp":
        a, b = fold(c[2], env), fold(c[3], env)
        return {"==": a == b, "!=": a != b, "<": a < b, "<=": a <= b, ">": a > b, ">=": a >= b}[c[1]]
    if k == "not":
        return not fold_cond(c[1], env)
    if k == "bool":
        vals = [fold_cond(x, env) for x in c[2]]
        return all(vals) if c[1] == "and" else any(vals)
    if k == "call" and c[1] == ("free", "isinstance"):
        return True
    return bool(fold(c, env))


def zigzag(ctx, rule):
    """ZigZag (protobuf): n >= 0 -> 2n, n < 0 -> 2|n| - 1 on build; x even -> x/2, x odd -> -(x+1)/2 on parse, for integers of any magnitude.
    The value handed to / taken from VarInt is folded on sample integers on both sides of 0, 2^31, 2^63, 2^64 and 2^70."""
    M = ctx.model
    obj = ("param", "obj")
    samples = [0, 1, 2, 3, 63, 64, 2**31 - 1, 2**31, 2**63 - 1, 2**63, 2**63 + 1, 2**64, 2**64 + 5, 2**70 + 3]
    ref_enc = lambda n: 2 * n if n >= 0 else 2 * abs(n) - 1
    ref_dec = lambda x: x // 2 if x % 2 == 0 else -(x // 2) - 1
    fi = M.method("ZigZag", "_build")
    paths = paths_of(ctx, fi, "ZigZag")
    hit = set()
    ok, why = True, ""
    try:
        for p in paths:
            subs = [e for e in p.events if e.kind == "SUB" and e["m"] == "_build"]
            if not p.returns or len(subs) != 1:
                continue
            for n in samples + [-x for x in samples if x]:
                env = {"obj": n}
                if all(fold_cond(g, env) for g in p.guards()):
                    hit.add(n)
                    got = fold(subs[0]["obj"], env)
                    if got != ref_enc(n) and ok:
                        ok, why = False, " (n=%d is handed to VarInt as %d, reference %d)" % (n, got, ref_enc(n))
    except Raises as e:
        ctx.ob(rule, fi, False, "ZigZag._build: computing the value handed to VarInt raises for some integer (%s)" % e, key="zigzag encode")
        return
    except Unfoldable as e:
        ctx.error("%s undecided: ZigZag._build cannot be folded (%s)" % (rule, e))
        return
    ctx.ob(rule, fi, ok and len(hit) == 2 * len(samples) - 1, "ZigZag._build hands VarInt 2n for n >= 0 and 2|n|-1 for n < 0, at every magnitude%s" % why, key="zigzag encode")
    fi = M.method("ZigZag", "_parse")
    paths = paths_of(ctx, fi, "ZigZag")
    hit = set()
    ok, why = True, ""
    try:
        for p in paths:
            subs = [e for e in p.events if e.kind == "SUB" and e["m"] in ("_parse", "_parsereport")]
            if not p.returns or len(subs) != 1:
                continue
            x = subs[0]["res"]
            m = {x: ("atom", "x")}
            for v in [ref_enc(n) for n in samples] + [ref_enc(-n) for n in samples if n]:
                env = {"x": v}
                if all(fold_cond(N.subst(g, m), env) for g in p.guards()):
                    hit.add(v)
                    got = fold(N.subst(p.retval, m), env)
                    if got != ref_dec(v) and ok:
                        ok, why = False, " (x=%d is decoded as %d, reference %d)" % (v, got, ref_dec(v))
    except Raises as e:
        ctx.ob(rule, fi, False, "ZigZag._parse: decoding raises for some value (%s)" % e, key="zigzag decode")
        return
    except Unfoldable as e:
        ctx.error("%s undecided: ZigZag._parse cannot be folded (%s)" % (rule, e))
        return
    ctx.ob(rule, fi, ok and len(hit) == 2 * len(samples) - 1, "ZigZag._parse decodes even x as x/2 and odd x as -(x+1)/2, at every magnitude%s" % why, key="zigzag decode")


def varint_parse_form(ctx, rule):
    """LEB128 decoding: bytes are read one at a time; the low 7 bits of each are collected in the order read; reading stops at the first
    byte whose high bit is clear; the groups are folded most-significant-last: num = (num << 7) | group over the groups in reverse, from 0."""
    M = ctx.model
    fi = M.method("VarInt", "_parse")
    paths = [p for p in paths_of(ctx, fi, "VarInt") if p.returns]
    if paths and not any(e.kind == "MUT" for p in paths for e in p.events):
        return _varint_running_shift(ctx, rule, fi, paths)
    ok = bool(paths)
    folded = 0
    for p in paths:
        rd = [e for e in p.events if e.kind == "READ"]
        app = [e for e in p.events if e.kind == "MUT" and e["method"] == "append"]
        ok = ok and bool(rd) and all(e["length"] == N.const(1) for e in rd) and len(app) == len(rd)
        for r_, a_ in zip(rd, app):
            byte = ("call", ("free", "byte2int"), (r_["res"],), ())
            ok = ok and a_["args"] in ((("bin", "&", N.const(127), byte),), (("bin", "&", byte, N.const(127)),))
            stop = [c for c in p.guards() if c[0] == "cmp" and c[1] == "==" and c[3] == N.const(0) and c[2] in (("bin", "&", N.const(128), byte), ("bin", "&", byte, N.const(128)))]
            ok = ok and bool(stop)
        rv = p.retval
        if rv == N.const(0):
            continue
        folded += 1
        ok = ok and rv[0] == "bin" and rv[1] == "|"
        if ok:
            sh = [x for x in rv[2:] if x[0] == "bin" and x[1] == "<<"]
            el = [x for x in rv[2:] if x[0] == "elem"]
            ok = len(sh) == 1 and len(el) == 1 and sh[0][3] == N.const(7) and sh[0][2][0] == "lv" and sh[0][2][3] == N.const(0) \
                and el[0][1][0] == "call" and el[0][1][1] == ("free", "reversed") and bool(app) and el[0][1][2] == (app[0]["base"],)
    ctx.ob(rule, fi, ok and folded >= 1, "VarInt._parse collects byte & 0x7f while the high bit is set and folds the groups as num = (num << 7) | group from the last group down, starting at 0", key="varint decode form")


def _varint_running_shift(ctx, rule, fi, paths):
    """The same decoding without a list: num |= (byte & 0x7f) << shift; shift += 7, both from 0, the value returned at the first byte whose high
    bit is clear.  By induction over the generic continuing iteration num is the sum of group_i << 7i."""
    what = "VarInt._parse collects byte & 0x7f while the high bit is set and folds the groups as num = (num << 7) | group from the last group down, starting at 0"
    def shape(t, byte):
        """(accumulator lv, shift lv) when t is lv_num | ((byte & 127) << lv_shift)"""
        if t[0] != "bin" or t[1] not in ("|", "+") or len(t) != 4:
            return None
        for a, b in ((t[2], t[3]), (t[3], t[2])):
            if a[0] == "lv" and b[0] == "bin" and b[1] == "<<" and b[3][0] == "lv" and b[2] in (("bin", "&", N.const(127), byte), ("bin", "&", byte, N.const(127))):
                return a, b[3]
        return None
    if len(paths) != 1:
        ctx.error("%s undecided: VarInt._parse neither collects the groups in a list nor accumulates them with a running shift" % rule)
        return
    p = paths[0]
    rd = [e for e in p.events if e.kind == "READ"]
    byte = ("call", ("free", "byte2int"), (rd[0]["res"],), ()) if len(rd) == 1 else None
    sh = shape(p.retval, byte) if byte else None
    if sh is None:
        ctx.error("%s undecided: VarInt._parse neither collects the groups in a list nor accumulates them with a running shift" % rule)
        return
    num, shift = sh
    ok = rd[0]["length"] == N.const(1) and num[3] == N.const(0) and shift[3] == N.const(0) and num[2] == shift[2] and bool(rd[0].loops)
    ok = ok and any(c[0] == "cmp" and c[1] == "==" and c[3] == N.const(0) and c[2] in (("bin", "&", N.const(128), byte), ("bin", "&", byte, N.const(128))) for c in p.guards())
    steps = [(evs, env_) for lid, evs, env_ in p.loop_steps if lid == num[2]]
    ok = ok and len(steps) == 1
    for evs, env_ in steps:
        r2 = [e for e in evs if e.kind == "READ"]
        ok = ok and len(r2) == 1 and r2[0]["length"] == N.const(1)
        if not ok:
            break
        b2 = ("call", ("free", "byte2int"), (r2[0]["res"],), ())
        ok = ok and shape(env_.get(num[1], N.NONE), b2) == (num, shift) and env_.get(shift[1]) == N.mk_add(shift, N.const(7))
        goes_on = [e["cond"] for e in evs if e.kind == "ASSUME"]
        stop = [N.mk_cmp("==", x, N.const(0)) for x in (("bin", "&", N.const(128), b2), ("bin", "&", b2, N.const(128)))]
        ok = ok and any(c in [N.mk_not(s_) for s_ in stop] for c in goes_on)
    ctx.ob(rule, fi, ok, what, key="varint decode form")


def conj(p):
    out = []
    def flat(c):
        if c[0] == "bool" and c[1] == "and":
            for x in c[2]:
                flat(x)
        else:
            out.append(c)
    for g in p.guards():
        flat(g)
    return out


def bounds_on(p, var):
    """(lower term, upper term) inclusive bounds that the path's guards put on `var` (each may be None); strict bounds are turned inclusive."""
    lo = hi = None
    for c in conj(p):
        if c[0] != "cmp":
            continue
        op, l, r = c[1], c[2], c[3]
        if r == var and not N.contains(l, var):
            op, l, r = {"<": ">", "<=": ">=", ">": "<", ">=": "<="}.get(op), r, l
        if l != var or op is None or N.contains(r, var):
            continue
        if op == ">=":
            lo = r
        elif op == ">":
            lo = N.mk_add(r, N.const(1))
        elif op == "<=":
            hi = r
        elif op == "<":
            hi = N.mk_add(r, N.const(1), -1)
    return lo, hi


def run(ctx, rule="C10.R5"):
    M = ctx.model
    number, width, signed, data = ("param", "number"), ("param", "width"), ("param", "signed"), ("param", "data")
    undecided = []

    # ------------------------------------------------------------------ integer2bits
    fi = M.function("integer2bits")
    paths = paths_of(ctx, fi)
    rets = [p for p in paths if p.returns]
    ctx.ob(rule, fi, any(p.outcome[0] == "raise" and N.mk_cmp("<", width, N.const(1)) in conj(p) for p in paths), "integer2bits rejects width < 1", key="integer2bits width")
    for sgn, lo_ref, hi_ref, what in ((True, lambda w: -(1 << (w - 1)), lambda w: (1 << (w - 1)) - 1, "-2^(w-1) .. 2^(w-1)-1"),
                                      (False, lambda w: 0, lambda w: (1 << w) - 1, "0 .. 2^w-1")):
        g = signed if sgn else N.mk_not(signed)
        acc = [p for p in rets if g in conj(p)]
        ok = bool(acc)
        why = ""
        for p in acc:
            lo, hi = bounds_on(p, number)
            # the sign split of the accepted path (number < 0 / number >= 0) may tighten one side: widen with the other paths
            los = [bounds_on(q, number)[0] for q in acc]
            his = [bounds_on(q, number)[1] for q in acc]
        if acc:
            try:
                for w in WIDTHS:
                    env = {"width": w}
                    lo_v = min(fold(x, env) for x in los if x is not None) if all(x is not None for x in los) else None
                    hi_v = max(fold(x, env) for x in his if x is not None) if all(x is not None for x in his) else None
                    if lo_v != lo_ref(w) or hi_v != hi_ref(w):
                        ok = False
                        why = " (width %d: accepts %s .. %s)" % (w, lo_v, hi_v)
                        break
            except Raises as e:
                ok = False
                why = " (width %d: computing the bounds raises: %s)" % (w, e)
            except Unfoldable as e:
                undecided.append("integer2bits range bounds (%s)" % e)
                continue
        ctx.ob(rule, fi, ok, "integer2bits(signed=%s) accepts exactly %s for every width 1..72%s" % (sgn, what, why), key="integer2bits range signed=%s" % sgn)
        rej = [p for p in paths if p.outcome[0] == "raise" and g in conj(p) and N.mk_cmp(">=", width, N.const(1)) in conj(p)]
        ctx.ob(rule, fi, bool(rej) and all(p.outcome[1].get("cls") == "ValueError" for p in rej), "values outside the range raise ValueError (which the callers translate)", key="integer2bits reject signed=%s" % sgn)
    loops = [p for p in rets if p.of("ITER")]
    ok = bool(loops)
    neg_ok = None
    for p in loops:
        st = [e for e in p.events if e.kind == "STORE"]
        if len(st) != 1:
            ok = False
            continue
        key, val, base = st[0]["key"], st[0]["value"], st[0]["base"]
        lvn = [x for x in N.walk(val) if x[0] == "lv"]
        good = key[0] == "lv" and key[3] == N.mk_add(width, N.const(1), -1) and len(lvn) == 1 and val in (("bin", "&", N.const(1), lvn[0]), ("bin", "&", lvn[0], N.const(1)))
        good = good and base == ("call", ("free", "bytearray"), (width,), ()) and p.retval == ("call", ("free", "bytes"), (base,), ())
        # next iteration: number >> 1 and i - 1
        after = [c for e in p.events[p.events.index(st[0]) + 1:] if e.kind == "ASSUME" for c in N.walk(e["cond"])]
        good = good and lvn and ("bin", ">>", lvn[0], N.const(1)) in after and N.mk_add(key, N.const(1), -1) in after
        ok = ok and bool(good)
        if good and N.mk_cmp("<", number, N.const(0)) in conj(p):
            try:
                neg_ok = all(fold(lvn[0][3], {"width": w, "number": n}) == n + (1 << w) for w in (1, 2, 7, 8, 13, 64) for n in (-1, -(1 << (w - 1))))
            except Raises:
                neg_ok = False
            except Unfoldable as e:
                undecided.append("integer2bits negative bias (%s)" % e)
        elif good and N.mk_cmp(">=", number, N.const(0)) in conj(p):
            ok = ok and lvn[0][3] == number
    ctx.ob(rule, fi, ok, "integer2bits fills a zeroed width-long buffer from the last position backwards with number & 1, number >>= 1 (least significant bit last = most significant first)", key="integer2bits loop")
    # the fill loop reaches position 0: its index test admits i == 0 (i >= 0 / i > -1), so the most significant bit of a full-width number is written
    lps = uniq_events(paths, "LOOP")
    w1 = N.mk_add(width, N.const(1), -1)
    def admits_zero(c):
        cs = c[2] if c[0] == "bool" and c[1] == "and" else (c,)
        return any(x[0] == "cmp" and x[2] == w1 and ((x[1] == ">=" and x[3] == N.const(0)) or (x[1] == ">" and x[3] == N.const(-1))) for x in cs)
    idx_tests = [c for lp in lps for c in [lp["iter"]] if any(x == w1 for x in N.walk(c))]
    ctx.ob(rule, fi, bool(lps) and (not idx_tests or all(admits_zero(c) for c in idx_tests)), "the fill loop of integer2bits runs down to position 0 inclusive", key="integer2bits loop bound")
    if neg_ok is not None:
        ctx.ob(rule, fi, neg_ok, "negative numbers are encoded as number + 2^width (two's complement)", key="integer2bits negative")
    else:
        undecided.append("integer2bits negative branch not found")

    # ------------------------------------------------------------------ bits2integer
    fi = M.function("bits2integer")
    paths = paths_of(ctx, fi)
    rets = [p for p in paths if p.returns]
    ctx.ob(rule, fi, any(p.outcome[0] == "raise" and p.outcome[1].get("cls") == "ValueError" and N.mk_cmp("==", data, N.const(b"")) in conj(p) for p in paths), "bits2integer rejects the empty bit-string with ValueError", key="bits2integer empty")
    it = [p for p in rets if p.of("ITER")]
    ok = bool(it)
    first = ("sub", data, N.const(0))
    lend = ("call", ("free", "len"), (data,), ())
    sign_ok, sign_seen = True, 0
    for p in it:
        lp = [e for e in p.events if e.kind == "LOOP"]
        r = p.retval
        acc = [x for x in N.walk(r) if x[0] == "bin" and x[1] == "|"]
        good = len(lp) == 1 and lp[0]["iter"] == data and len(acc) == 1
        if good:
            a = acc[0]
            sh = [x for x in a[2:] if x[0] == "bin" and x[1] == "<<"]
            el = [x for x in a[2:] if x == ("elem", data, lp[0]["lid"])]
            good = len(sh) == 1 and len(el) == 1 and sh[0][2][0] == "lv" and sh[0][2][3] == N.const(0) and sh[0][3] == N.const(1)
        ok = ok and good
        if not good:
            continue
        bias = N.mk_add(acc[0], r, -1)         # what is subtracted from the accumulated magnitude
        cj = conj(p)
        if bias == N.const(0):
            # unsigned reading: must be under !signed or first bit clear (or an equivalent magnitude test, see below)
            continue
        sign_seen += 1
        try:
            b_ok = all(fold(bias, {"len(%s)" % N.show(data): n}) == (1 << n) for n in range(1, 73))
        except Raises:
            sign_ok = False
            continue
        except Unfoldable as e:
            undecided.append("bits2integer bias (%s)" % e)
            continue
        sign_ok = sign_ok and b_ok and signed in cj
        # the sign test: first bit set, or magnitude >= 2^(n-1)
        bit_tests = [c for c in cj if c == first or c in (N.mk_cmp("==", first, N.const(1)), N.mk_cmp("!=", first, N.const(0)), N.mk_cmp(">", first, N.const(0)), N.mk_cmp(">=", first, N.const(1)))]
        if bit_tests:
            continue
        lo, hi = bounds_on(p, acc[0])
        if lo is None:
            undecided.append("bits2integer sign test not recognised")
            continue
        try:
            thr_ok = all(fold(lo, {"len(%s)" % N.show(data): n}) == (1 << (n - 1)) for n in range(1, 73))
        except Raises:
            sign_ok = False
            continue
        except Unfoldable as e:
            undecided.append("bits2integer sign threshold (%s)" % e)
            continue
        sign_ok = sign_ok and thr_ok
    ctx.ob(rule, fi, ok, "bits2integer accumulates (number << 1) | bit over the bit-string in order, starting from 0 (most significant bit first)", key="bits2integer loop")
    ctx.ob(rule, fi, sign_ok and sign_seen >= 1, "bits2integer subtracts 2^len exactly when signed and the leading bit is set (magnitude >= 2^(len-1))", key="bits2integer sign")
    unsigned = [p for p in it if N.mk_add(([x for x in N.walk(p.retval) if x[0] == "bin" and x[1] == "|"] or [N.const(0)])[0], p.retval, -1) == N.const(0)]
    ctx.ob(rule, fi, bool(unsigned) and all(any(c == N.mk_not(signed) or (c[0] == "bool" and c[1] == "or" and N.mk_not(signed) in c[2]) for c in p.guards()) for p in unsigned),
           "the plain magnitude is returned when not signed or the leading bit is clear", key="bits2integer unsigned")

    # ------------------------------------------------------------------ bytes <-> integer
    fi = M.function("integer2bytes")
    paths = paths_of(ctx, fi)
    rets = [p for p in paths if p.returns]
    want = ("call", ("attr", ("free", "int"), "to_bytes"), (number, width, N.const("big")), (("signed", signed),))
    ctx.ob(rule, fi, bool(rets) and all(p.retval == want for p in rets), "integer2bytes is int.to_bytes(number, width, 'big', signed=signed)", key="integer2bytes")
    ov = [p for p in paths if any(e.kind == "CATCH" and "OverflowError" in e["types"] for e in p.events)]
    ctx.ob(rule, fi, bool(ov) and all(p.outcome[0] == "raise" and p.outcome[1].get("cls") == "ValueError" for p in ov), "an out-of-range number (OverflowError) becomes ValueError", key="integer2bytes overflow")
    fi = M.function("bytes2integer")
    paths = paths_of(ctx, fi)
    rets = [p for p in paths if p.returns]
    want = ("call", ("attr", ("free", "int"), "from_bytes"), (data, N.const("big")), (("signed", signed),))
    ctx.ob(rule, fi, bool(rets) and all(p.retval == want for p in rets), "bytes2integer is int.from_bytes(data, 'big', signed=signed)", key="bytes2integer")

    # ------------------------------------------------------------------ swaps
    fi = M.function("swapbytes")
    paths = paths_of(ctx, fi)
    ctx.ob(rule, fi, len(paths) == 1 and paths[0].retval == ("sub", data, ("slice", N.NONE, N.NONE, N.const(-1))), "swapbytes reverses the byte-string", key="swapbytes")
    fi = M.function("swapbytesinbits")
    paths = paths_of(ctx, fi)
    rets = [p for p in paths if p.returns]
    ok = len(rets) == 1
    if ok:
        r = N.canon_lids(rets[0].retval)
        while r[0] == "call" and (r[1] == ("attr", N.const(b""), "join") or r[1] in (("free", "bytes"), ("free", "list"))) and len(r[2]) == 1:
            r = r[2][0]
        ok = r[0] == "comp" and len(r[3]) == 1 and r[3][0][1] == ()
        if ok:
            src = r[3][0][0]
            fwd = ("call", ("free", "range"), (N.const(0), lend, N.const(8)), ())
            e = ("elem", src, 0)
            if src == ("call", ("free", "reversed"), (fwd,), ()):
                pass
            elif src[0] == "call" and src[1] == ("free", "range") and len(src[2]) == 3 and src[2][2] == N.const(-8):
                e = ("rangeelem", src[2], 0)
                ok = src[2][0] == N.mk_add(lend, N.const(8), -1) and src[2][1] in (N.const(-1), N.const(-8))
            else:
                ok = False
            ok = ok and r[2] == ("sub", data, ("slice", e, N.mk_add(e, N.const(8)), N.NONE))
    ctx.ob(rule, fi, ok, "swapbytesinbits emits the 8-bit groups in reverse order, each group's bits in their original order", key="swapbytesinbits")
    bad = [p for p in paths if p.outcome[0] == "raise"]
    ctx.ob(rule, fi, bool(bad) and all(p.outcome[1].get("cls") == "ValueError" and any(c[0] == "cmp" and c[1] == "!=" and c[2] == ("mod", lend, N.const(8)) and c[3] == N.const(0) for c in conj(p)) for p in bad),
           "swapbytesinbits rejects lengths that are not a multiple of 8", key="swapbytesinbits length")
    fi = M.function("bits2bytes")
    paths = paths_of(ctx, fi)
    bad = [p for p in paths if p.outcome[0] == "raise"]
    good = [p for p in paths if p.returns]
    mod8 = ("mod", lend, N.const(8))
    ctx.ob(rule, fi, bool(bad) and all(N.mk_cmp("!=", mod8, N.const(0)) in conj(p) and p.outcome[1].get("cls") == "ValueError" for p in bad) and
           bool(good) and all(N.mk_cmp("==", mod8, N.const(0)) in conj(p) for p in good), "bits2bytes rejects exactly the lengths that are not a multiple of 8", key="bits2bytes length")
    fi = M.function("swapbitsinbytes")
    paths = paths_of(ctx, fi)
    r = N.canon_lids(paths[0].retval) if len(paths) == 1 and paths[0].retval else None
    ok = bool(r) and r[0] == "call" and r[1] == ("free", "bytes") and r[2][0][0] == "comp" and r[2][0][2] == ("sub", ("free", "SWAPBITSINBYTES_CACHE"), ("elem", data, 0)) and r[2][0][3] == ((data, ()),)
    ctx.ob(rule, fi, ok, "swapbitsinbytes maps every byte through the bit-reversal table, in order", key="swapbitsinbytes")

    # ------------------------------------------------------------------ tables (terms, not source text)
    rel = [x for x in M.modules if x.endswith("binary.py")][0]
    assigns = M.module_assigns[rel]
    from ..core import Ctx
    def table_term(name):
        v = assigns.get(name)
        if v is None:
            raise AnalysisError("anchor vanished: %s" % name)
        m = control_model("def table():\n    return " + ast.unparse(v) + "\n")
        c2 = Ctx(ctx.prop, ctx.tier, m.root, model=m)
        ps = paths_of(c2, m.function("table"))
        return N.canon_lids(ps[0].retval) if len(ps) == 1 and ps[0].retval else None
    r256 = ((("call", ("free", "range"), (N.const(256),), ()), ()),)
    i = ("idx", 0)
    call = lambda f, *a: ("call", ("free", f), tuple(a), ())
    t = table_term("BYTES2BITS_CACHE")
    ctx.ob(rule, "BYTES2BITS_CACHE", bool(t) and t[:2] == ("comp", "dict") and t[2] == ("kv", i, call("integer2bits", i, N.const(8))) and t[3] == r256, "BYTES2BITS_CACHE[i] is integer2bits(i, 8) for i in 0..255", key="BYTES2BITS_CACHE", loc=rel)
    t = table_term("BITS2BYTES_CACHE")
    ctx.ob(rule, "BITS2BYTES_CACHE", bool(t) and t[:2] == ("comp", "dict") and t[2] == ("kv", call("bytes2bits", call("int2byte", i)), i) and t[3] == r256, "BITS2BYTES_CACHE inverts bytes2bits on single bytes", key="BITS2BYTES_CACHE", loc=rel)
    t = table_term("SWAPBITSINBYTES_CACHE")
    ctx.ob(rule, "SWAPBITSINBYTES_CACHE", bool(t) and t[:2] == ("comp", "dict") and t[2] == ("kv", i, call("byte2int", call("bits2bytes", call("swapbytes", call("bytes2bits", call("int2byte", i)))))) and t[3] == r256,
           "SWAPBITSINBYTES_CACHE[i] is the byte whose bit-string is the reversed bit-string of i", key="SWAPBITSINBYTES_CACHE", loc=rel)
    from . import C20
    C20.byte_tables(ctx, rule, ("lib/binary.py",))
    for u in undecided:
        ctx.error("%s undecided: %s" % (rule, u))
    ctx.floor(rule, 20)
