"""C11 -- context expressions mean what their Python spelling means, and print as it."""
import ast
import itertools

from .. import norm as N
from ..tables import BINARY_DUNDERS, UNARY_DUNDERS, DUNDER_DEVIATIONS, OPERATOR_ALIASES, OP_SYMBOL
from .common import *

META = {
    "level": "other",
    "explanation": "Finite-table and grammar check of construct/expr.py: (R1) each operator method of ExprMixin returns BinExpr(op, self, other) -- operands swapped for reflected methods -- or UniExpr(op, self) with the `operator` function the language reference assigns to that dunder (documented deviations frozen: ~ means logical not, __div__ aliases); (R2) BinExpr/UniExpr/FuncPath/Path2.__call__ evaluate their operands against the same context and apply op(lhs, rhs) in that order; (R3) opnames maps every operator used to its Python spelling; (R4) rendering is parse-faithful: the __repr__/__str__ summaries of UniExpr, BinExpr, Path, Path2 and FuncPath are interpreted symbolically (no library code runs) on every expression tree of depth <= 2 over the full operator table, with placeholder, integer (incl. negative), string and bytes leaves on either side; the rendered text is parsed with Python's own grammar (ast.parse) and the resulting tree must equal the intended operator tree; (R5) root names this/obj_/list_ and the helper names len_/sum_/min_/max_/abs_ render as the names the generated code binds, and the compile() prologue binds each helper to the same builtin.",
    "undecided": "Native semantics of the operators themselves are Python's.",
    "trusted_base": ["python ast (3.12) incl. ast.parse as the grammar oracle", "sa.summ summariser", "sa/tables.py operator tables (language reference)", "the term interpreter of this module (pure functions over a finite tree domain)"],
    "assumptions": ["operator.contains is outside the property's operator table (Python coerces `in` to bool)"],
}

EXPR = "construct/expr.py"


# ----------------------------------------------------------------------------- symbolic expression trees
class Node:
    def __init__(self, kind, **f):
        self.kind = kind
        self.f = f
        self.render = None

    def __repr__(self):
        return self.render(self, "__repr__")

    def __str__(self):
        return self.render(self, "__str__")


class Renderer:
    """Interprets S summaries of pure functions on Node trees."""

    def __init__(self, ctx, opnames):
        self.ctx = ctx
        self.M = ctx.model
        self.opnames = opnames
        self.cls_of = {"bin": "BinExpr", "uni": "UniExpr", "path": "Path", "path2": "Path2", "func": "FuncPath"}
        self.cache = {}

    def paths(self, cls, meth):
        k = (cls, meth)
        if k not in self.cache:
            fi = self.M.resolve(cls, meth)
            if fi is None and meth == "__str__":
                fi = self.M.resolve(cls, "__repr__")
            if fi is None:
                raise AnalysisError("anchor vanished: %s.%s" % (cls, meth))
            self.cache[k] = (fi, paths_of(self.ctx, fi, cls))
        return self.cache[k]

    def render(self, node, meth):
        cls = self.cls_of[node.kind]
        fi, paths = self.paths(cls, meth)
        return self.call(paths, {"self": node}, fi)

    def call(self, paths, env, fi):
        for p in paths:
            if not p.returns:
                continue
            try:
                if all(self.ev(g, env) for g in p.guards()):
                    return self.ev(p.retval, env)
            except KeyError:
                continue
        raise AnalysisError("renderer: no path of %s applies" % fi.qual)

    def attr(self, obj, name):
        if isinstance(obj, Node):
            key = name.lstrip("_") if name.startswith("__") and not name.endswith("__") else name
            if key in obj.f:
                return obj.f[key]
            raise KeyError(name)
        if callable(obj) and name == "__name__":
            return obj.__name__
        if isinstance(obj, str) and name == "__name__":
            return obj
        if isinstance(obj, slice) and name in ("start", "stop", "step"):
            return getattr(obj, name)
        raise KeyError(name)

    def ev(self, t, env):
        k = t[0]
        if k == "c":
            return t[2]
        if k == "param":
            return env[t[1]]
        if k == "bv":
            return env[("bv", t[1])]
        if k == "attr":
            if t[1] == ("free", "operator"):
                # the function object operator.X, in the spelling the symbolic trees carry in their `op` field
                name = OPERATOR_ALIASES.get(t[2], t[2])
                return next((key for key in self.opnames if OPERATOR_ALIASES.get(key, key) == name), name)
            return self.attr(self.ev(t[1], env), t[2])
        if k == "tuple":
            return tuple(self.ev(x, env) for x in t[1])
        if k == "fmt":
            return self.ev(t[1], env) % self.ev(t[2], env)
        if k in ("uconcat", "concat"):
            return self.ev(t[1], env) + self.ev(t[2], env)
        if k == "fstr":
            out = []
            for part in t[1]:
                if part[0] == "c":
                    out.append(part[2])
                else:
                    v = self.ev(part[1], env)
                    out.append(repr(v) if part[2] == 114 else str(v))
            return "".join(out)
        if k == "sub":
            base, idx = t[1], self.ev(t[2], env)
            if base == ("free", "opnames"):
                return self.opnames[idx]
            return self.ev(base, env)[idx]
        if k == "cmp":
            a, b = self.ev(t[2], env), self.ev(t[3], env)
            if t[1] in ("is", "is not") and isinstance(a, str) and isinstance(b, str):
                return (a == b) == (t[1] == "is")
            return {"is": a is b, "is not": a is not b, "==": a == b, "!=": a != b, "<": None, "in": None}.get(t[1]) if t[1] in ("is", "is not", "==", "!=") else \
                {"<": lambda: a < b, "<=": lambda: a <= b, ">": lambda: a > b, ">=": lambda: a >= b, "in": lambda: a in b, "not in": lambda: a not in b}[t[1]]()
        if k == "not":
            return not self.ev(t[1], env)
        if k == "bool":
            vals = (self.ev(x, env) for x in t[2])
            if t[1] == "and":
                r = True
                for x in t[2]:
                    r = self.ev(x, env)
                    if not r:
                        return r
                return r
            r = False
            for x in t[2]:
                r = self.ev(x, env)
                if r:
                    return r
            return r
        if k == "ite":
            return self.ev(t[2], env) if self.ev(t[1], env) else self.ev(t[3], env)
        if k == "slice":
            return slice(*[None if x == N.NONE else self.ev(x, env) for x in t[1:4]])
        if k == "free":
            if t[1] in self.M.classes:
                return ("class", t[1])
            lit = self.M.module_assigns.get(EXPR, {}).get(t[1])
            if isinstance(lit, (ast.Set, ast.Tuple, ast.List)) and all(isinstance(x, ast.Attribute) and isinstance(x.value, ast.Name) and x.value.id == "operator" for x in lit.elts):
                # a module-level collection of operator functions, in the spelling the symbolic trees carry
                return {self.ev(("attr", ("free", "operator"), x.attr), env) for x in lit.elts}
            if t[1] in ("int", "float", "str", "bytes", "bool", "complex", "repr", "slice", "tuple", "list"):
                return {"int": int, "float": float, "str": str, "bytes": bytes, "bool": bool, "complex": complex, "repr": repr, "slice": slice, "tuple": tuple, "list": list}[t[1]]
            raise KeyError(t[1])
        if k == "call":
            f = t[1]
            args = [self.ev(a, env) for a in t[2]]
            if f == ("free", "isinstance"):
                return self.isinstance(args[0], args[1])
            if f == ("free", "repr"):
                return repr(args[0])
            if f == ("free", "str"):
                return str(args[0])
            if f == ("free", "callable"):
                return isinstance(args[0], Node)
            if f[0] == "param" and callable(env.get(f[1])):
                return env[f[1]](*args)
            if f[0] == "free" and f[1] in self.M.functions:
                fi = self.M.functions[f[1]]
                names = [a.arg for a in fi.node.args.args]
                bound = dict(zip(names, args))
                dfl = fi.node.args.defaults
                for nm, dv in zip(names[len(names) - len(dfl):], dfl):
                    if nm not in bound and isinstance(dv, ast.Constant):
                        bound[nm] = dv.value
                return self.call(paths_of(self.ctx, fi), bound, fi)
            if f[0] == "attr" and f[2] in ("startswith", "format", "join", "strip"):
                return getattr(self.ev(f[1], env), f[2])(*args)
            if f[0] == "attr" and f[1] == ("param", "self"):
                node = env["self"]
                fi2, ps = self.paths(self.cls_of[node.kind], f[2])
                names = [a.arg for a in fi2.node.args.args]
                return self.call(ps, dict(zip(names, [node] + args)), fi2)
        if k == "selfcall":
            node = env["self"]
            fi2, ps = self.paths(self.cls_of[node.kind], t[1])
            names = [a.arg for a in fi2.node.args.args]
            return self.call(ps, dict(zip(names, [node] + [self.ev(a, env) for a in t[2]])), fi2)
        raise AnalysisError("renderer: unsupported term %s" % N.show(t)[:120])

    def isinstance(self, v, c):
        cs = c if isinstance(c, tuple) and c and not (len(c) == 2 and c[0] == "class") else (c,)
        for x in cs:
            if isinstance(x, tuple) and x[0] == "class":
                if isinstance(v, Node) and (self.cls_of[v.kind] == x[1] or self.M.is_subclass(self.cls_of[v.kind], x[1])):
                    return True
            elif isinstance(x, type) and not isinstance(v, Node) and isinstance(v, x):
                return True
        return False


# ----------------------------------------------------------------------------- intended vs parsed shapes
PY_BIN = {ast.Add: "add", ast.Sub: "sub", ast.Mult: "mul", ast.Div: "truediv", ast.FloorDiv: "floordiv", ast.Mod: "mod", ast.Pow: "pow",
          ast.BitXor: "xor", ast.LShift: "lshift", ast.RShift: "rshift", ast.BitAnd: "and_", ast.BitOr: "or_"}
PY_CMP = {ast.Gt: "gt", ast.GtE: "ge", ast.Lt: "lt", ast.LtE: "le", ast.Eq: "eq", ast.NotEq: "ne"}
PY_UN = {ast.USub: "neg", ast.UAdd: "pos", ast.Not: "not_"}


def shape_of_ast(n):
    if isinstance(n, ast.BinOp):
        return ("bin", PY_BIN[type(n.op)], shape_of_ast(n.left), shape_of_ast(n.right))
    if isinstance(n, ast.Compare):
        if len(n.ops) != 1:
            return ("chain",)
        return ("bin", PY_CMP.get(type(n.ops[0]), "?"), shape_of_ast(n.left), shape_of_ast(n.comparators[0]))
    if isinstance(n, ast.UnaryOp):
        if isinstance(n.op, ast.USub) and isinstance(n.operand, ast.Constant) and isinstance(n.operand.value, (int, float)):
            return ("const", -n.operand.value)
        return ("uni", PY_UN.get(type(n.op), "?"), shape_of_ast(n.operand))
    if isinstance(n, ast.Constant):
        return ("const", n.value)
    if isinstance(n, ast.Name):
        return ("name", n.id)
    if isinstance(n, ast.Subscript):
        return ("item", shape_of_ast(n.value), shape_of_ast(n.slice))
    if isinstance(n, ast.Slice) or (isinstance(n, ast.Call) and isinstance(n.func, ast.Name) and n.func.id == "slice" and 1 <= len(n.args) <= 3 and not n.keywords):
        # a slice in either spelling (a:b:c / slice(a, b, c)) with literal parts is the slice object itself
        parts = [n.lower, n.upper, n.step] if isinstance(n, ast.Slice) else ([None] * (3 - max(len(n.args), 2)) + list(n.args) if len(n.args) == 1 else list(n.args) + [None] * (3 - len(n.args)))
        if len(parts) == 2:
            parts = [None] + parts
        vals = []
        for x in parts:
            sh = ("const", None) if x is None else shape_of_ast(x)
            if sh[0] != "const":
                return ("other", "slice with non-literal part")
            vals.append(sh[1])
        return ("const", slice(*vals))
    if isinstance(n, ast.Call):
        return ("call", shape_of_ast(n.func), tuple(shape_of_ast(a) for a in n.args))
    return ("other", type(n).__name__)


def shape_of_node(v):
    if not isinstance(v, Node):
        return ("const", v)
    k = v.kind
    if k == "bin":
        return ("bin", OPERATOR_ALIASES.get(v.f["op"], v.f["op"]), shape_of_node(v.f["lhs"]), shape_of_node(v.f["rhs"]))
    if k == "uni":
        x = v.f["operand"]
        if v.f["op"] == "neg" and isinstance(x, (int, float)) and not isinstance(x, Node) and x >= 0:
            return ("const", -x)       # "- 7" is the literal -7 for the grammar
        return ("uni", v.f["op"], shape_of_node(x))
    if k == "path":
        if v.f["parent"] is None:
            return ("name", v.f["name"])
        return ("item", shape_of_node(v.f["parent"]), ("const", v.f["field"]))
    if k == "path2":
        if v.f["parent"] is None:
            return ("name", v.f["name"])
        return ("item", shape_of_node(v.f["parent"]), ("const", v.f["index"]))
    if k == "func":
        if v.f["operand"] is None:
            return ("name", v.f["func"] + "_")
        return ("call", ("name", v.f["func"] + "_"), (shape_of_node(v.f["operand"]),))
    raise AnalysisError("unknown node kind")


def extract_opnames(M):
    tree = M.modules[EXPR]
    d = M.module_assigns[EXPR].get("opnames")
    if not isinstance(d, ast.Dict):
        raise AnalysisError("anchor vanished: expr.opnames dict literal")
    out = {}
    for k, v in zip(d.keys, d.values):
        if isinstance(k, ast.Attribute) and isinstance(k.value, ast.Name) and k.value.id == "operator" and isinstance(v, ast.Constant):
            out[k.attr] = v.value
        else:
            raise AnalysisError("opnames entry not of the form operator.X: 'sym'")
    return out, d


def prologue_check(ctx, rule):
    M = ctx.model
    assigns = M.module_assigns[EXPR]
    compile_fi = M.method("Construct", "compile")
    prologue = None
    for node in ast.walk(compile_fi.node):
        if isinstance(node, ast.Constant) and isinstance(node.value, str) and "linkedinstances" in node.value and "len_" in node.value:
            prologue = node.value
    binds = {}
    if prologue:
        import textwrap
        try:
            for st in ast.parse(textwrap.dedent(prologue)).body:
                if isinstance(st, ast.Assign) and isinstance(st.targets[0], ast.Name) and isinstance(st.value, ast.Name):
                    binds[st.targets[0].id] = st.value.id
        except SyntaxError:
            pass
    for f in ("len", "sum", "min", "max", "abs"):
        v = assigns.get(f + "_")
        ok = isinstance(v, ast.Call) and isinstance(v.func, ast.Name) and v.func.id == "FuncPath" and len(v.args) == 1 and isinstance(v.args[0], ast.Name) and v.args[0].id == f
        ctx.ob(rule, f + "_", ok, "%s_ is FuncPath(%s)" % (f, f), key="helper %s_" % f, loc=EXPR)
        ctx.ob(rule, compile_fi, binds.get(f + "_") == f, "the compile() prologue binds %s_ to %s (found %s)" % (f, f, binds.get(f + "_")), key="prologue %s_" % f)


def run(ctx):
    M = ctx.model
    # operators defined by a loop over a table (setattr(cls, name, lambda ...: BinExpr(op, ...))): each function must bind its own operator
    no_loop_variable_capture(ctx, "C11.R1")
    opn, dnode = extract_opnames(M)
    mix = M.cls("ExprMixin")
    # the table of aliases this check uses (sa/tables.py: operator.div means operator.truediv) is what the module itself establishes: every
    # module-level assignment to an attribute of `operator` in expr.py binds the alias to the function the table says
    nshim = 0
    for st in ast.walk(M.modules[EXPR]):
        if isinstance(st, ast.Assign) and len(st.targets) == 1 and isinstance(st.targets[0], ast.Attribute) and isinstance(st.targets[0].value, ast.Name) and st.targets[0].value.id == "operator":
            nshim += 1
            alias = st.targets[0].attr
            v = st.value
            ok = isinstance(v, ast.Attribute) and isinstance(v.value, ast.Name) and v.value.id == "operator" and OPERATOR_ALIASES.get(alias) == v.attr
            ctx.ob("C11.R1", "operator.%s" % alias, ok, "expr.py binds operator.%s to operator.%s (the Python 3 meaning of the operator the dunders name)" % (alias, OPERATOR_ALIASES.get(alias, "?")),
                   key="operator alias %s" % alias, loc="%s:%d" % (EXPR, st.lineno))
    if "div" in {OPERATOR_ALIASES.get(k, k) and k for k in opn} and nshim == 0:
        ctx.error("C11.R1: expr.py uses operator.div but no longer defines it at module level")

    # ---------------------------------------------------------------- R1
    opterm = lambda name: ("attr", ("free", "operator"), name)
    n1 = 0
    for dunder, (op, refl, sym) in sorted(BINARY_DUNDERS.items()):
        fi = M.method("ExprMixin", dunder)
        paths = paths_of(ctx, fi, "ExprMixin")
        n1 += 1
        r = paths[0].retval if len(paths) == 1 else None
        want_args = (("param", "other"), SELF) if refl else (SELF, ("param", "other"))
        got_op = r[3][0][2] if r and r[0] == "new" and r[1] == "BinExpr" and r[3] and r[3][0][0] == "attr" and r[3][0][1] == ("free", "operator") else None
        ok = r is not None and r[0] == "new" and r[1] == "BinExpr" and len(r[3]) == 3 and OPERATOR_ALIASES.get(got_op, got_op) == op and r[3][1:] == want_args
        ctx.ob("C11.R1", fi, ok, "%s returns BinExpr(operator.%s, %s)" % (dunder, op, "other, self" if refl else "self, other"), key=dunder)
    for dunder, (op, sym) in list(UNARY_DUNDERS.items()) + [(k, v) for k, v in DUNDER_DEVIATIONS.items()]:
        fi = M.method("ExprMixin", dunder)
        paths = paths_of(ctx, fi, "ExprMixin")
        n1 += 1
        r = paths[0].retval if len(paths) == 1 else None
        ok = r is not None and r[0] == "new" and r[1] == "UniExpr" and r[3] == (opterm(op), SELF)
        ctx.ob("C11.R1", fi, ok, "%s returns UniExpr(operator.%s, self)" % (dunder, op), key=dunder)
    other = set(mix.methods) - set(BINARY_DUNDERS) - set(UNARY_DUNDERS) - set(DUNDER_DEVIATIONS) - {"__contains__", "__getstate__", "__setstate__"}
    ctx.ob("C11.R1", "ExprMixin", not other, "ExprMixin defines no operator method outside the table (%s)" % sorted(other), key="no extras", loc=EXPR)
    al = mix.aliases
    ctx.ob("C11.R1", "ExprMixin", set(al) <= {"__div__", "__rdiv__", "__inv__"}, "class-level aliases are the documented ones (%s)" % sorted(al.items()), key="aliases", loc=EXPR)
    for sub_cls in ("BinExpr", "UniExpr", "Path", "Path2", "FuncPath"):
        over = [d for d in list(BINARY_DUNDERS) + list(UNARY_DUNDERS) + list(DUNDER_DEVIATIONS) if d in M.cls(sub_cls).methods]
        over += [a for a in M.cls(sub_cls).assigns if a in BINARY_DUNDERS or a in UNARY_DUNDERS or a in DUNDER_DEVIATIONS]
        ctx.ob("C11.R1", sub_cls, not over, "%s inherits every operator from ExprMixin (an override would give expressions of this kind their own operator semantics; found %s)" % (sub_cls, over),
               key="%s no operator override" % sub_cls, loc=EXPR)
    ctx.floor("C11.R1", 33)

    # ---------------------------------------------------------------- R2
    fi, paths = own_method_paths(ctx, "BinExpr", "__call__")
    o = ("param", "obj")
    ok = len(paths) == 1 and paths[0].retval == ("call", N.selfattr("op"), (("eval", N.selfattr("lhs"), o), ("eval", N.selfattr("rhs"), o)), ())
    ctx.ob("C11.R2", fi, ok, "BinExpr.__call__ is op(lhs(obj) or lhs, rhs(obj) or rhs) in that order", key="BinExpr call")
    fi, paths = own_method_paths(ctx, "UniExpr", "__call__")
    ok = len(paths) == 1 and paths[0].retval == ("call", N.selfattr("op"), (("eval", N.selfattr("operand"), o),), ())
    ctx.ob("C11.R2", fi, ok, "UniExpr.__call__ is op(operand(obj) or operand)", key="UniExpr call")
    fi, paths = own_method_paths(ctx, "BinExpr", "__init__")
    w = {e["attr"]: e["value"] for p in paths for e in p.events if e.kind == "SELFWRITE"}
    ctx.ob("C11.R2", fi, w == {"op": ("param", "op"), "lhs": ("param", "lhs"), "rhs": ("param", "rhs")}, "BinExpr stores (op, lhs, rhs) as given", key="BinExpr init")
    fi, paths = own_method_paths(ctx, "UniExpr", "__init__")
    w = {e["attr"]: e["value"] for p in paths for e in p.events if e.kind == "SELFWRITE"}
    ctx.ob("C11.R2", fi, w == {"op": ("param", "op"), "operand": ("param", "operand")}, "UniExpr stores (op, operand) as given", key="UniExpr init")
    fi, paths = own_method_paths(ctx, "FuncPath", "__call__")
    fo, ff = N.selfattr("__operand"), N.selfattr("__func")
    applied = [p for p in paths if p.returns and N.mk_cmp("is not", fo, N.NONE) in p.guards()]
    ok = len(applied) == 1 and applied[0].retval == ("call", ff, (("eval", fo, ("param", "operand")),), ())
    ctx.ob("C11.R2", fi, ok, "FuncPath.__call__ applies the function to the evaluated operand", key="FuncPath call")
    binds = [p for p in paths if p.returns and N.mk_cmp("is", fo, N.NONE) in p.guards()]
    opnd = ("param", "operand")
    iscall = ("call", ("free", "callable"), (opnd,), ())
    okb = len(binds) == 2
    for p in binds:
        r = N.canon_lids(p.retval) if p.retval else None
        d = decided(p, iscall)
        if d is True:
            okb = okb and r is not None and r[0] == "new" and r[1] == "FuncPath" and r[3] == (ff, opnd)
        elif d is False:
            okb = okb and r == opnd
        else:
            okb = False
    got, want = okb, True
    ctx.ob("C11.R2", fi, got == want, "an unbound helper binds to every callable operand (any expression, not only a bare path): len_(this.a + this.b) stays a helper application", key="FuncPath bind")
    fi, paths = own_method_paths(ctx, "Path2", "__call__")
    root = [p for p in paths if p.returns and N.mk_cmp("is", N.selfattr("__parent"), N.NONE) in p.guards()]
    ok = len(root) == 1 and root[0].retval == ("sub", ("param", "*args"), N.const(1))
    ctx.ob("C11.R2", fi, ok, "Path2 root evaluates to the second argument (the list)", key="Path2 root")
    unused_parameters(ctx, "C11.R2", lambda f: f.relpath.endswith("expr.py"))
    ctx.floor("C11.R2", 7 + 30)

    # ---------------------------------------------------------------- R3
    used = {v[0] for v in BINARY_DUNDERS.values()} | {v[0] for v in UNARY_DUNDERS.values()} | {v[0] for v in DUNDER_DEVIATIONS.values()}
    for op in sorted(used):
        keys = [k for k in opn if OPERATOR_ALIASES.get(k, k) == op]
        ok = bool(keys) and all(opn[k] == OP_SYMBOL[op] for k in keys)
        ctx.ob("C11.R3", "opnames", ok, "opnames[operator.%s] is %r (found %r)" % (op, OP_SYMBOL[op], [opn[k] for k in keys]), key="symbol %s" % op, loc="%s:%d" % (EXPR, dnode.lineno))
    ctx.floor("C11.R3", 20)

    # ---------------------------------------------------------------- R4
    rnd = Renderer(ctx, opn)

    def mk(kind, **f):
        n = Node(kind, **f)
        n.render = rnd.render
        return n
    this = mk("path", name="this", field=None, parent=None)
    obj_ = mk("path", name="obj_", field=None, parent=None)
    leaves = [("placeholder", mk("path", name="this", field="a", parent=this)), ("nested path", mk("path", name="this", field="c", parent=mk("path", name="this", field="_", parent=this))),
              ("obj_", obj_), ("int", 7), ("negative int", -5), ("bool", True), ("str", "ab"), ("bytes", b"xy"), ("func", mk("func", func="len", operand=mk("path", name="this", field="b", parent=this)))]
    # subscripts of every kind a context expression can carry: integer index, and slices with a missing / zero / negative part
    Pd = mk("path", name="this", field="d", parent=this)
    leaves += [("int subscript", mk("path", name="this", field=0, parent=Pd)), ("slice subscript", mk("path", name="this", field=slice(1, None, None), parent=Pd)),
               ("slice to zero", mk("path", name="this", field=slice(None, 0, None), parent=Pd)), ("slice with step", mk("path", name="this", field=slice(2, 0, -1), parent=Pd)),
               ("list_ subscript", mk("path2", name="list_", index=slice(None, 0, None), parent=mk("path2", name="list_", index=None, parent=None)))]
    bin_ops = sorted({v[0] for v in BINARY_DUNDERS.values()})
    un_ops = ["neg", "pos", "not_"]
    rev = {OPERATOR_ALIASES.get(k, k): k for k in opn}

    def B(op, l, r):
        return mk("bin", op=rev.get(op, op), lhs=l, rhs=r)

    def U(op, x):
        return mk("uni", op=rev.get(op, op), operand=x)
    P = leaves[0][1]
    inner = []
    for op in bin_ops:
        inner.append(("bin:" + op, B(op, P, 3)))
    for op in un_ops:
        inner.append(("uni:" + op, U(op, P)))
    inner += leaves
    # helpers applied to compound expressions (every nesting of helper and operator)
    inner.append(("func of bin", mk("func", func="abs", operand=B("sub", P, 5))))
    inner.append(("func of nested bin", mk("func", func="abs", operand=B("mul", B("sub", P, 3), B("add", P, 1)))))
    inner.append(("func of uni", mk("func", func="len", operand=U("neg", P))))
    trees = []
    for op in bin_ops:
        for name, x in inner:
            trees.append(("%s(%s, leaf)" % (op, name), B(op, x, P)))
            trees.append(("%s(leaf, %s)" % (op, name), B(op, P, x)))
    for op in un_ops:
        for name, x in inner:
            trees.append(("%s(%s)" % (op, name), U(op, x)))
    if ctx.tier == "thorough":
        # depth 3 cross-check on a reduced operator set
        red = ["add", "pow", "eq", "and_", "sub"]
        for o1 in red:
            for o2 in red + un_ops:
                for o3 in un_ops + ["mul"]:
                    x3 = U(o3, P) if o3 in un_ops else B(o3, P, 2)
                    x2 = U(o2, x3) if o2 in un_ops else B(o2, x3, -1)
                    trees.append(("d3 %s(%s(%s))" % (o1, o2, o3), B(o1, x2, P)))
                    trees.append(("d3 %s(., %s(%s))" % (o1, o2, o3), B(o1, P, x2)))
    bad = {}
    total = 0
    for meth in ("__repr__", "__str__"):
        for label, tree in trees:
            strleaf = any(s in label for s in ("str", "bytes"))
            if meth == "__str__" and strleaf:
                continue          # __str__ is a display form: string operands are shown unquoted by design
            total += 1
            want = shape_of_node(tree)
            try:
                text = rnd.render(tree, meth)
                got = shape_of_ast(ast.parse(text, mode="eval").body)
            except SyntaxError:
                got = ("syntax error",)
            if got != want:
                outer = tree.kind
                child = label
                cls = "UniExpr operand of %s" % ("BinExpr" if outer == "bin" else "UniExpr") if "uni:" in label or " not_" in label or "neg" in label.split("(")[1:2] else label
                key = "negative constant operand" if "negative int" in label else ("UniExpr operand of a " + ("binary" if outer == "bin" else "unary") + " operator" if "uni:" in label or label.startswith("d3") else label)
                bad.setdefault((meth, key), []).append((label, text if got != ("syntax error",) else text + "  [syntax error]"))
    ctx.extra["rendered_trees"] = total
    fi_b = M.method("BinExpr", "__repr__")
    fi_u = M.method("UniExpr", "__repr__")
    groups = {}
    for (meth, key), items in bad.items():
        groups.setdefault(key, []).extend("%s -> %s" % it for it in items[:3])
    for key in ("UniExpr operand of a binary operator", "UniExpr operand of a unary operator", "negative constant operand"):
        items = groups.pop(key, [])
        where = fi_b if "binary" in key or "negative" in key else fi_u
        ctx.ob("C11.R4", where, not items, "rendering is not parse-faithful for a %s: %s" % (key, "; ".join(items[:3])) if items else "rendering of a %s parses back to the intended tree" % key,
               key=key)
    for key, items in groups.items():
        ctx.ob("C11.R4", fi_b, False, "rendering is not parse-faithful: %s" % "; ".join(items[:3]), key=key)
    ctx.ob("C11.R4", fi_b, total >= 1500, "%d renderings were parsed and compared" % total, key="coverage")
    for cls in ("BinExpr", "UniExpr", "Path", "FuncPath"):
        a = M.resolve(cls, "__repr__")
        b = M.resolve(cls, "__str__")
        if a is None or b is None:
            continue
        # same operator/operand order in both renderings: compare on a string-free tree
        t = B("sub", B("mul", P, 2), U("neg", P)) if cls in ("BinExpr", "UniExpr") else (leaves[1][1] if cls == "Path" else leaves[-1][1])
        try:
            same = rnd.render(t, "__repr__") == rnd.render(t, "__str__")
        except AnalysisError as e:
            same = False
        ctx.ob("C11.R4", a, same, "%s.__repr__ and __str__ agree on string-free trees" % cls, key="%s repr/str" % cls)
    ctx.floor("C11.R4", 6)

    # ---------------------------------------------------------------- R5
    assigns = M.module_assigns[EXPR]
    for name, cls in (("this", "Path"), ("obj_", "Path"), ("list_", "Path2")):
        v = assigns.get(name)
        ok = isinstance(v, ast.Call) and isinstance(v.func, ast.Name) and v.func.id == cls and len(v.args) == 1 and isinstance(v.args[0], ast.Constant) and v.args[0].value == name
        ctx.ob("C11.R5", name, ok, "%s is %s(%r): it renders as the name generated code binds" % (name, cls, name), key="root %s" % name, loc=EXPR)
    prologue_check(ctx, "C11.R5")
    fn = mk("func", func="len", operand=None)
    ctx.ob("C11.R5", M.method("FuncPath", "__repr__"), rnd.render(fn, "__repr__") == "len_" and rnd.render(dict(leaves)["func"], "__repr__").startswith("len_("), "FuncPath renders as <function name>_ and <function name>_(operand)", key="FuncPath name")
    fi, paths = own_method_paths(ctx, "RepeatUntil", "_emitparse")
    # this.<name> must be a path step for *every* field name: the path classes reserve no plain attribute (method, property, class constant)
    for cname in ("ExprMixin", "Path", "Path2"):
        ci = M.cls(cname)
        plain = [st.name for st in ci.node.body if isinstance(st, ast.FunctionDef) and not (st.name.startswith("__") and st.name.endswith("__"))]
        plain += [t.id for st in ci.node.body if isinstance(st, ast.Assign) for t in st.targets if isinstance(t, ast.Name) and not (t.id.startswith("__") and t.id.endswith("__"))]
        ctx.ob("C11.R5", cname, not plain, "%s defines only double-underscore names, so no field name is shadowed (found %s): this.%s would stop being a path expression" % (cname, plain, plain[0] if plain else "x"),
               key="%s namespace" % cname, loc=EXPR)
    # an expression handed to a construct is rendered into generated code with repr (which C11.R4 shows to evaluate like the expression); str()
    # prints string operands unquoted (shared with C04.R1)
    borrowed = 0
    if not getattr(ctx.model, "_c04_running", False):          # C04 itself borrows C11 (R6): no borrowing back while it runs
        from . import C04 as _C04
        sub4 = shared_run(ctx, _C04, prop="C04")
        for e_ in sub4.errors:
            ctx.error("shared C04 rules: " + e_)
        for o_ in sub4.obligations:
            if o_.rule == "C04.R1":
                borrowed += 1
                ctx.ob("C11.R5", o_.where, o_.ok, o_.what, key=o_.key, loc=o_.loc, detail=o_.detail)
        if borrowed < 25:
            ctx.error("C11.R5: only %d repr-discipline obligations borrowed from C04.R1, floor 25" % borrowed)
    ctx.floor("C11.R5", 17)

    # positive control: the grammar oracle must notice a dropped parenthesis
    got = shape_of_ast(ast.parse("this['a'] + 3 * this['a']", mode="eval").body)
    want = shape_of_node(B("mul", B("add", P, 3), P))
    ctx.control("C11.R4", got != want)
