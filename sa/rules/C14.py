"""C14 -- RawCopy reports the exact bytes processed; checksums built always verify."""
from .. import norm as N
from ..pos import Trace, P0, is_top
from .common import *

META = {
    "level": "other",
    "explanation": "Offset algebra and sibling agreement: (R1) RawCopy._parse takes offset1 at entry, parses the inner construct, takes offset2, seeks back to offset1 and re-reads exactly offset2-offset1 bytes, ends at offset2, and returns data/value/offset1/offset2/length bound to exactly those quantities (symbolic position algebra: offset1 = P0, offset2 = P0 + D, data = read of D bytes starting at P0, length = D); (R2) RawCopy._build: the `data` branch writes obj['data'] with its own length between two tells, the `value` branch builds the value between two tells, seeks back and re-reads offset2-offset1 bytes ending at offset2; both return offsets/length bound to those tells on top of what obj carried; with neither key RawCopyError; the data branch is selected by key presence; (R3) Checksum computes the same digest term hashfunc(bytesfunc(context)) in _parse and _build, parse raises ChecksumError exactly when stored != computed and returns the stored digest, build always writes the computed digest (never the supplied obj) and returns it; (R4) build_file opens the file for reading as well as writing in binary mode, so that RawCopy can read back. R2 also: the freshly measured data/value/offset1/offset2/length are the last word in RawCopy._build's result (entries of the supplied object never override them); (R5) the offsets RawCopy sees inside delimiting wrappers are absolute: every substream is created with the outer tell at the region's first byte (shared with C08.R3). (R6) the generated code of RawCopy, Checksum, Pointer, Tell, Prefixed, FixedSized agrees with the interpreter (shared with C04.R3/R8).",
    "undecided": "Corruption detection for an arbitrary hash function is a property of that function; that parsing data alone yields value needs the inner construct to be position independent.",
    "trusted_base": ["python ast (3.12)", "sa.summ summariser", "sa.pos position algebra"],
    "assumptions": ["the inner construct advances the stream by D >= 0 and leaves it at P0 + D on success"],
}


def kwof(t):
    return dict(t[4]) if t and t[0] == "new" and len(t) > 4 else {}


def final_record(p):
    """Entries of the Container a path returns as they stand at the return: the keyword arguments of its construction, then -- in order -- every
    later attribute / item store and keyword update on that object (a later write wins).  A positional update (entries of another mapping poured
    in afterwards) makes every entry written before it unknown.  -> (dict, fresh_positional_after: bool)"""
    r = p.retval
    kw = kwof(r)
    spoiled = False
    for e in p.events:
        tgt = e.a.get("base", e.a.get("ctx"))
        if tgt != r:
            continue
        if e.kind in ("ATTRSET", "SETATTR") and isinstance(e["attr"], str):
            kw[e["attr"]] = e["value"]
        elif e.kind in ("STORE", "CTXSET") and N.is_const(e["key"]):
            kw[e["key"][2]] = e["value"]
        elif e.kind in ("MUT", "CTXUPDATE") and e.a.get("method", "update") == "update":
            if e.a.get("args") or e.a.get("src") is not None:
                spoiled = True
                kw = {}
            for k, v in (e.a.get("kw") or ()):
                kw[k] = v
        elif e.kind in ("MUT", "DELITEM"):
            spoiled = True
    return kw, spoiled


def rawcopy_parse(ctx, rule="C14.R1"):
    """RawCopy._parse: tell, inner parse, tell, seek back, re-read -- the record it returns and where the stream ends."""
    M = ctx.model
    subcon = N.selfattr("subcon")
    # ---------------------------------------------------------------- R1
    fi, paths = own_method_paths(ctx, "RawCopy", "_parse")
    rets = [p for p in paths if p.returns]
    ctx.ob(rule, fi, len(rets) == 1, "RawCopy._parse has a single successful path", key="single path")
    for p in rets:
        t = Trace(p, STREAM)
        kinds = [e.kind for e in p.events if e.kind in ("TELL", "SUB", "SEEK", "READ", "WRITE", "READALL", "RAWIO")]
        ctx.ob(rule, fi, kinds == ["TELL", "SUB", "TELL", "SEEK", "READ"], "tell, inner parse, tell, seek back, re-read (got %s)" % kinds, key="shape")
        if kinds != ["TELL", "SUB", "TELL", "SEEK", "READ"]:
            continue
        tell1, sub, tell2, seek, read = [e for e in p.events if e.kind in ("TELL", "SUB", "SEEK", "READ")]
        ctx.ob(rule, fi, all(e["stream"] == STREAM for e in (tell1, sub, tell2, seek, read)) and sub["target"] == subcon and sub["m"] == "_parsereport",
               "all five steps use the incoming stream and the wrapped construct", key="stream identity")
        d = [k for k in t.deltas]
        D = d[0] if len(d) == 1 else None
        p0 = P0(STREAM)
        kw = kwof(p.retval)
        ctx.ob(rule, fi, set(kw) == {"data", "value", "offset1", "offset2", "length"}, "the result has exactly data, value, offset1, offset2, length", key="fields")
        ctx.ob(rule, fi, t.val(kw.get("offset1")) == p0, "offset1 is the entry position", key="offset1")
        ctx.ob(rule, fi, D is not None and t.val(kw.get("offset2")) == N.mk_add(p0, D), "offset2 is the position right after the inner parse", key="offset2")
        ctx.ob(rule, fi, D is not None and t.val(kw.get("length")) == D, "length == offset2 - offset1", key="length")
        ctx.ob(rule, fi, kw.get("value") == sub["res"], "value is the inner result", key="value")
        ctx.ob(rule, fi, kw.get("data") == read["res"] and t.pos_before(read) == p0 and D is not None and t.val(read["length"]) == D,
               "data is the re-read of exactly offset2-offset1 bytes starting at offset1", key="data")
        ctx.ob(rule, fi, D is not None and t.final == N.mk_add(p0, D), "the stream ends at offset2 (got %s)" % N.show(t.final), key="end position")


def run(ctx):
    rawcopy_parse(ctx)
    ctx.floor("C14.R1", 9)
    M = ctx.model
    S = summariser(ctx)
    subcon = N.selfattr("subcon")

    # ---------------------------------------------------------------- R2
    fi, paths = own_method_paths(ctx, "RawCopy", "_build")
    seen = set()
    for p in paths:
        t = Trace(p, STREAM)
        g = p.guards()
        has_data = [c for c in g if c[0] == "cmp" and c[1] == "in" and c[2] == N.const("data")]
        no_data = [c for c in g if c[0] == "cmp" and c[1] == "not in" and c[2] == N.const("data")]
        has_val = [c for c in g if c[0] == "cmp" and c[1] == "in" and c[2] == N.const("value")]
        no_val = [c for c in g if c[0] == "cmp" and c[1] == "not in" and c[2] == N.const("value")]
        p0 = P0(STREAM)
        if has_data and p.returns:
            seen.add("data")
            o = has_data[0][3]
            w = [e for e in p.events if e.kind == "WRITE"]
            kinds = [e.kind for e in p.events if e.kind in ("TELL", "SUB", "SEEK", "READ", "WRITE")]
            data = ("sub", o, N.const("data"))
            ok = kinds == ["TELL", "WRITE", "TELL"] and w[0]["data"] == data and w[0]["length"] == ("call", ("free", "len"), (data,), ()) and w[0]["stream"] == STREAM
            ctx.ob("C14.R2", fi, ok, "data branch: tell, write obj['data'] with its own length, tell", key="data branch shape")
            kw, spoiled = final_record(p)
            L = ("call", ("free", "len"), (data,), ())
            ok = p.retval[0] == "new" and p.retval[3] == (o,) and kw.get("data", data) == data and t.val(kw.get("offset1")) == p0 \
                and t.val(kw.get("offset2")) == N.mk_add(p0, L) and t.val(kw.get("length")) == L
            ctx.ob("C14.R2", fi, ok, "data branch returns obj's entries plus data, offset1, offset2, length of what was written", key="data branch result")
            ctx.ob("C14.R2", fi, not spoiled, "data branch: the freshly measured fields are the last word in the result", key="data branch fresh fields win")
        elif no_data and has_val and p.returns:
            seen.add("value")
            o = has_val[0][3]
            kinds = [e.kind for e in p.events if e.kind in ("TELL", "SUB", "SEEK", "READ", "WRITE")]
            ok = kinds == ["TELL", "SUB", "TELL", "SEEK", "READ"]
            ctx.ob("C14.R2", fi, ok, "value branch: tell, inner build, tell, seek back, re-read (got %s)" % kinds, key="value branch shape")
            if not ok:
                continue
            tell1, sub, tell2, seek, read = [e for e in p.events if e.kind in ("TELL", "SUB", "SEEK", "READ")]
            D = next(iter(t.deltas), None)
            val = ("sub", o, N.const("value"))
            if o[0] == "call" and o[1] == ("free", "dict") and not o[2] and "value" in dict(o[3]):
                val = dict(o[3])["value"]          # the substituted dict(value=None): its entry, as S folds the subscript
            ctx.ob("C14.R2", fi, sub["m"] == "_build" and sub["target"] == subcon and sub["obj"] == val and sub["stream"] == STREAM, "the inner construct builds obj['value'] into the stream", key="value branch build")
            kw, spoiled = final_record(p)
            ok = D is not None and kw.get("data") == read["res"] and t.pos_before(read) == p0 and t.val(read["length"]) == D \
                and t.val(kw.get("offset1")) == p0 and t.val(kw.get("offset2")) == N.mk_add(p0, D) and t.val(kw.get("length")) == D and t.final == N.mk_add(p0, D)
            ctx.ob("C14.R2", fi, ok, "value branch reads back exactly the bytes just built, reports their offsets/length and ends after them", key="value branch result")
            ctx.ob("C14.R2", fi, not spoiled and set(kw) == {"data", "value", "offset1", "offset2", "length"} and p.retval[0] == "new" and p.retval[3] in ((o,), ()),
                   "value branch: the freshly measured data/value/offset1/offset2/length are the last word in the result (entries of the supplied object, e.g. stale offsets of an earlier parse, never override them)", key="value branch fresh fields win")
            isn = N.mk_cmp("is", sub["res"], N.NONE)
            d = decided(p, isn)
            okv = kw.get("value") == N.mk_ite(isn, val, sub["res"]) or (d is True and kw.get("value") == val) or (d is False and kw.get("value") == sub["res"])
            ctx.ob("C14.R2", fi, okv, "value is the build result (or the supplied value when the builder returns None)", key="value branch value")
        elif no_data and no_val:
            seen.add("neither")
            ctx.ob("C14.R2", fi, p.outcome[0] == "raise" and p.outcome[1].get("cls") == "RawCopyError" and not p.of("WRITE", "SUB"), "neither key: RawCopyError before anything is written", key="neither")
    ctx.ob("C14.R2", fi, seen == {"data", "value", "neither"}, "data / value / neither branches analysed (%s)" % sorted(seen), key="branches covered")
    from . import C02
    C02.substitution_checks(ctx, "C14.R2", only={"RawCopy"})     # the supplied record is replaced by a default only when it is None
    ctx.floor("C14.R2", 10)

    # ---------------------------------------------------------------- R3
    digest = ("call", N.selfattr("hashfunc"), (("call", N.selfattr("bytesfunc"), (CTX,), ()),), ())
    fld = N.selfattr("checksumfield")
    fi, paths = own_method_paths(ctx, "Checksum", "_parse")
    subs = uniq_events(paths, "SUB")
    ok = len(subs) == 1 and subs[0]["target"] == fld and subs[0]["m"] == "_parsereport" and subs[0]["stream"] == STREAM
    ctx.ob("C14.R3", fi, ok, "Checksum._parse reads the stored digest with the checksum field", key="parse field")
    if ok:
        stored = subs[0]["res"]
        ne, eq = N.mk_cmp("!=", stored, digest), N.mk_cmp("==", stored, digest)
        rais = [p for p in paths if p.outcome[0] == "raise" and p.outcome[1].get("kind") == "explicit"]
        rets = [p for p in paths if p.returns]
        ctx.ob("C14.R3", fi, bool(rais) and all(p.outcome[1].get("cls") == "ChecksumError" and ne in p.guards() for p in rais), "ChecksumError exactly when stored != hashfunc(bytesfunc(context))", key="parse polarity")
        ctx.ob("C14.R3", fi, bool(rets) and all(eq in p.guards() and p.retval == stored for p in rets), "the stored digest is returned only when it equals the computed one", key="parse return")
    fi, paths = own_method_paths(ctx, "Checksum", "_build")
    ok = len(paths) == 1
    if ok:
        p = paths[0]
        subs = p.of("SUB")
        ok = len(subs) == 1 and subs[0]["m"] == "_build" and subs[0]["target"] == fld and subs[0]["obj"] == digest and subs[0]["stream"] == STREAM and p.retval == digest
    ctx.ob("C14.R3", fi, ok, "Checksum._build always writes hashfunc(bytesfunc(context)) -- the same term _parse compares with -- and returns it", key="build digest")
    # a detected corruption is reported as ChecksumError for every digest type: nothing on the way to the raise (message formatting
    # included) can raise a foreign exception first (shared with C06.R3)
    from . import C06
    esc6 = C06.escaping(ctx, summariser(ctx))
    C06.check_foreign(ctx, M.method("Checksum", "_parse"), "Checksum", esc6, rule="C14.R3")
    C06.check_formats(ctx, "C14.R3")
    ctx.floor("C14.R3", 4)

    # ---------------------------------------------------------------- R4
    fi, paths = own_method_paths(ctx, "Construct", "build_file")
    opens = [e for p in paths for e in p.events if e.kind == "CALL" and e["func"] == ("free", "open")]
    mode = opens[0]["args"][1] if opens and len(opens[0]["args"]) > 1 else None
    ok = mode is not None and N.is_const(mode) and all(c in mode[2] for c in "+b") and ("w" in mode[2] or "r" in mode[2])
    ctx.ob("C14.R4", fi, ok, "build_file opens the file in a binary read+write mode so RawCopy can read back (mode %r)" % (mode[2] if mode else None), key="mode")
    ctx.floor("C14.R4", 1)

    # ---------------------------------------------------------------- R5 offsets seen inside delimiting wrappers (shared with C08.R3)
    # RawCopy reports stream.tell(); inside Prefixed/FixedSized/NullTerminated/NullStripped/ProcessXor/OffsettedEnd that is the substream's tell,
    # which is absolute only if the wrapper passed the outer position of the region's first byte as the substream offset
    from ..core import Ctx
    from . import C08
    sub = Ctx("C08", ctx.tier, ctx.root, model=ctx.model)
    sub._summ = summariser(ctx)
    C08.run(sub)
    for e in sub.errors:
        ctx.error("shared C08 rules: " + e)
    for o in sub.obligations:
        if o.rule == "C08.R3":
            ctx.ob("C14.R5", o.where, o.ok, o.what, key=o.key, loc=o.loc, detail=o.detail)
    ctx.floor("C14.R5", 12)
    from . import C04
    C04.shared_obligations(ctx, "C14.R6", {"RawCopy", "Checksum", "Pointer", "Tell", "Prefixed", "FixedSized", "Struct", "Sequence", "FocusedSeq", "Aligned", "Padded"})
    # Checksum(..., this.payload.data): what a RawCopy member built must be in the scope of the members after it (shared with C07.R4)
    from . import C07
    C07.member_store_checks(ctx, "C14.R7")
    C07.wrapper_build_result(ctx, "C14.R7")       # the RawCopy record reaches the enclosing structure through every wrapper around it
    ctx.floor("C14.R7", 20)
    ctx.floor("C14.R6", 6)
    # RawCopy._build reads back what was written by seeking to offset1: on every stream wrapper of the package a seek only moves the
    # position -- it never drops, shifts or rewrites buffered bytes (what is then read back must be what was written)
    n8 = 0
    for wcls, allowed in (("RebufferedBytesIO", {"offset"}), ("RestreamedBytesIO", set()), ("BytesIOWithOffsets", set())):
        if wcls not in M.classes or "seek" not in M.cls(wcls).methods:
            continue
        fi8, paths8 = own_method_paths(ctx, wcls, "seek")
        written = {e["attr"] for p in paths8 for e in p.events if e.kind == "SELFWRITE"} | {"<call %s>" % e["method"] for p in paths8 for e in p.events if e.kind == "SELFCALL"}
        n8 += 1
        ctx.ob("C14.R8", fi8, written <= allowed, "%s.seek only moves the position (state written or helpers called: %s)" % (wcls, sorted(map(str, written)) or "none"), key="%s seek is position-only" % wcls)
    ctx.floor("C14.R8", 3)

    # positive control: length = offset2
    ctl = control_model(
        "class Container(dict):\n    pass\n"
        "def stream_tell(stream, path):\n    return stream.tell()\n"
        "def stream_seek(stream, offset, whence, path):\n    return stream.seek(offset, whence)\n"
        "def stream_read(stream, length, path):\n    return stream.read(length)\n"
        "class Construct(object):\n    pass\n"
        "class RawCopy(Construct):\n"
        "    def _parse(self, stream, context, path):\n"
        "        offset1 = stream_tell(stream, path)\n"
        "        obj = self.subcon._parsereport(stream, context, path)\n"
        "        offset2 = stream_tell(stream, path)\n"
        "        stream_seek(stream, offset1, 0, path)\n"
        "        data = stream_read(stream, offset2, path)\n"
        "        return Container(data=data, value=obj, offset1=offset1, offset2=offset2, length=offset2)\n")
    from ..core import Ctx
    c2 = Ctx("C14", ctx.tier, ctl.root, model=ctl)
    f2, ps2 = own_method_paths(c2, "RawCopy", "_parse")
    t2 = Trace(ps2[0], STREAM)
    D = next(iter(t2.deltas))
    ctx.control("C14.R1", t2.final != N.mk_add(P0(STREAM), D) and t2.val(kwof(ps2[0].retval)["length"]) != D)
