"""C12 -- documented construct equivalences hold extensionally."""
import ast
import os
import re

from .. import norm as N
from ..summ import Summariser
from .common import *
from . import C01, C10
from .C03 import const_call

META = {
    "level": "other",
    "explanation": "Every equivalence the documentation states with `<-->` (docstrings of construct/core.py and docs/*.rst) is parsed and assigned to exactly one discharge method; a law line that fits none is an analysis error, so a newly added law cannot pass unexamined. Methods: *alias* -- both sides reduce to the same constructor term through the singleton/alias table with default arguments filled in (Byte..Double, Bit/Nibble/Octet, Int24ul vs BytesInteger(3, swapped=True), ByteSwapped(Int24ub) vs ByteSwapped(BytesInteger(3))); *literal* -- the right side, parsed as an expression, equals the macro body's returned constructor term (Optional, If, BitStruct, PrefixedArray; Bitwise/Bytewise against the streaming branch, argument order of Restreamed.__init__ from the source); *operator* -- the dunder returns the stated Renamed(...) term on the branch selected by the operand's type; *parallel structure + units* -- BytesInteger and BitsInteger have identical _parse/_build/_sizeof summaries under the helper renaming {bytes2integer<->bits2integer, integer2bytes<->integer2bits, swapbytes<->swapbytesinbits} and the Bitwise/Bytewise sites satisfy the unit arithmetic with factor 8 (helper axioms A1/A2 are assumed, not proved); *swapped-parameter = wrapper* -- BytesInteger's conditional swap step sits next to the stream in both directions (C01.R4) and ByteSwapped wraps with the same involution over exactly sizeof bytes (C10); *enum merge* -- Enum/FlagsEnum.__init__ write entry.name -> entry.value of each merged class into the keyword mapping before deriving their tables. Plus (R1) the undocumented-by-arrow laws named in the property: Padding vs Padded(n, Pass), AlignedStruct, x[n] vs Array, a + b vs Struct, a >> b vs Sequence; (R5) Hex/HexDump wrappers are display-only. (R6) what the alias, integer and Restreamed laws additionally rest on, shared: the 49 public numeric names are bound to the constructor terms the laws name (C03.R1), the bit-string helpers have their reference forms (C10.R5), RestreamedBytesIO is a FIFO that refuses leftovers on close (C10.R4). (R7) both sides of a law compile: the generated code of the classes the laws mention agrees with their interpreter methods (shared with C04.R3/R7).",
    "undecided": "Extensional equality over all inputs; the helper axioms A1 bytes2integer(d) = bits2integer(bytes2bits(d)), A2 swapbytesinbits . bytes2bits = bytes2bits . swapbytes, A3 BytesIO(d).read(len(d)) = d, A4 iterating an enum class yields members with .name/.value.",
    "trusted_base": ["python ast (3.12)", "sa.summ summariser", "sa/tables.py"],
    "assumptions": ["axioms A1-A4"],
}


def law_lines(M):
    """[(file, lineno, text)] for every line containing <--> (continuation lines joined until brackets balance)."""
    out = []
    files = [(rel, M.sources[rel]) for rel in M.sources if rel.endswith("core.py")]
    docs = os.path.join(M.root, "docs")
    if os.path.isdir(docs):
        for f in sorted(os.listdir(docs)):
            if f.endswith(".rst"):
                with open(os.path.join(docs, f), encoding="utf-8") as fh:
                    files.append(("docs/" + f, fh.read()))
    for rel, text in files:
        lines = text.splitlines()
        i = 0
        while i < len(lines):
            if "<-->" in lines[i]:
                t = lines[i].strip()
                j = i
                while t.count("(") > t.count(")") and j + 1 < len(lines) and j - i < 12:
                    j += 1
                    t += " " + lines[j].strip()
                out.append((rel, i + 1, t))
                i = j
            i += 1
    return out


def expr_term(node, params=()):
    """Documentation expression -> constructor term (names that are macro parameters become params)."""
    if isinstance(node, ast.Constant):
        return N.const(node.value) if node.value is not Ellipsis else ("...",)
    if isinstance(node, ast.Name):
        return ("param", node.id) if node.id in params else ("free", node.id)
    if isinstance(node, ast.Call) and isinstance(node.func, ast.Name):
        args = tuple(expr_term(a, params) for a in node.args)
        kws = tuple((k.arg, expr_term(k.value, params)) for k in node.keywords)
        if node.func.id[:1].isupper():
            return ("ctor", node.func.id, args, kws)
        return ("call", ("free", node.func.id), args, kws)
    if isinstance(node, ast.Call) and isinstance(node.func, ast.Call) is False and isinstance(node.func, ast.Name) is False:
        f = expr_term(node.func, params)
        return ("call", f, tuple(expr_term(a, params) for a in node.args), tuple((k.arg, expr_term(k.value, params)) for k in node.keywords))
    if isinstance(node, ast.BinOp):
        from ..summ import _OPS
        return N.mk_bin(_OPS[type(node.op)], expr_term(node.left, params), expr_term(node.right, params))
    if isinstance(node, ast.Subscript):
        return ("sub", expr_term(node.value, params), expr_term(node.slice, params))
    if isinstance(node, ast.Attribute):
        return ("attr", expr_term(node.value, params), node.attr)
    if isinstance(node, ast.Lambda):
        names = [a.arg for a in node.args.args]
        body = expr_term(node.body, ())
        m = {("free", n): ("bv", i) for i, n in enumerate(names)}
        return ("lam", len(names), N.rebuild(body, m), ())
    raise ValueError("unsupported documentation expression %s" % ast.dump(node)[:60])


def reduce_aliases(M, t, sing, sigs):
    """Replace singleton names by their constructor term with defaults filled (positional form)."""
    if not isinstance(t, tuple):
        return t
    if t[0] == "free" and t[1] in sing:
        r = M.singleton_ctor(t[1], sing)
        if r and r[0] == "ctor":
            return reduce_aliases(M, expr_term(r[1]), sing, sigs)
        return t
    if t[0] == "ctor":
        args = tuple(reduce_aliases(M, a, sing, sigs) for a in t[2])
        kws = tuple((k, reduce_aliases(M, v, sing, sigs)) for k, v in t[3])
        name = t[1]
        if name in M.classes and M.init_signature(name) is not None:
            a = M.init_signature(name)
            names = [x.arg for x in a.args][1:]
            dfl = {}
            for x, dv in zip(reversed(names), reversed(a.defaults)):
                try:
                    dfl[x] = N.const(ast.literal_eval(dv))
                except Exception:
                    dfl[x] = ("free", ast.unparse(dv))
            bound = dict(dfl)
            for n_, v in zip(names, args):
                bound[n_] = v
            for k, v in kws:
                bound[k] = v
            if a.vararg is None and a.kwarg is None and all(n_ in bound for n_ in names):
                return ("ctor", name, tuple(bound[n_] for n_ in names), ())
        return ("ctor", name, args, kws)
    return tuple(reduce_aliases(M, x, sing, sigs) if isinstance(x, tuple) else x for x in t)


def macro_term(ctx, name, branch=None):
    """Returned constructor term(s) of a macro function."""
    fi = ctx.model.function(name)
    paths = paths_of(ctx, fi)
    out = []
    for p in paths:
        if p.returns and p.retval[0] == "ctor":
            streaming = any(e.kind == "CATCH" for e in p.events)
            out.append((streaming, p.retval))
    return fi, out


def match_ellipsis(doc, code, bind=None, known=()):
    """doc term may contain Struct(...) meaning 'the macro's own arguments'; documentation placeholders (names that
    denote nothing in the package) unify consistently with the macro's parameters."""
    bind = {} if bind is None else bind
    if doc == code:
        return True
    if doc[0] in ("param", "free") and code[0] == "param" and doc[1] not in known:
        if bind.setdefault(doc[1], code[1]) == code[1] and list(bind.values()).count(code[1]) == 1:
            return True
        return False
    if doc[0] not in ("ctor", "c", "param", "free") and isinstance(doc, tuple) and isinstance(code, tuple) and len(doc) == len(code) and doc[0] == code[0]:
        return all((match_ellipsis(a, b, bind, known) if isinstance(a, tuple) and isinstance(b, tuple) and a and b and isinstance(a[0], str) else
                    (len(a) == len(b) and all(match_ellipsis(x, y, bind, known) for x, y in zip(a, b)) if isinstance(a, tuple) and isinstance(b, tuple) else a == b)) for a, b in zip(doc[1:], code[1:]))
    if doc[0] == "ctor" and code[0] == "ctor" and doc[1] == code[1]:
        if doc[2] == (("...",),) and not doc[3]:
            return all(a[0] in ("star",) or a[0] == "param" for a in code[2]) and all(k == "**" for k, v in code[3])
        if len(doc[2]) == len(code[2]) and len(doc[3]) == len(code[3]):
            return all(match_ellipsis(a, b, bind, known) for a, b in zip(doc[2], code[2])) and all(k1 == k2 and match_ellipsis(v1, v2, bind, known) for (k1, v1), (k2, v2) in zip(doc[3], code[3]))
    return False


def documented_defaults(ctx, rule):
    """Where the documentation of a class or macro states the default of a parameter (":param x: ..., default is V"), the signature has that default."""
    M = ctx.model
    pat = re.compile(r":param\s+\\?\*{0,2}(\w+):.*?default is\s+(\S+)")
    def value_of(tok):
        tok = tok.rstrip(".,;)")
        if tok in ("False", "True", "None"):
            return {"False": False, "True": True, "None": None}[tok]
        if re.fullmatch(r"-?\d+", tok):
            return int(tok)
        if tok in ("\\x00", "\x00", "\\\\x00"):
            return b"\x00"
        return ("?", tok)
    n = 0
    targets = []
    for ci in M.classes.values():
        doc = ast.get_docstring(ci.node, clean=False)
        if doc and "__init__" in ci.methods:
            targets.append((ci.name, doc, ci.methods["__init__"], ci.relpath))
    for name, mf in M.macros().items():
        doc = ast.get_docstring(mf.node, clean=False)
        if doc:
            targets.append((name, doc, mf.node, mf.relpath))
    for name, doc, fn, rel in targets:
        a = fn.args
        names = [x.arg for x in a.args]
        dfl = dict(zip(names[len(names) - len(a.defaults):], a.defaults))
        dfl.update({k.arg: v for k, v in zip(a.kwonlyargs, a.kw_defaults) if v is not None})
        for m in pat.finditer(doc):
            prm, tok = m.group(1), m.group(2)
            want = value_of(tok)
            if isinstance(want, tuple):
                continue
            n += 1
            have = dfl.get(prm)
            try:
                got = ast.literal_eval(have) if have is not None else ("no default",)
            except Exception:
                got = ("non-literal", ast.unparse(have))
            ctx.ob(rule, name, got == want and type(got) == type(want), "%s(%s=...): documented default %r, signature default %r" % (name, prm, want, got), key="%s default %s" % (name, prm), loc="%s:%d" % (rel, fn.lineno))
    return n



def composite_operators(ctx, rule):
    """a + b is Struct(*(members of a + members of b)), a >> b the same with Sequence; the operands themselves are left as they were."""
    for dunder, cls in (("__add__", "Struct"), ("__rshift__", "Sequence")):
        fi, paths = own_method_paths(ctx, "Construct", dunder)
        o = ("param", "other")
        isS = lambda x: ("call", ("free", "isinstance"), (x, ("free", cls)), ())
        rets = [p for p in paths if p.returns]
        ok = len(rets) == len(paths) and {(decided(p, isS(SELF)), decided(p, isS(o))) for p in rets} == {(a_, b_) for a_ in (True, False) for b_ in (True, False)}
        for p in rets:
            r = p.retval
            lhs = ("attr", SELF, "subcons") if decided(p, isS(SELF)) else ("list", (SELF,))
            rhs = ("attr", o, "subcons") if decided(p, isS(o)) else ("list", (o,))
            ok = ok and r[0] == "ctor" and r[1] == cls and len(r[2]) == 1 and r[2][0][0] == "star" and r[2][0][1] in (("uconcat", lhs, rhs), ("concat", lhs, rhs))
        ctx.ob(rule, fi, ok, "a %s b is %s(*(members of a + members of b)), flattening %s operands only" % ("+" if cls == "Struct" else ">>", cls, cls), key=dunder)
        pure = not any(e.kind in ("SELFWRITE", "MUT", "STORE") for p in paths for e in p.events)
        ctx.ob(rule, fi, pure, "a %s b builds a new member list: neither operand's own list is extended in place (the composite on the left would grow with every derivation)" % ("+" if cls == "Struct" else ">>"), key=dunder + " operands untouched")


def enum_merge(ctx, rule, cls, prefix="", key=None, loc=None):
    """Enum / FlagsEnum merge an enum class by writing name -> value of each *canonical* member (iterating the class skips aliases; iterating
    __members__ does not, and an alias would replace the canonical label in the decode table) into the keyword mapping, unconditionally,
    before the tables are derived.  Recognised spellings: a store loop over the class, or mapping.update(<generator over the class>)."""
    fi, paths = own_method_paths(ctx, cls, "__init__")
    dst = ("param", "**mapping") if cls == "Enum" else ("param", "**flags")
    good = False
    every = True
    why = ""
    undecided = None
    for p in paths:
        inner_iters = [e for e in p.events if e.kind == "ITER" and len(e.loops) >= 2]
        st = [e for e in p.events if e.kind == "STORE" and e["base"] == dst]
        up = [e for e in p.events if e.kind == "MUT" and e["base"] == dst and e["method"] == "update"]
        wr = [e for e in p.events if e.kind == "SELFWRITE" and e["base"] == SELF and e["attr"] in ("encmapping", "decmapping", "flags")]
        if inner_iters and not st:
            every = False       # an entry of a merged enum class was skipped (e.g. a member whose value is 0)
        if any(e["key"][0] == "attr" and any(g != e["key"][1] and N.contains(g, e["key"][1]) for g in p.guards()) for e in st):
            every = False       # the store is conditional on the entry
        if st:
            e = st[0]
            src = e["key"][1] if e["key"][0] == "attr" else None
            good = e["key"][0] == "attr" and e["key"][2] == "name" and e["value"][0] == "attr" and e["value"][2] == "value" and e["key"][1] == e["value"][1] \
                and all(p.index(e) < p.index(w) for w in wr) and bool(wr)
            if good and src is not None and any(x[0] == "attr" and x[2] == "__members__" for x in N.walk(src)):
                good, why = False, " (iterates __members__, which includes aliases)"
        elif up:
            e = up[0]
            arg = e["args"][0] if len(e["args"]) == 1 else None
            # one generator inside a loop over the merged classes, or both loops as generators of one comprehension
            gens = arg[3] if arg is not None and arg[0] == "comp" else ()
            if arg is not None and arg[0] == "comp" and ((len(gens) == 1 and e.loops) or (len(gens) == 2 and not e.loops)) and not any(g[1] for g in gens) \
                    and arg[2][0] == "tuple" and len(arg[2][1]) == 2:
                it = gens[-1][0]
                k, v = arg[2][1]
                outer_ok = len(gens) == 1 or (gens[0][0] == ("param", "*merge") and it[0] == "elem" and it[1] == gens[0][0])
                if any(x[0] == "attr" and x[2] == "__members__" for g in gens for x in N.walk(g[0])):
                    good, why = False, " (iterates __members__, which includes aliases)"
                elif outer_ok and it[0] == "elem" and k[0] == "attr" and k[2] == "name" and v[0] == "attr" and v[2] == "value" and k[1] == v[1] and k[1][0] == "elem" and k[1][1] == it:
                    good = all(p.index(e) < p.index(w) for w in wr) and bool(wr)
                else:
                    undecided = N.show(arg)[:120]
            else:
                undecided = N.show(arg)[:120] if arg is not None else "update() without a single argument"
    if undecided:
        ctx.error("%s undecided: %s.__init__ merges enum classes in a form the rule does not know (%s)" % (rule, cls, undecided))
    ctx.ob(rule, fi, good and every, "%severy canonical entry of a merged enum class is written, unconditionally, as name -> value into the keyword mapping before the tables are derived%s" % (prefix, why),
           key=key or "%s enum merge" % cls, loc=loc)

def run(ctx):
    M = ctx.model
    sing = M.singletons()
    macros = M.macros()
    laws = law_lines(M)
    ctx.extra["law_lines"] = len(laws)
    distinct = {}
    for rel, ln, text in laws:
        distinct.setdefault(re.sub(r"\s+", " ", text), []).append("%s:%d" % (rel, ln))
    ctx.extra["distinct_laws"] = len(distinct)
    if len(distinct) < 20:
        ctx.error("C12.R2: only %d distinct <--> laws found, floor 20" % len(distinct))

    # shared discharges
    def sub_ok(fn, *a):
        from ..core import Ctx
        c2 = Ctx("C12", ctx.tier, ctx.root, model=M)
        c2._summ = summariser(ctx)
        fn(c2, *a)
        return all(o.ok for o in c2.obligations) and bool(c2.obligations), [o.what for o in c2.obligations if not o.ok]

    def parallel_structure():
        ren = {"bytes2integer": "X2integer", "bits2integer": "X2integer", "integer2bytes": "integer2X", "integer2bits": "integer2X", "swapbytes": "swapX", "swapbytesinbits": "swapX"}
        res = True
        for meth in ("_parse", "_build", "_sizeof"):
            sigs = []
            for cls in ("BytesInteger", "BitsInteger"):
                fi, paths = own_method_paths(ctx, cls, meth)
                s = set()
                for p in paths:
                    if any(e.kind == "CATCH" for e in p.events):
                        continue                # error translation paths: their extent differs (swapbytesinbits can raise ValueError, swapbytes cannot)
                    row = []
                    for e in p.events:
                        if e.kind in ("TRY", "CATCH", "ENDCATCH", "RETURN"):
                            continue            # (the outcome is appended below; the return of a helper S ran in place is not an effect)
                        sig = e.sig()
                        if e.kind == "RAISE":
                            d = dict(sig[1])
                            sig = ("RAISE", d.get("cls"), d.get("path"))
                        row.append(sig)
                    o = p.outcome
                    row.append((o[0], o[1] if o[0] == "return" else (o[1].get("cls") if o[0] == "raise" else None)))
                    m = {("free", k): ("free", v) for k, v in ren.items()}
                    s.add(N.rebuild(tuple(row), m))
                sigs.append(s)
            # implicit-raise paths depend on handler extents: compare explicit outcomes only
            f = lambda ss: {r for r in ss if not (r[-1][0] == "raise" and r[-1][1] is None)}
            res = res and f(sigs[0]) == f(sigs[1])
        return res

    units_ok, units_why = sub_ok(lambda c: C10.check_macros(c, ("Bitwise", "Bytewise"), "x", "x", "x"))
    swap_ok, swap_why = sub_ok(lambda c: C10.check_macros(c, ("ByteSwapped",), "x", "x", "x"))
    dual_ok, dual_why = sub_ok(lambda c: C01.check_integer_duality(c, "BytesInteger"))
    par_ok = parallel_structure()

    n = 0
    for text, where in sorted(distinct.items()):
        n += 1
        loc = where[0]
        sides = [s.strip() for s in text.split("<-->")]
        lhs = sides[0]
        key = "law %s" % text[:120]
        try:
            # ---- chain law (Int24ul ...)
            terms = []
            for s in sides:
                try:
                    terms.append(expr_term(ast.parse(s, mode="eval").body))
                except SyntaxError:
                    terms.append(None)
            lname = terms[0][1] if terms[0] and terms[0][0] == "free" else None
            # operator laws
            if terms[0] and terms[0][0] in ("bin", "lin", "mul", "uconcat", "concat", "fmt") or re.match(r'^("\w+"\s*/|\w+\s*\*)', lhs):
                node = ast.parse(lhs, mode="eval").body
                rhs = terms[1]
                if isinstance(node.op, ast.Div):
                    fi, paths = own_method_paths(ctx, "Construct", "__rtruediv__")
                    got = [p.retval for p in paths if p.returns]
                    ok = got == [("ctor", "Renamed", (SELF,), (("newname", ("param", "name")),))] and rhs[0] == "ctor" and rhs[1] == "Renamed" and [k for k, v in rhs[3]] == ["newname"]
                else:
                    want_kw = [k for k, v in rhs[3]][0] if rhs and rhs[0] == "ctor" and rhs[3] else None
                    ok = True
                    for dunder in ("__mul__", "__rmul__"):
                        fi, paths = own_method_paths(ctx, "Construct", dunder)
                        o = ("param", "other")
                        isstr = ("call", ("free", "isinstance"), (o, ("free", "str")), ())
                        iscall = ("call", ("free", "callable"), (o,), ())
                        branch = isstr if want_kw == "newdocs" else iscall
                        rets = [p.retval for p in paths if p.returns and branch in p.guards() and (want_kw == "newdocs" or N.mk_not(isstr) in p.guards())]
                        ok = ok and rets == [("ctor", "Renamed", (SELF,), ((want_kw, o),))]
                ctx.ob("C12.R2", "law", ok, "operator law `%s`: the operator returns the stated Renamed term" % text, key=key, loc=loc)
                from . import C18 as _C18
                if not getattr(ctx, "_renamed_init_done", False):
                    ctx._renamed_init_done = True
                    _C18.renamed_init(ctx, "C12.R2")          # ... and Renamed(x, newname=n) really carries the name n
                continue
            if len(sides) > 2 or (lname and lname.startswith("Int24")) or (lhs.startswith("ByteSwapped")):
                red = [reduce_aliases(M, t, sing, None) for t in terms]
                ok = True
                why = []
                for a, b in zip(red, red[1:]):
                    if a == b:
                        continue
                    # swapped-parameter == wrapper
                    pair = {N.show(a), N.show(b)}
                    is_sw = any(t[0] == "ctor" and t[1] == "BytesInteger" and t[2][2] == N.TRUE for t in (a, b)) and any(t[0] == "ctor" and t[1] == "ByteSwapped" for t in (a, b))
                    if is_sw and swap_ok and dual_ok:
                        continue
                    ok = False
                    why.append("%s vs %s" % (N.show(a), N.show(b)))
                ctx.ob("C12.R2", "law", ok, "chain law `%s`: adjacent sides reduce to the same term or to swapped-parameter vs ByteSwapped wrapper %s" % (text, "; ".join(why + swap_why + dual_why)), key=key, loc=loc)
                continue
            rhs = terms[1]
            # ---- alias laws
            if lname in sing and lname not in macros:
                a = reduce_aliases(M, terms[0], sing, None)
                b = reduce_aliases(M, rhs, sing, None)
                ctx.ob("C12.R2", "law", a == b and a[0] == "ctor", "alias law `%s`: both sides reduce to %s / %s" % (text, N.show(a), N.show(b)), key=key, loc=loc)
                continue
            # ---- macro literal laws
            if lname in macros:
                fi, got = macro_term(ctx, lname)
                params = [a.arg for a in fi.node.args.args]
                doc = expr_term(ast.parse(sides[1], mode="eval").body, params=set(params) | {"subcon", "condfunc", "countfield"})
                if lname in ("Bitwise", "Bytewise"):
                    cand = [t for streaming, t in got if streaming]
                else:
                    cand = [t for streaming, t in got]
                known = set(M.classes) | set(sing) | set(M.functions) | {"this", "len_", "obj_", "list_", "Pass"}
                ok = bool(cand) and all(match_ellipsis(doc, t, {}, known) for t in cand)
                ctx.ob("C12.R2", fi, ok, "macro law `%s`: the macro returns %s" % (text, " / ".join(N.show(t) for t in cand)), key=key, loc=loc)
                # ... and returns it as constructed: the only attributes a law macro may set on the result are emitter hooks (_emit*), which
                # do not take part in parse / build / sizeof, and the size probe _actualsize (checked against the expansion by C16.R6, shared as R6); any other patched attribute (a flag, a member) makes the two sides differ
                patched = sorted({e["attr"] for p in paths_of(ctx, fi) for e in p.events if e.kind == "ATTRSET" and e["base"][0] == "ctor" and not str(e["attr"]).startswith("_emit") and e["attr"] != "_actualsize"})
                ctx.ob("C12.R2", fi, not patched, "macro law `%s`: the construct is returned as constructed (attributes set afterwards: %s)" % (text, patched or "only emitter hooks"), key=key + " unpatched", loc=loc)
                continue
            # ---- BytesInteger / BitsInteger laws
            if lhs.startswith(("BytesInteger(", "BitsInteger(")) and ("Bitwise(" in sides[1] or "Bytewise(" in sides[1]):
                inner = rhs[2][0] if rhs and rhs[0] == "ctor" and rhs[2] else None
                factor_ok = False
                if terms[0][0] == "ctor" and inner is not None and inner[0] == "ctor":
                    a0, b0 = terms[0][2][0], inner[2][0]
                    nparam = ("free", "n")
                    eight = N.mk_mul(N.const(8), nparam)
                    factor_ok = {a0, b0} == {nparam, eight} and ((terms[0][1] == "BytesInteger") == (a0 == nparam)) and dict(terms[0][3]) == dict(inner[3])
                ok = factor_ok and par_ok and units_ok
                ctx.ob("C12.R2", "law", ok, "integer law `%s`: widths differ by the factor 8 of the bit-string representation, BytesInteger/BitsInteger are parallel under the helper renaming (%s) and the Bitwise/Bytewise unit arithmetic holds (%s)" % (text, par_ok, units_ok and "ok" or units_why), key=key, loc=loc)
                continue
            # ---- enum merge laws
            if lhs.startswith(("Enum(", "FlagsEnum(")):
                enum_merge(ctx, "C12.R2", lhs.split("(")[0], "enum law `%s`: " % text, key=key, loc=loc)
                continue
            raise ValueError("no discharge method")
        except (ValueError, SyntaxError, IndexError, KeyError, TypeError) as e:
            ctx.error("C12.R2: law `%s` (%s) fits no discharge method: %s" % (text, loc, e))
    ctx.floor("C12.R2", 20)

    # ---------------------------------------------------------------- R8 documented defaults: ":param x: ... default is V" in a docstring vs the signature
    documented_defaults(ctx, "C12.R8")
    ctx.floor("C12.R8", 12)

    # ---------------------------------------------------------------- R3 what the alias / integer laws additionally rest on
    from . import C03
    C03.native_check(ctx, "C12.R3")
    C03.helper_range_checks(ctx, "C12.R3")      # BytesInteger(n) vs Bitwise(BitsInteger(8n)): both helper families accept exactly the two's-complement range
    ctx.floor("C12.R3", 6)
    # the public fixed-width names are bound to the FormatField / BytesInteger instances the alias laws name (C03.R1), the bit-string helpers
    # the integer laws rest on have their reference form (C10.R5), and the Restreamed machinery behind Bitwise <--> Restreamed(...) is a FIFO that refuses leftovers (C10.R4)
    from ..core import Ctx as _Ctx
    from . import C16
    # closures patched onto the PrefixedArray/PascalString macros must agree with the documented expansion: the size probe (C16.R6)
    for mod, rules in ((C03, ("C03.R1",)), (C10, ("C10.R4", "C10.R5")), (C16, ("C16.R6",))):
        sub = shared_run(ctx, mod)
        for e in relevant_errors(sub, rules):
            ctx.error("shared %s rules: %s" % (sub.prop, e))
        for o in sub.obligations:
            if o.rule in rules:
                ctx.ob("C12.R6", o.where, o.ok, o.what, key=o.key, loc=o.loc, detail=o.detail)
    ctx.floor("C12.R6", 99 + 16 + 20 + 3)
    from . import C04
    C04.shared_obligations(ctx, "C12.R7", {"BitsInteger", "BytesInteger", "FormatField", "Padded", "Select", "IfThenElse", "Enum", "FlagsEnum", "Hex", "HexDump", "Struct", "FocusedSeq", "Array", "PrefixedArray", "If", "Optional", "Padding", "BitStruct", "Bitwise", "Bytewise"}, with_expressions=True)
    ctx.floor("C12.R7", 10)

    # ---------------------------------------------------------------- R1
    fi = M.function("Padding")
    paths = paths_of(ctx, fi)
    r = [p.retval for p in paths if p.returns]
    ok = r == [("ctor", "Padded", (("param", "length"), ("free", "Pass")), (("pattern", ("param", "pattern")),))]
    d1 = ast.unparse(fi.node.args.defaults[-1]) if fi.node.args.defaults else None
    a = M.init_signature("Padded")
    d2 = ast.unparse(a.defaults[-1]) if a.defaults else None
    ctx.ob("C12.R1", fi, ok and d1 == d2, "Padding(n, pattern) is Padded(n, Pass, pattern=pattern) with the same default pattern (%s / %s)" % (d1, d2), key="Padding")
    fi = M.function("AlignedStruct")
    paths = paths_of(ctx, fi)
    r = N.canon_lids(paths[0].retval) if len(paths) == 1 else None
    ok = r is not None and r[0] == "ctor" and r[1] == "Struct" and len(r[2]) == 1 and r[2][0][0] == "star" and r[2][0][1][0] == "comp"
    if ok:
        c = r[2][0][1]
        el = c[2]
        ok = el[0] == "bin" and el[1] == "/" and el[2][0] == "attr" and el[2][2] == "name" and el[3][0] == "ctor" and el[3][1] == "Aligned" and el[3][2][0] == ("param", "modulus") and el[3][2][1] == el[2][1]
    ctx.ob("C12.R1", fi, ok, "AlignedStruct(m, ...) is Struct(*[sc.name / Aligned(m, sc) for each member])", key="AlignedStruct")
    fi, paths = own_method_paths(ctx, "Construct", "__getitem__")
    cnt = ("param", "count")
    sl = [p for p in paths if ("call", ("free", "isinstance"), (cnt, ("free", "slice")), ()) in p.guards()]
    arr = [p for p in paths if p.returns]
    ok = bool(sl) and all(p.outcome[0] == "raise" for p in sl) and bool(arr) and all(p.retval == ("ctor", "Array", (cnt, SELF), ()) for p in arr)
    ctx.ob("C12.R1", fi, ok, "x[n] is Array(n, x) and slices are rejected", key="getitem")
    isint, iscall = ("call", ("free", "isinstance"), (cnt, ("free", "int")), ()), ("call", ("free", "callable"), (cnt,), ())
    other = [p for p in paths if p.outcome[0] == "raise" and p not in sl]
    def _flat(p):
        out = set()
        for g in p.guards():
            out |= set(g[2]) if g[0] == "bool" and g[1] == "and" else {g}
        return out
    ctx.ob("C12.R1", fi, all({N.mk_not(isint), N.mk_not(iscall)} <= _flat(p) for p in other), "x[n] accepts every integer and every callable count (it refuses only what is neither)", key="getitem accepts")
    composite_operators(ctx, "C12.R1")
    ctx.floor("C12.R1", 7)

    # ---------------------------------------------------------------- R5 display wrappers
    hexrel = [r for r in M.modules if r.endswith("hex.py")][0]
    base_of = {"int": "int", "bytes": "bytes", "dict": "dict"}
    for cls in ("Hex", "HexDump"):
        fi, paths = method_paths(ctx, cls, "_decode")        # own or inherited (HexDump may be a subclass of Hex that overrides class-level constants)
        for p in paths:
            if not p.returns:
                continue
            r = p.retval
            if r == OBJ:
                continue
            # isinstance(obj, T) guard selects a display subclass of T
            flatg = []
            for c in p.guards():
                flatg.extend(c[2] if c[0] == "bool" and c[1] == "and" else (c,))
            g = [c for c in flatg if c[0] == "call" and c[1] == ("free", "isinstance") and c[2][0] == OBJ]
            T = g[-1][2][1][1] if g else None
            dc = None
            if r[0] == "new":
                dc = r[1]
            elif r[0] == "call" and r[1][0] == "attr" and r[1][1][0] == "free":
                dc = r[1][1][1]
            ci = M.classes.get(dc)
            extra = set(ci.methods) - {"__str__", "new"} if ci else {"?"}
            ok = ci is not None and ci.relpath == hexrel and ci.bases == [T] and not extra
            ctx.ob("C12.R5", fi, ok, "%s._decode wraps a %s in %s, a subclass of %s that only changes __str__" % (cls, T, dc, T), key="%s %s" % (cls, dc))
        fe, pe = method_paths(ctx, cls, "_encode")
        ctx.ob("C12.R5", fe, len(pe) == 1 and pe[0].retval == OBJ, "%s._encode is the identity" % cls, key="%s encode" % cls)
        subs = [e for p in paths for e in p.events if e.kind == "SUB"]
        ctx.ob("C12.R5", fi, all(e["m"] in PROTO_SUB and e.a.get("ctx") == CTX and e.a.get("path") == PATH for e in subs),
               "%s._decode consults the wrapped construct only within the running parse (same context and path), so it cannot fail where the bare construct succeeds" % cls, key="%s no re-entry" % cls)
    # the display classes are built from the value unchanged: `new(value, ...)` constructs DisplayClass(value) on every path, and
    # Hex/HexDump hand `new` the parsed object itself as that value
    for dcls in ("HexDisplayedInteger", "HexDisplayedBytes", "HexDisplayedDict", "HexDumpDisplayedBytes", "HexDumpDisplayedDict"):
        if dcls not in M.classes or "new" not in M.cls(dcls).methods:
            continue
        fn = M.method(dcls, "new")
        first = fn.node.args.args[0].arg if fn.node.args.args else None
        ps = paths_of(ctx, fn, dcls)
        news = [e for p in ps for e in p.events if e.kind == "NEW" and e["cls"] == dcls]
        ok = bool(news) and all(tuple(e["args"]) == (("param", first),) for e in news) and all(p.retval is not None and p.retval[0] == "new" and p.retval[1] == dcls for p in ps if p.returns)
        ctx.ob("C12.R5", fn, ok, "%s.new wraps its first argument unchanged (no arithmetic on the value: the wrapper is display-only)" % dcls, key="%s value unchanged" % dcls)
    for cls in ("Hex", "HexDump"):
        fi, paths = method_paths(ctx, cls, "_decode")
        calls = [e for p in paths for e in p.events if (e.kind == "CALL" and e["func"][0] == "attr" and e["func"][2] == "new") or (e.kind == "NEW" and str(e["cls"]).startswith("Hex"))]
        ctx.ob("C12.R5", fi, bool(calls) and all(tuple(e["args"])[:1] == (OBJ,) for e in calls), "%s._decode hands the display class the parsed object itself" % cls, key="%s passes obj" % cls)
    # a display wrapper accepts whatever the bare construct produced: _decode either cannot fail, or every sub-construct call in it that can
    # (sizeof of a variable-size construct raises SizeofError) sits in a handler for that error -- Hex(x) must parse what x parses
    for cls in ("Hex", "HexDump"):
        fi, paths = method_paths(ctx, cls, "_decode")
        risky = {}
        for p in paths:
            for e in p.events:
                if e.kind == "SUB" and e["m"] in ("_sizeof", "sizeof", "_actualsize"):
                    covered = any(t.kind == "TRY" and t["tid"] in (e.trys or ()) and any(set(h) & {"SizeofError", "ConstructError", "Exception", "BaseException", "*"} for h in t["handlers"]) for t in p.events)
                    risky[id(e.node)] = (risky.get(id(e.node), True) and covered, e)
        raises = [p for p in paths if p.outcome[0] == "raise" and p.outcome[1].get("cls") is not None]
        ctx.ob("C12.R5", fi, all(okk for okk, _ in risky.values()) and not raises, "%s._decode cannot reject a value the wrapped construct parsed (%s)" % (
            cls, "asks the wrapped construct for its size outside a SizeofError handler" if risky and not all(okk for okk, _ in risky.values()) else ("raises" if raises else "no failing call")), key="%s decode total" % cls)
    ctx.floor("C12.R5", 9 + 5)
    ctx.control("C12.R2", expr_term(ast.parse("Select(Pass, subcon)", mode="eval").body, {"subcon"}) != ("ctor", "Select", (("param", "subcon"), ("free", "Pass")), ()))
