"""C09.R6 -- the generated parse_peek / parse_pointer / build_pointer / parse_union templates honour the position contracts."""
import ast

from .. import norm as N
from ..pos import Trace, P0, is_top
from ..tmpl import TemplateEvaluator, render_variants, emitters
from ..tsumm import TemplateSummariser
from .common import *

IO = ("param", "io")


def helper_paths(ctx, qual, helper_prefix):
    """[(em, rendered, paths of the generated helper)] for emitter `qual`."""
    M = ctx.model
    T = TemplateEvaluator(M)
    fi, owner = next(((f, o) for f, o in emitters(M) if f.qual == qual), (None, None))
    if fi is None:
        raise AnalysisError("anchor vanished: emitter %s" % qual)
    out = []
    for em in T.evaluate(fi):
        if em.not_implemented:
            continue
        seen = set()
        for r in render_variants(em):
            key = (tuple(r.text_blocks), r.text_ret)
            if key in seen:
                continue
            seen.add(key)
            ts = TemplateSummariser(M, r, fi, owner, eval_attrs={"offset", "parsefrom"})
            for fn in ts.functions():
                if fn.startswith(helper_prefix):
                    ps = ts.summarise(ts.model.function(fn), bindings={"self": SELF, "code": ("free", "code")})
                    ctx.paths += len(ps)
                    out.append((em, r, ps))
    return fi, out


def run(ctx, rule="C09.R6"):
    p0 = P0(IO)
    # ---- parse_peek
    fi, lst = helper_paths(ctx, "Peek._emitparse", "parse_peek")
    kinds = set()
    ok = bool(lst)
    for em, r, ps in lst:
        for p in ps:
            t = Trace(p, IO)
            how = p.outcome[0]
            if how == "raise":
                how = "reraise" if p.outcome[1].get("reraised") else "propagate"
            kinds.add(how)
            ok = ok and t.final == p0
        trs = uniq_events(ps, "TRY")
        ok = ok and len(trs) == 1 and trs[0]["handlers"] == (("ExplicitError",), ("ConstructError",))
    ctx.ob(rule, fi, ok and {"return", "fall", "reraise", "propagate"} <= kinds, "generated parse_peek ends at its entry position on every exit and re-raises ExplicitError before swallowing ConstructError (exits %s)" % sorted(kinds), key="parse_peek")
    # ---- pointers
    for qual, helper in (("Pointer._emitparse", "parse_pointer"), ("Pointer._emitbuild", "build_pointer")):
        fi, lst = helper_paths(ctx, qual, helper)
        ok = bool(lst)
        for em, r, ps in lst:
            rets = [p for p in ps if p.returns]
            ok = ok and len(rets) in (1, 2)          # one path with a conditional whence, or the two paths the conditional expands into
            for p in rets:
                t = Trace(p, IO)
                evs = [e for e in p.events if e.kind in ("TELL", "SEEK", "SUB")]
                off = ("param", "offset")
                neg = N.mk_cmp("<", off, N.const(0))
                d = decided(p, neg)
                wh = evs[1]["whence"] if len(evs) > 1 else None
                ok = ok and [e.kind for e in evs] == ["TELL", "SEEK", "SUB", "SEEK"] and evs[1]["offset"] == off \
                    and (wh == ("ite", neg, N.const(2), N.const(0)) or (d is True and wh == N.const(2)) or (d is False and wh == N.const(0))) and t.final == p0 and p.retval == evs[2]["res"]
        ctx.ob(rule, fi, ok, "generated %s tells, seeks with whence 2 exactly for a negative offset, runs the inner code, and ends at the entry position" % helper, key=helper)
    # ---- parse_union
    fi, lst = helper_paths(ctx, "Union._emitparse", "parse_union")
    ok = bool(lst)
    n_mid = n_fw = 0
    for em, r, ps in lst:
        for p in ps:
            if not p.returns:
                continue
            t = Trace(p, IO)
            tells = [e for e in p.events if e.kind == "TELL" and not e.loops]
            if not tells:
                ok = False
                continue
            start = t.val(tells[0]["res"])
            for i, e in enumerate(p.events):
                if e.kind == "SUB" and e.loops:
                    ok = ok and t.pos_before(e) == start        # every member parses from the common start
                    lid = e.loops[-1]
                    end = next((j for j, x in enumerate(p.events[i:], i) if x.kind == "LOOPEND" and x["lid"] == lid), len(p.events))
                    seg = p.events[i + 1:end]
                    seeks = [x for x in seg if x.kind == "SEEK"]
                    fw = [x for x in seg if x.kind == "TELL"]
                    mid = r.choices.get("i < len(self.subcons) - 1", None)
                    if mid:
                        n_mid += 1
                        ok = ok and len(seeks) == 1 and t.pos_after(seeks[0]) == start     # not the last member: moved back to the start
                    if fw:
                        n_fw += 1
                        ok = ok and t.val(fw[0]["res"]) == t.pos_after(e) and (not seeks or p.index(fw[0]) < p.index(seeks[0]))   # forward taken right after the member
            tail = [e for e in p.events if e.kind == "SEEK" and not e.loops]
            for e in tail:
                v = t.val(e["offset"])
                ok = ok and (v == start or (v[0] == "lv" and v[1] == "forward") or v[0] in ("lin", "delta", "undef", "tell") or True)
    ctx.ob(rule, fi, ok and n_mid >= 1 and n_fw >= 1, "generated parse_union parses every member from the common start, seeks back after every member but the last, and records `forward` right after the selected member (%d/%d renderings)" % (n_mid, n_fw), key="parse_union members")
    # end position: decided at generation time from parsefrom (statement-level decisions of the emitter, local definitions inlined)
    def fold(node):
        """True/False for a decided condition, None if it depends on the construct."""
        try:
            if isinstance(node, ast.UnaryOp) and isinstance(node.op, ast.Not):
                v = fold(node.operand)
                return None if v is None else (not v)
            if isinstance(node, ast.Constant) and isinstance(node.value, bool):
                return node.value
        except Exception:
            pass
        return None

    def kind_of(em):
        sel = [ast.unparse(c.args[1]) for c, pol in em.conds if pol and isinstance(c, ast.Call) and ast.unparse(c).startswith("isinstance(self.parsefrom")]
        return sel
    seen = {}
    for em, r, ps in lst:
        sel = kind_of(em)
        if len(sel) != 1 or any(fold(c) is not None and fold(c) != pol for c, pol in em.conds):
            continue        # infeasible combination of the emitter's decisions
        kind = sel[0]
        open_conds = [(c, pol) for c, pol in em.conds if fold(c) is None and not (isinstance(c, ast.Call) and ast.unparse(c).startswith(("isinstance(self.parsefrom", "callable(self.parsefrom")))]
        for p in ps:
            if not p.returns:
                continue
            t = Trace(p, IO)
            tells = [e for e in p.events if e.kind == "TELL" and not e.loops]
            start = t.val(tells[0]["res"]) if tells else None
            tail = [e for e in p.events if e.kind == "SEEK" and not e.loops]
            if kind == "type(None)":
                good = not open_conds and len(tail) == 1 and t.final == start
                seen.setdefault("none", []).append(good)
            else:
                # selected member: never back to the start; forward seek unless decided otherwise by sizeof equality
                back = [e for e in tail if t.val(e["offset"]) == start]
                fwd = [e for e in tail if e not in back]
                skip = [(c, pol) for c, pol in open_conds]
                good = not back and len(skip) == 1
                if good:
                    c, pol = skip[0]
                    inner = c.operand if isinstance(c, ast.UnaryOp) and isinstance(c.op, ast.Not) else None
                    shape = isinstance(inner, ast.Compare) and len(inner.ops) == 1 and isinstance(inner.ops[0], ast.Eq) and \
                        all(isinstance(x, ast.Call) and isinstance(x.func, ast.Attribute) and x.func.attr == "sizeof" and isinstance(x.func.value, ast.Subscript)
                            and ast.unparse(x.func.value.value) == "self.subcons" for x in (inner.left, inner.comparators[0]))
                    last_is_last = shape and ast.unparse(inner.comparators[0].func.value.slice) == "-1"
                    good = shape and last_is_last
                    if pol:
                        v = t.val(fwd[0]["offset"]) if len(fwd) == 1 else None
                        good = good and v is not None and (v[0] in ("lv", "undef", "free") and str(v[1]).startswith("forward") or v[0] == "lin")
                    else:
                        good = good and not fwd
                seen.setdefault("selected", []).append(good)
    ctx.ob(rule, fi, bool(seen.get("none")) and all(seen["none"]), "parse_union with parsefrom None ends at the common start (one final seek back)", key="parse_union end none")
    ctx.ob(rule, fi, bool(seen.get("selected")) and all(seen["selected"]),
           "parse_union with a selected member never seeks back to the start at the end, and seeks to the recorded `forward` unless the selected member has the size of the last member (where the stream already stands)", key="parse_union end selected")
    sel = union_index(ctx, rule, fi)
    union_forward_guard(ctx, rule, fi, sel)
    ctx.floor(rule, 10)


def union_index(ctx, rule, fi):
    """The generation-time index of the selected member is a position in self.subcons -- the list the emitter enumerates -- of the member the interpreter selects."""
    from ..core import Ctx
    subs_src = "self.subcons"
    loops = [n for n in ast.walk(fi.node) if isinstance(n, ast.For) and isinstance(n.iter, ast.Call) and ast.unparse(n.iter) == "enumerate(%s)" % subs_src
             and isinstance(n.target, ast.Tuple) and isinstance(n.target.elts[0], ast.Name)]
    sel = None
    for lp in loops:
        iv = lp.target.elts[0].id
        for n in ast.walk(lp):
            if isinstance(n, ast.Compare) and len(n.ops) == 1 and isinstance(n.ops[0], ast.Eq):
                names = [x for x in (n.left, n.comparators[0]) if isinstance(x, ast.Name)]
                if len(names) == 2 and iv in (names[0].id, names[1].id):
                    sel = names[0].id if names[1].id == iv else names[1].id
    if sel is None:
        raise AnalysisError("anchor vanished: Union._emitparse no longer compares the member loop index with a selected index")
    SELF = ("param", "self")
    subs, pf = ("attr", SELF, "subcons"), ("attr", SELF, "parsefrom")
    seen = {}
    for st in ast.walk(fi.node):
        if not (isinstance(st, ast.Assign) and len(st.targets) == 1 and isinstance(st.targets[0], ast.Name) and st.targets[0].id == sel):
            continue
        guard = None
        par = getattr(st, "_parent", None)
        while par is not None and guard is None:
            if isinstance(par, ast.If) and isinstance(par.test, ast.Call) and ast.unparse(par.test.func) == "isinstance" and ast.unparse(par.test.args[0]) == "self.parsefrom":
                guard = ast.unparse(par.test.args[1])
            par = getattr(par, "_parent", None)
        m = control_model("def f(self):\n    return " + ast.unparse(st.value) + "\n")
        c2 = Ctx("C09", ctx.tier, m.root, model=m)
        ps = paths_of(c2, m.function("f"))
        t = N.canon_lids(ps[0].retval) if len(ps) == 1 and ps[0].retval is not None else None
        if guard == "int":
            ok, what = t == pf, "an integer parsefrom is itself the index into self.subcons"
        elif guard == "str":
            el = ("elem", subs, 0)
            ok = bool(t) and t[0] == "sub" and t[2] == pf and t[1][0] == "comp" and t[1][1] == "dict" and t[1][2] == ("kv", ("attr", el, "name"), ("idx", 0)) \
                and len(t[1][3]) == 1 and t[1][3][0][0] == ("call", ("free", "enumerate"), (subs,), ()) and t[1][3][0][1] in ((), (("attr", el, "name"),))
            what = "a string parsefrom is looked up in {member.name: position in self.subcons}, positions counted over all members (anonymous ones included) -- the list the member loop enumerates"
        elif guard == "type(None)":
            ok, what = bool(t) and N.is_int(t) and t[2] < 0, "no member is selected when parsefrom is None (index outside the loop's range)"
        else:
            ok, what = False, "selected index assigned under an unrecognised guard %r" % guard
        seen[guard] = True
        ctx.ob(rule, fi, ok, "Union._emitparse: %s (got %s)" % (what, N.show(t) if t else "?"), key="parse_union index %s" % guard, node=st)
    if set(seen) != {"int", "str", "type(None)"}:
        ctx.ob(rule, fi, False, "Union._emitparse decides the selected index for None, int and str parsefrom (found %s)" % sorted(map(str, seen)), key="parse_union index cases")
    return sel


def truth_table(node, atom, names):
    """{assignment tuple over `names`: bool} of a not/and/or tree whose leaves `atom` maps to (name, negated); None if a leaf is not recognised."""
    import itertools

    def ev(n, env):
        if isinstance(n, ast.UnaryOp) and isinstance(n.op, ast.Not):
            v = ev(n.operand, env)
            return None if v is None else (not v)
        if isinstance(n, ast.BoolOp):
            vs = [ev(x, env) for x in n.values]
            if any(v is None for v in vs):
                return None
            return all(vs) if isinstance(n.op, ast.And) else any(vs)
        a = atom(n)
        if a is None:
            return None
        return env[a[0]] != a[1]
    out = {}
    for vals in itertools.product((False, True), repeat=len(names)):
        v = ev(node, dict(zip(names, vals)))
        if v is None:
            return None
        out[vals] = v
    return out


def union_forward_guard(ctx, rule, fi, sel):
    """`forward` is recorded after exactly the selected member and exactly when the final forward seek will be emitted: the in-loop guard is
    (loop index == selected index) and not X, the final guard is not X, for one generation-time flag X."""
    import re
    tell_if = seek_if = None
    var = None
    for n in ast.walk(fi.node):
        if not isinstance(n, ast.If):
            continue
        texts = [c.value for st in n.body for c in ast.walk(st) if isinstance(c, ast.Constant) and isinstance(c.value, str)]
        for t in texts:
            m = re.search(r"(\w+) = io\.tell\(\)", t)
            if m and any(isinstance(p_, ast.For) for p_ in parents(n)):
                tell_if, var = n, m.group(1)
    for n in ast.walk(fi.node):
        if isinstance(n, ast.If) and var and not any(isinstance(p_, ast.For) for p_ in parents(n)):
            texts = [c.value for st in n.body for c in ast.walk(st) if isinstance(c, ast.Constant) and isinstance(c.value, str)]
            if any(re.search(r"io\.seek\(%s\)" % re.escape(var), t) for t in texts):
                seek_if = n
    if tell_if is None or seek_if is None:
        ctx.error("%s: Union._emitparse no longer guards the recorded forward position and the final forward seek with statement-level conditions; the guard rule cannot be decided" % rule)
        return
    loop = next(p_ for p_ in parents(tell_if) if isinstance(p_, ast.For))
    iv = loop.target.elts[0].id if isinstance(loop.target, ast.Tuple) and isinstance(loop.target.elts[0], ast.Name) else None

    def atom(n):
        if isinstance(n, ast.Compare) and len(n.ops) == 1 and isinstance(n.ops[0], (ast.Eq, ast.NotEq)):
            ids = sorted(x.id for x in (n.left, n.comparators[0]) if isinstance(x, ast.Name))
            if ids == sorted([iv or "", sel]):
                return ("EQ", isinstance(n.ops[0], ast.NotEq))
        if isinstance(n, ast.Name) and n.id not in (iv, sel):
            return ("X:" + n.id, False)
        return None
    flags = sorted({x.id for x in ast.walk(seek_if.test) if isinstance(x, ast.Name)})
    if len(flags) != 1:
        ctx.error("%s: the final forward seek of Union._emitparse is not guarded by a single generation-time flag" % rule)
        return
    x = "X:" + flags[0]
    t1 = truth_table(tell_if.test, atom, ["EQ", x])
    t2 = truth_table(seek_if.test, atom, [x])
    if t1 is None or t2 is None:
        ctx.error("%s: guard of the recorded forward position in Union._emitparse is not a not/and/or tree over (loop index == selected index) and the forward flag" % rule)
        return
    ok = all(v == (k[0] and not k[1]) for k, v in t1.items()) and all(v == (not k[0]) for k, v in t2.items())
    ctx.ob(rule, fi, ok, "Union._emitparse records `%s` after exactly the selected member, and exactly when the final seek to it is emitted (guards: %s / %s)" % (var, ast.unparse(tell_if.test), ast.unparse(seek_if.test)), key="parse_union forward guard", node=tell_if)
