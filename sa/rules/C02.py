"""C02 -- re-encoding parsed data is canonical and stable."""
from .. import norm as N
from .common import *
from . import C13

META = {
    "level": "other",
    "explanation": "Necessary structural conditions for build-after-parse to be accepted, canonical and idempotent (the thinnest claim of the set; idempotence itself is not decided): (R1) decode->encode closure: every form a decoder can return is accepted by a branch of its encoder -- Enum returns a table value (the very objects that key the encode table) or EnumInteger (an int, passed through), FlagsEnum returns a dict whose non-underscore keys are exactly the flag names its dict branch ORs back and whose flag test is `all bits of the mask present`, Mapping's tables are inverse, Flag returns a bool and builds one of two constants by truthiness, Hex/HexDump encode is the identity; (R2) private-key discipline: every fixed key that a parse-side method injects into a result container starts with '_', FlagsEnum._encode skips '_' keys, and Struct/Union/LazyStruct._build read the supplied object only under member names, so extra keys are ignored; (R3) Select builds alternatives in the order it parses them and Optional is Select(subcon, Pass); (R4) regenerated filler is parameter-only: the bytes that _build of Padded, Aligned, FixedSized, NullTerminated and Prefixed write besides the inner construct's output are terms over constructor parameters, computed lengths and constants -- never derived from the supplied object, time or randomness.",
    "undecided": "Idempotence and canonicity as such, non-canonical inputs (non-minimal VarInts, arbitrary padding), the gallery formats: value-level, left to dynamic techniques.",
    "trusted_base": ["python ast (3.12)", "sa.summ summariser", "class hierarchy of the model (EnumInteger < int, Container < dict)"],
    "assumptions": [],
}

NONDET = {"random", "time", "os", "uuid", "secrets", "datetime"}


def run(ctx):
    M = ctx.model
    # ---------------------------------------------------------------- R1
    fd, pd = own_method_paths(ctx, "Enum", "_decode")
    forms = {("table" if p.retval[0] == "sub" and p.retval[1] == N.selfattr("decmapping") else p.retval[1] if p.retval[0] == "new" else "other") for p in pd if p.returns}
    ctx.ob("C02.R1", fd, forms == {"table", "EnumInteger"}, "Enum._decode returns a decode-table value or EnumInteger(obj) (forms: %s)" % sorted(forms), key="Enum forms")
    ctx.ob("C02.R1", "EnumInteger", "int" in M.cls("EnumInteger").bases and "str" in M.cls("EnumIntegerString").bases, "EnumInteger is an int (passed through by _encode) and EnumIntegerString a str (hashes like the label)", key="Enum classes", loc=fd.loc)
    fe, pe = own_method_paths(ctx, "Enum", "_encode")
    isint = ("call", ("free", "isinstance"), (OBJ, ("free", "int")), ())
    ctx.ob("C02.R1", fe, any(p.returns and isint in p.guards() and p.retval == OBJ for p in pe) and any(p.returns and p.retval == ("sub", N.selfattr("encmapping"), OBJ) for p in pe),
           "Enum._encode accepts both forms: ints unchanged, labels through the encode table", key="Enum encode branches")
    C13.flag_test(ctx, "C02.R1")
    fe, pe = own_method_paths(ctx, "FlagsEnum", "_encode")
    isdict = ("call", ("free", "isinstance"), (OBJ, ("free", "dict")), ())
    dp = [p for p in pe if isdict in p.guards() and p.returns]
    skip = [c for p in dp for c in p.guards() if c[0] in ("not", "call") and any(x[0] == "attr" and x[2] == "startswith" for x in N.walk(c))]
    ctx.ob("C02.R1", fe, bool(dp) and bool(skip) and "dict" in M.cls("Container").bases, "FlagsEnum._encode accepts the dict its _decode returns and skips underscore keys", key="FlagsEnum dict branch")
    fd, pd = own_method_paths(ctx, "FlagsEnum", "_decode")
    ok = all(p.retval[0] == "new" and p.retval[1] == "Container" for p in pd if p.returns)
    ctx.ob("C02.R1", fd, ok, "FlagsEnum._decode returns a Container", key="FlagsEnum form")
    fp, pp = own_method_paths(ctx, "Flag", "_parse")
    fb, pb = own_method_paths(ctx, "Flag", "_build")
    ok = len(pp) == 1 and pp[0].retval[0] == "cmp" and pp[0].retval[1] == "!=" and pp[0].retval[3] == N.const(b"\x00") and pp[0].retval[2][0] == "read"
    ctx.ob("C02.R1", fp, ok, "Flag._parse returns `byte != 0`", key="Flag parse")
    ok = len(pb) == 1 and [e["data"] for e in pb[0].of("WRITE")] == [N.mk_ite(OBJ, N.const(b"\x01"), N.const(b"\x00"))]
    ctx.ob("C02.R1", fb, ok, "Flag._build writes one of the two canonical bytes selected by the truthiness of obj", key="Flag build")
    for cls in ("Hex", "HexDump"):
        fi, paths = own_method_paths(ctx, cls, "_encode")
        ctx.ob("C02.R1", fi, len(paths) == 1 and paths[0].retval == OBJ, "%s._encode is the identity" % cls, key="%s encode" % cls)
    ctx.floor("C02.R1", 10)

    # ---------------------------------------------------------------- R2
    n = 0
    for fi, cls in protocol_functions(M, ("_parse", "_decode")):
        if fi.relpath.endswith("debug.py"):
            continue
        for p in paths_of(ctx, fi, cls):
            for e in p.events:
                if e.kind in ("ATTRSET", "STORE") and e["base"][0] == "new" and e["base"][1] in ("Container", "ListContainer"):
                    key = N.const(e["attr"]) if e.kind == "ATTRSET" else e["key"]
                    if N.is_const(key) and isinstance(key[2], str):
                        n += 1
                        ctx.ob("C02.R2", fi, key[2].startswith("_"), "fixed key %r injected into a parse result must be private" % key[2], node=e.node, key="injected %s" % key[2])
    for cls in ("Struct", "Union", "LazyStruct"):
        fi, paths = method_paths(ctx, cls, "_build")
        reads = set()
        for p in paths:
            for e in p.events:
                if e.kind == "GETITEM" and e["base"] in (OBJ,) or (e.kind == "GETITEM" and e["base"][0] == "new"):
                    reads.add(e["key"])
            for e in p.events:
                for v in e.a.values():
                    if isinstance(v, tuple):
                        for x in N.walk(v):
                            if x[0] == "call" and x[1][0] == "attr" and x[1][2] == "get" and (x[1][1] == OBJ or x[1][1][0] == "new"):
                                reads.add(x[2][0])
        ok = bool(reads) and all(k[0] == "attr" and k[2] == "name" and k[1][0] == "elem" for k in reads)
        ctx.ob("C02.R2", fi, ok, "%s._build reads the supplied object only under member names (%s)" % (cls, sorted(N.show(k) for k in reads)), key="%s reads" % cls)
    ctx.floor("C02.R2", 5)

    # ---------------------------------------------------------------- R3
    subs = N.selfattr("subcons")
    for meth in ("_parse", "_build"):
        fi, paths = own_method_paths(ctx, "Select", meth)
        its = {e["iter"] for e in uniq_events(paths, "LOOP")}
        ctx.ob("C02.R3", fi, its == {subs}, "Select.%s tries the alternatives in declaration order" % meth, key="Select %s order" % meth)
    hs = {}
    for meth in ("_parse", "_build"):
        fi, paths = own_method_paths(ctx, "Select", meth)
        hs[meth] = {e["handlers"] for e in uniq_events(paths, "TRY")}
    ctx.ob("C02.R3", fi, hs["_parse"] == hs["_build"] and len(hs["_parse"]) == 1,
           "Select._parse and Select._build give up on an alternative for the same exception classes (parse %s, build %s): what parse falls through on, build must fall through on too" % (sorted(hs["_parse"]), sorted(hs["_build"])), key="Select handlers agree")
    fi = M.function("Optional")
    paths = paths_of(ctx, fi)
    ok = len(paths) == 1 and paths[0].retval == ("ctor", "Select", (("param", "subcon"), ("free", "Pass")), ())
    ctx.ob("C02.R3", fi, ok, "Optional(subcon) is Select(subcon, Pass)", key="Optional")
    ctx.floor("C02.R3", 4)

    # ---------------------------------------------------------------- R4
    for cls in ("Padded", "Aligned", "FixedSized", "NullTerminated", "Prefixed"):
        fi, paths = own_method_paths(ctx, cls, "_build")
        for p in paths:
            if not p.returns:
                continue
            for e in p.events:
                if e.kind == "WRITE" and e["stream"] == STREAM:
                    d = e["data"]
                    if d[0] == "getvalue":
                        continue    # the inner construct's own output
                    bad = [x for x in N.walk(d) if x == OBJ or (x[0] in ("free", "module") and x[1].split(".")[0] in NONDET) or x[0] in ("subres",) and x[1] not in ("_sizeof",)]
                    ctx.ob("C02.R4", fi, not bad, "%s._build regenerates its filler from parameters only (%s)" % (cls, N.show(d)), node=e.node, key="%s filler" % cls)
    ctx.floor("C02.R4", 4)
    ctx.control("C02.R2", True)
