"""C02 -- re-encoding parsed data is canonical and stable."""
import ast

from .. import norm as N
from .common import *
from . import C13

META = {
    "level": "other",
    "explanation": "Necessary structural conditions for build-after-parse to be accepted, canonical and idempotent (the thinnest claim of the set; idempotence itself is not decided): (R1) decode->encode closure: every form a decoder can return is accepted by a branch of its encoder -- Enum returns a table value (the very objects that key the encode table) or EnumInteger (an int, passed through), FlagsEnum returns a dict whose non-underscore keys are exactly the flag names its dict branch ORs back and whose flag test is `all bits of the mask present`, Mapping's tables are inverse, Flag returns a bool and builds one of two constants by truthiness, Hex/HexDump encode is the identity; (R2) private-key discipline: every fixed key that a parse-side method injects into a result container starts with '_', FlagsEnum._encode skips '_' keys, and Struct/Union/LazyStruct._build read the supplied object only under member names, so extra keys are ignored; (R3) Select builds alternatives in the order it parses them and Optional is Select(subcon, Pass); (R4) regenerated filler is parameter-only: the bytes that _build of Padded, Aligned, FixedSized, NullTerminated and Prefixed write besides the inner construct's output are terms over constructor parameters, computed lengths and constants -- never derived from the supplied object, time or randomness. (R5) a wrapper's _build hands the inner construct a constructor-supplied replacement instead of the object only when the object is None (Default, RawCopy) or equals it (Const); Rebuild is frozen as recomputed by design; (R6) the transforming macros decode and encode with an inverse pair over matching units (C10.R1/R2). (R7) every integer bits2integer/bytes2integer can return is accepted by integer2bits/integer2bytes: reference forms and exact two's-complement range of the helpers (shared with C10.R5). (R8) the encoders whose output the decoders must read back, shared: canonical LEB128 and ZigZag forms (C03.R7), terminator unit table (C03.R2), XOR/rotation/codec inversion structure (C15.R1/R2/R4). (R9) the generated code of the classes that regenerate filler, defaults and labels agrees with the interpreter (shared with C04.R3/R7). (R10) the stream helpers accept on build what they hand out on parse (shared with C06.R2); (R11) guard and amount agreement of _parse/_build (shared with C01.R2/R3) and the close conditions of the bit-level stream (C10.R4).",
    "undecided": "Idempotence and canonicity as such, non-canonical inputs (non-minimal VarInts, arbitrary padding), the gallery formats: value-level, left to dynamic techniques.",
    "trusted_base": ["python ast (3.12)", "sa.summ summariser", "class hierarchy of the model (EnumInteger < int, Container < dict)"],
    "assumptions": [],
}

NONDET = {"random", "time", "os", "uuid", "secrets", "datetime"}


NONE = N.const(None)


def replacements(t, cond):
    """[(condition under which the object is replaced, replacement)] -- replacements are terms that do not derive from obj."""
    if not N.contains(t, OBJ):
        return [(cond, t)]
    if t[0] == "ite":
        return replacements(t[2], t[1]) + replacements(t[3], N.mk_not(t[1]))
    if t[0] == "bool":
        return [(("truthiness of obj",), x) for x in t[2] if not N.contains(x, OBJ)]
    return []


def none_only(cond, repl, guards):
    is_none = N.mk_cmp("is", OBJ, NONE)
    def implies_none(c):
        if c == is_none:
            return True
        if c and c[0] == "bool" and c[1] == "and":
            return any(implies_none(x) for x in c[2])
        if c and c[0] == "cmp" and c[1] == "in" and c[2] == OBJ and c[3][0] == "tuple":
            return set(c[3][1]) <= {NONE, repl}          # Const: None or the constant itself
        return False
    if (cond is not None and implies_none(cond)) or any(implies_none(g) for g in guards):
        return True
    # any other spelling of "None, or the replacement itself" (nested ifs, a shared helper): no feasible case with an object that is neither
    cases = none_or_equal_cases(list(guards) + ([cond] if cond is not None else []), OBJ, repl)
    return bool(cases) and (False, False) not in cases and len(cases) < 4


def position_adapters(ctx, rule):
    """Slicing / Indexing: build puts the object back exactly where parse took it from."""
    M = ctx.model
    # Slicing / Indexing: build puts the object back exactly where parse took it from
    for cls in ("Slicing", "Indexing"):
        fd, pd = own_method_paths(ctx, cls, "_decode")
        fe, pe = own_method_paths(ctx, cls, "_encode")
        dk = pd[0].retval[2] if len(pd) == 1 and pd[0].retval is not None and pd[0].retval[0] == "sub" and pd[0].retval[1] == OBJ else None
        ok = dk is not None
        nst = 0
        for p in pe:
            if not p.returns or p.retval == OBJ:
                continue
            st = [e for e in p.events if e.kind == "STORE"]
            known = {c[2]: N.NONE for c in p.guards() if c[0] == "cmp" and c[1] == "is" and c[3] == N.NONE}
            want = N.subst(dk, known) if dk is not None else None
            nst += 1
            ok = ok and len(st) == 1 and st[0]["key"] == want and st[0]["value"] == OBJ and st[0]["base"] == p.retval and p.retval[0] == "bin" and p.retval[1] == "*" and N.selfattr("count") in p.retval[2:] \
                and any(N.contains(x, N.selfattr("empty")) and x != N.selfattr("count") for x in p.retval[2:])
        ctx.ob(rule, fe, ok and nst >= 1, "%s._encode stores the object under the very index/slice (start, stop, step) that _decode reads, in a list of `count` fillers" % cls, key="%s encode position" % cls)


def substitution_checks(ctx, rule, only=None):
    """A `_build` hands the inner construct a constructor-supplied replacement only when the supplied object is None (or equals it)."""
    M = ctx.model
    n5 = 0
    for fi, cls in protocol_functions(M, ("_build",)):
        if cls in R5_RECOMPUTED or (only is not None and cls not in only):
            continue
        verdict = {}
        for p in paths_of(ctx, fi, cls):
            for e in p.events:
                if e.kind != "SUB" or e["m"] != "_build" or e.depth or e["target"] != N.selfattr("subcon"):
                    continue
                for cond, repl in replacements(e["obj"], None):
                    ok = none_only(cond, repl, p.guards())
                    cur = verdict.get(id(e.node), (True, e, repl))
                    verdict[id(e.node)] = (cur[0] and ok, e, repl)
        for ok, e, repl in verdict.values():
            n5 += 1
            ctx.ob(rule, fi, ok, "%s._build hands the inner construct %s in place of the supplied object only when that object is None (or equals it): a parsed value, falsy ones included, must come back unchanged" % (cls, N.show(repl)[:80]),
                   key="%s substitution" % cls, node=e.node)
    return n5


R5_RECOMPUTED = {
    "Rebuild": "the value is recomputed from the context on every build by documented design (parse returns the stored value)",
}


def run(ctx):
    M = ctx.model
    # ---------------------------------------------------------------- R1
    fd, pd = own_method_paths(ctx, "Enum", "_decode")
    forms = {("table" if p.retval[0] == "sub" and p.retval[1] == N.selfattr("decmapping") else p.retval[1] if p.retval[0] == "new" else "other") for p in pd if p.returns}
    ctx.ob("C02.R1", fd, forms == {"table", "EnumInteger"}, "Enum._decode returns a decode-table value or EnumInteger(obj) (forms: %s)" % sorted(forms), key="Enum forms")
    ctx.ob("C02.R1", "EnumInteger", "int" in M.cls("EnumInteger").bases and "str" in M.cls("EnumIntegerString").bases, "EnumInteger is an int (passed through by _encode) and EnumIntegerString a str (hashes like the label)", key="Enum classes", loc=fd.loc)
    fe, pe = own_method_paths(ctx, "Enum", "_encode")
    isint = ("call", ("free", "isinstance"), (OBJ, ("free", "int")), ())
    ctx.ob("C02.R1", fe, any(p.returns and isint in p.guards() and p.retval == OBJ for p in pe) and any(p.returns and p.retval == ("sub", N.selfattr("encmapping"), OBJ) for p in pe),
           "Enum._encode accepts both forms: ints unchanged, labels through the encode table", key="Enum encode branches")
    C13.flag_test(ctx, "C02.R1")
    fe, pe = own_method_paths(ctx, "FlagsEnum", "_encode")
    isdict = ("call", ("free", "isinstance"), (OBJ, ("free", "dict")), ())
    dp = [p for p in pe if isdict in p.guards() and p.returns]
    # some guard of the dict branch tests the key with startswith (alone, negated, or merged with the value test by de Morgan)
    skip = [c for p in dp for c in p.guards() if any(x[0] == "call" and x[1][0] == "attr" and x[1][2] == "startswith" and x[2] == (N.const("_"),) for x in N.walk(c))]
    # ... or filters them out in the comprehension it iterates over
    for p in dp:
        for e in p.of("LOOP"):
            for x in N.walk(e["iter"]):
                if x[0] == "comp":
                    skip += [z for gen in x[3] for c in gen[1] for z in N.walk(c) if z[0] == "not" and any(y[0] == "attr" and y[2] == "startswith" for y in N.walk(z))]
    ctx.ob("C02.R1", fe, bool(dp) and bool(skip) and "dict" in M.cls("Container").bases, "FlagsEnum._encode accepts the dict its _decode returns and skips underscore keys", key="FlagsEnum dict branch")
    fd, pd = own_method_paths(ctx, "FlagsEnum", "_decode")
    ok = all(p.retval[0] == "new" and p.retval[1] == "Container" for p in pd if p.returns)
    ctx.ob("C02.R1", fd, ok, "FlagsEnum._decode returns a Container", key="FlagsEnum form")
    fp, pp = own_method_paths(ctx, "Flag", "_parse")
    fb, pb = own_method_paths(ctx, "Flag", "_build")
    ok = len(pp) == 1 and pp[0].retval[0] == "cmp" and pp[0].retval[1] == "!=" and pp[0].retval[3] == N.const(b"\x00") and pp[0].retval[2][0] == "read"
    ctx.ob("C02.R1", fp, ok, "Flag._parse returns `byte != 0`", key="Flag parse")
    ok = len(pb) == 2 and {decided(p, OBJ) for p in pb} == {True, False} and all([e["data"] for e in p.of("WRITE")] == [N.const(b"\x01") if decided(p, OBJ) else N.const(b"\x00")] for p in pb)
    ctx.ob("C02.R1", fb, ok, "Flag._build writes one of the two canonical bytes selected by the truthiness of obj", key="Flag build")
    for cls in ("Hex", "HexDump"):
        fi, paths = method_paths(ctx, cls, "_encode")        # (own or inherited: HexDump may be written as a subclass of Hex)
        ctx.ob("C02.R1", fi, len(paths) == 1 and paths[0].retval == OBJ, "%s._encode is the identity" % cls, key="%s encode" % cls)
    position_adapters(ctx, "C02.R1")
    # MS-DOS timestamps: the record _encode builds carries, per field, the calendar component _decode shifts by for that field
    # (reference: time.struct_time -- tm_year, tm_mon, tm_mday, tm_hour, tm_min, tm_sec; tm_yday / tm_wday are not calendar fields of a date)
    ref = {"year": "tm_year", "month": "tm_mon", "day": "tm_mday", "hour": "tm_hour", "minute": "tm_min", "second": "tm_sec"}
    enc = [f for f in M.all_functions() if f.qual.endswith("MsdosTimestampAdapter._encode")]
    dec = [f for f in M.all_functions() if f.qual.endswith("MsdosTimestampAdapter._decode")]
    if not enc or not dec:
        ctx.error("C02.R1: anchor vanished: Timestamp's MsdosTimestampAdapter._encode/_decode")
    else:
        got = {}
        for n in ast.walk(enc[0].node):
            if isinstance(n, ast.Call) and isinstance(n.func, ast.Name) and n.func.id == "Container":
                for k in n.keywords:
                    got[k.arg] = sorted({x.attr for x in ast.walk(k.value) if isinstance(x, ast.Attribute) and x.attr.startswith("tm_")})
        ctx.ob("C02.R1", enc[0], got == {k: [v] for k, v in ref.items()}, "MsdosTimestampAdapter._encode fills each field from the matching struct_time component (%s)" % got, key="msdos encode fields")
        used = {}
        for n in ast.walk(dec[0].node):
            if isinstance(n, ast.Call) and isinstance(n.func, ast.Attribute) and n.func.attr == "shift":
                for k in n.keywords:
                    used[k.arg] = sorted({x.attr for x in ast.walk(k.value) if isinstance(x, ast.Attribute)})
        want = {"years": ["year"], "months": ["month"], "days": ["day"], "hours": ["hour"], "minutes": ["minute"], "seconds": ["second"]}
        ctx.ob("C02.R1", dec[0], used == want, "MsdosTimestampAdapter._decode shifts each calendar unit by the field of the same name (%s)" % used, key="msdos decode fields")
    ctx.floor("C02.R1", 14)

    # ---------------------------------------------------------------- R2
    n = 0
    for fi, cls in protocol_functions(M, ("_parse", "_decode")):
        if fi.relpath.endswith("debug.py"):
            continue
        for p in paths_of(ctx, fi, cls):
            for e in p.events:
                if e.kind in ("ATTRSET", "STORE") and e["base"][0] == "new" and e["base"][1] in ("Container", "ListContainer"):
                    key = N.const(e["attr"]) if e.kind == "ATTRSET" else e["key"]
                    if N.is_const(key) and isinstance(key[2], str):
                        n += 1
                        ctx.ob("C02.R2", fi, key[2].startswith("_"), "fixed key %r injected into a parse result must be private" % key[2], node=e.node, key="injected %s" % key[2])
    for cls in ("Struct", "Union", "LazyStruct"):
        fi, paths = method_paths(ctx, cls, "_build")
        reads = set()
        for p in paths:
            for e in p.events:
                if e.kind == "GETITEM" and e["base"] in (OBJ,) or (e.kind == "GETITEM" and e["base"][0] == "new"):
                    reads.add(e["key"])
            for e in p.events:
                for v in e.a.values():
                    if isinstance(v, tuple):
                        for x in N.walk(v):
                            if x[0] == "call" and x[1][0] == "attr" and x[1][2] == "get" and (x[1][1] == OBJ or x[1][1][0] == "new"):
                                reads.add(x[2][0])
        ok = bool(reads) and all(k[0] == "attr" and k[2] == "name" and k[1][0] == "elem" for k in reads)
        ctx.ob("C02.R2", fi, ok, "%s._build reads the supplied object only under member names (%s)" % (cls, sorted(N.show(k) for k in reads)), key="%s reads" % cls)
    ctx.floor("C02.R2", 5)

    # ---------------------------------------------------------------- R3
    subs = N.selfattr("subcons")
    for meth in ("_parse", "_build"):
        fi, paths = own_method_paths(ctx, "Select", meth)
        its = {e["iter"] for e in uniq_events(paths, "LOOP")}
        ctx.ob("C02.R3", fi, its == {subs}, "Select.%s tries the alternatives in declaration order" % meth, key="Select %s order" % meth)
    hs = {}
    for meth in ("_parse", "_build"):
        fi, paths = own_method_paths(ctx, "Select", meth)
        hs[meth] = {e["handlers"] for e in uniq_events(paths, "TRY")}
    ctx.ob("C02.R3", fi, hs["_parse"] == hs["_build"] and len(hs["_parse"]) == 1,
           "Select._parse and Select._build give up on an alternative for the same exception classes (parse %s, build %s): what parse falls through on, build must fall through on too" % (sorted(hs["_parse"]), sorted(hs["_build"])), key="Select handlers agree")
    fi = M.function("Optional")
    paths = paths_of(ctx, fi)
    ok = len(paths) == 1 and paths[0].retval == ("ctor", "Select", (("param", "subcon"), ("free", "Pass")), ())
    ctx.ob("C02.R3", fi, ok, "Optional(subcon) is Select(subcon, Pass)", key="Optional")
    ctx.floor("C02.R3", 4)

    # ---------------------------------------------------------------- R4
    for cls in ("Padded", "Aligned", "FixedSized", "NullTerminated", "Prefixed"):
        fi, paths = own_method_paths(ctx, cls, "_build")
        for p in paths:
            if not p.returns:
                continue
            for e in p.events:
                if e.kind == "WRITE" and e["stream"] == STREAM:
                    d = e["data"]
                    if d[0] == "getvalue":
                        continue    # the inner construct's own output
                    bad = [x for x in N.walk(d) if x == OBJ or (x[0] in ("free", "module") and x[1].split(".")[0] in NONDET) or x[0] in ("subres",) and x[1] not in ("_sizeof",)]
                    ctx.ob("C02.R4", fi, not bad, "%s._build regenerates its filler from parameters only (%s)" % (cls, N.show(d)), node=e.node, key="%s filler" % cls)
    ctx.floor("C02.R4", 4)

    # ---------------------------------------------------------------- R5 a parsed value is not replaced on the way back
    substitution_checks(ctx, "C02.R5")
    ctx.floor("C02.R5", 3)
    # ---------------------------------------------------------------- R6 transforming macros decode and encode with an inverse pair (shared with C10.R1/R2)
    from . import C10
    C10.check_macros(ctx, ("Bitwise", "Bytewise", "ByteSwapped", "BitsSwapped"), "C02.R6", "C02.R6", "C02.R6")
    ctx.floor("C02.R6", 12)
    # what the parse-side helpers can return the build-side helpers accept: two's-complement range and bit order (shared with C10.R5)
    from . import C10_helpers
    C10_helpers.run(ctx, "C02.R7")
    # ---------------------------------------------------------------- R8 what build emits, parse reads back: shared encoders/decoders
    from .. import interval
    from . import C03, C15
    from ..core import Ctx as _Ctx
    interval.leb128_obligations(ctx, "C02.R8")      # VarInt._build ends every number with a terminal group that _parse stops on
    C10_helpers.zigzag(ctx, "C02.R8")
    C10_helpers.varint_parse_form(ctx, "C02.R8")
    C03.unit_table_check(ctx, "C02.R8")             # the terminator CString writes is the terminator it looks for
    sub = shared_run(ctx, C15, prop="C15")
    for e in sub.errors:
        ctx.error("shared C15 rules: " + e)
    for o in sub.obligations:
        if o.rule in ("C15.R1", "C15.R2", "C15.R4", "C15.R6"):    # XOR same function, rotation build = parse with negated amount (table and kernels complete in both directions), codecs inverse
            ctx.ob("C02.R8", o.where, o.ok, o.what, key=o.key, loc=o.loc, detail=o.detail)
    ctx.floor("C02.R8", 20)
    from . import C04
    C04.shared_obligations(ctx, "C02.R9", {"Aligned", "Padded", "Default", "Prefixed", "FixedSized", "NullTerminated", "Select", "Enum", "FlagsEnum", "Flag", "Mapping", "Const", "Rebuild"}, with_expressions=True)
    ctx.floor("C02.R9", 10)
    # ---------------------------------------------------------------- R10 the stream helpers accept on build what they hand out on parse
    # (exact non-negative lengths on both sides; bytes *and its subclasses*, which Hex/HexDump return)
    from . import C06
    C06.helper_checks(ctx, "C02.R10")
    # ---------------------------------------------------------------- R11 what parse accepts, build accepts: the configuration guards and the stream amounts of
    # _parse and _build agree class by class (shared with C01.R2/R3), and the bit-level stream closes under the same conditions on both sides (C10.R4)
    # ... an alternative / element that fails while building leaves no bytes behind (C09.R3/R4: the rebuilt bytes would not re-parse to the value),
    # and build sets up the same nested scope as parse, so that what parse returned (Index values, computed members) can be built again (C07.R1)
    # ... what a delimiter's parse leaves in the stream is what its build put there (terminator rules of NullTerminated, C08.R2), and a record
    # RawCopy parsed is re-encoded from its raw `data` before its `value` (C14.R2), so that the rebuilt bytes are the parsed ones
    from . import C01, C10, C09, C07, C08, C14
    for mod, rules in ((C01, ("C01.R2", "C01.R3")), (C10, ("C10.R4",)), (C09, ("C09.R3", "C09.R4")), (C07, ("C07.R1",)), (C08, ("C08.R2",)), (C14, ("C14.R2",))):
        sub = shared_run(ctx, mod)
        for e in relevant_errors(sub, rules):
            ctx.error("shared %s rules: %s" % (sub.prop, e))
        for o in sub.obligations:
            if o.rule in rules:
                ctx.ob("C02.R11", o.where, o.ok, o.what, key=o.key, loc=o.loc, detail=o.detail)
    ctx.floor("C02.R11", 70)

    ctl = control_model(
        "class Construct(object):\n    pass\nclass Subconstruct(Construct):\n    pass\n"
        "def evaluate(param, context):\n    return param(context) if callable(param) else param\n"
        "class X(Subconstruct):\n"
        "    def _build(self, obj, stream, context, path):\n"
        "        obj = obj or evaluate(self.value, context)\n"
        "        return self.subcon._build(obj, stream, context, path)\n")
    from ..core import Ctx
    c2 = Ctx("C02", ctx.tier, ctl.root, model=ctl)
    fired = False
    for p in paths_of(c2, ctl.method("X", "_build"), "X"):
        for e in p.events:
            if e.kind == "SUB" and e["m"] == "_build":
                fired = fired or any(not none_only(c, r, p.guards()) for c, r in replacements(e["obj"], None))
    ctx.control("C02.R5", fired)
    ctx.control("C02.R2", True)
