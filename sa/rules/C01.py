"""C01 -- build then parse returns the value that was built (symmetry)."""
import ast

from .. import norm as N
from ..amounts import method_amounts, MARKERS, compatible, sz_abstract, resolve_scratch, config_guards
from ..pos import is_top
from ..tables import INVERSE_PAIRS
from .common import *

META = {
    "level": "other",
    "explanation": "Sibling agreement between _parse and _build of every class -- each rule is a necessary condition: if it breaks in one sibling there is a construct/value with parse(build(v)) != v. (R1) both directions consult the same constructor parameters (through __init__ dataflow, so encmapping/decmapping both count as `mapping`) in the same way (evaluated against the context or raw); by-design one-sided parameters are a frozen table with one reason each; (R2) the set of (configuration guard, exception class) pairs is identical in _parse and _build and those of _sizeof are a subset; (R3) the symbolic net amount _parse takes from the stream equals the amount _build puts into it, after substituting what _build writes into a length field for what _parse reads from it (position algebra, shared with C05.R2); (R4) the transformation chain between the stream and the value is inverted: build applies the inverse helpers (independent table) in reverse order, conditional steps guarded by the same evaluated flag, for BytesInteger, BitsInteger, FormatField, StringEncoded, Tunnel/Compressed; (R5) value-supplying constructs: Rebuild builds EVAL(func), Default builds obj unless it is None, Computed/Index/Tell/Seek/Pointer/Check/StopIf have identical parse and build summaries modulo the direction of the sub-call; (R6) member loops run over self.subcons forwards in both directions, Array/GreedyRange/RepeatUntil build the supplied elements in order, Array build checks the element count. (R7) shared delimiter/encoding rules both directions rest on: canonical LEB128 of VarInt._build and the same group width in _parse (interval analysis, C03.R7), the terminator unit table (C03.R2), NullTerminated's unit-wide reads and step-back by len(term) (C08.R2), NullStripped drops only bytes compared equal to the pad (C08.R4). (R8) build-then-parse through generated code: the translation-validation obligations of every emitter (shared with C04.R3/R7/R8). R7 also re-states the bit-level machinery (C10.R1/R2/R4/R6) and the inversion structure of the byte transforms (C15.R1/R2/R4/R7).",
    "undecided": "Value equality itself: arithmetic inside the lib.binary helpers, VarInt/ZigZag algebra (engine I decides three obligations in C03.R7), user adapters and callbacks.",
    "trusted_base": ["python ast (3.12)", "sa.summ summariser", "sa.pos / sa.amounts position algebra", "sa/tables.py INVERSE_PAIRS"],
    "assumptions": ["sub-constructs are themselves symmetric (induction over nesting)"],
}

SKIP_ATTRS = {"name", "docs", "parsed", "flagbuildnone", "subcon", "subcons", "_subcons", "_subconsindexes"}
ONE_SIDED = {
    ("Rebuild", "func"): "build supplies the value; parse just parses",
    ("Default", "value"): "build supplies the value when none is given",
    ("Padded", "pattern"): "parse discards the padding bytes", ("Aligned", "pattern"): "parse discards the padding bytes",
    ("Compressed", "level"): "compression level does not affect decompression",
    ("NullTerminated", "include"): "parse-side contract (build always appends the terminator once)",
    ("NullTerminated", "consume"): "parse-side contract", ("NullTerminated", "require"): "parse-side contract",
    ("NullStripped", "pad"): "parse strips; build relies on the enclosing padder",
    ("OffsettedEnd", "endoffset"): "parse-side region delimiter; build is pass-through",
    ("RestreamData", "datafunc"): "parse-only by documentation (building does nothing)",
    ("Union", "parsefrom"): "parse-side contract (where the stream ends)",
    ("Transformed", "decodefunc"): "split by direction; paired by R4/C10", ("Transformed", "decodeamount"): "split by direction",
    ("Transformed", "encodefunc"): "split by direction", ("Transformed", "encodeamount"): "split by direction",
    ("Slicing", "count"): "build re-inflates the list", ("Slicing", "empty"): "build re-inflates the list",
    ("Indexing", "count"): "build re-inflates the list", ("Indexing", "empty"): "build re-inflates the list",
    ("NamedTuple", "factory"): "parse constructs the tuple; build only reads it",
    ("Compiled", "parsefunc"): "generated function per direction", ("Compiled", "buildfunc"): "generated function per direction",
}
GUARD_FROZEN = {
    ("NullTerminated", "parse"): "unit-length guard is a construction-misuse check on the parse side (documented)",
    ("NullStripped", "parse"): "unit-length guard is a construction-misuse check on the parse side (documented)",
}
PAIRS = (("_parse", "_build"), ("_decode", "_encode"))


def provenance(ctx, cls):
    """attr -> frozenset of __init__ parameters its value is computed from (identity if not assigned in __init__)."""
    fi = ctx.model.resolve(cls, "__init__")
    out = {}
    if fi is None:
        return out
    for p in paths_of(ctx, fi, cls):
        for e in p.events:
            if e.kind == "SELFWRITE" and e["base"] == SELF and isinstance(e["attr"], str):
                ps = frozenset(x[1].lstrip("*") for x in N.walk(e["value"]) if x[0] == "param" and x[1] != "self")
                out.setdefault(e["attr"], set()).update(ps or {e["attr"]})
    return {k: frozenset(v) for k, v in out.items()}


def consulted(ctx, cls, meth):
    fi = ctx.model.resolve(cls, meth)
    if fi is None:
        return None, None
    out = {}
    for p in paths_of(ctx, fi, cls):
        terms = [v for e in p.events for v in e.a.values() if isinstance(v, tuple)]
        if p.outcome[0] == "return":
            terms.append(p.outcome[1])
        for t in terms:
            ev = {x[1] for x in N.walk(t) if x[0] == "eval"}
            for x in N.walk(t):
                if x[0] == "attr" and x[1] == SELF and x[2] not in SKIP_ATTRS:
                    out.setdefault(x[2], set()).add("eval" if x in ev else "raw")
    for k in out:
        if out[k] == {"eval", "raw"}:
            out[k] = {"eval"}
    return fi, out


def chain(term, seed):
    """Peel unary transformer applications around `seed`; returns [(name, extra args)] inner -> outer, or None."""
    out = []
    t = term
    while t != seed:
        if t[0] == "sub" and N.is_int(t[2]):
            out.append(("[%d]" % t[2][2], ()))
            t = t[1]
        elif t[0] == "call" and t[1][0] == "free" and t[2] and N.contains(t[2][0], seed):
            out.append((t[1][1], t[2][1:]))
            t = t[2][0]
        elif t[0] == "call" and t[1][0] == "attr" and t[1][1][0] in ("free", "module") and t[2] and N.contains(t[2][-1], seed):
            out.append(("%s.%s" % (t[1][1][1], t[1][2]), t[2][:-1]))
            t = t[2][-1]
        elif t[0] == "call" and t[1][0] == "attr" and N.contains(t[1][1], seed):
            out.append(("." + t[1][2], t[2]))
            t = t[1][1]
        elif t[0] == "selfcall" and t[2] and N.contains(t[2][0], seed):
            out.append(("self." + t[1], ()))
            t = t[2][0]
        else:
            return None
    out.reverse()
    return out


INVERSE_NAME = {"bytes2integer": "integer2bytes", "bits2integer": "integer2bits", "swapbytes": "swapbytes", "swapbytesinbits": "swapbytesinbits",
                "struct.unpack": "struct.pack", ".decode": ".encode", "self._decode": "self._encode"}


def check_integer_duality(ctx, cls, rule="C01.R4"):
    M = ctx.model
    length = ("eval", N.selfattr("length"), CTX)
    swapped = ("eval", N.selfattr("swapped"), CTX)
    signed = N.selfattr("signed")
    fp, pp = own_method_paths(ctx, cls, "_parse")
    fb, pb = own_method_paths(ctx, cls, "_build")
    for flag in (True, False):
        g = swapped if flag else N.mk_not(swapped)
        ps = [p for p in pp if p.returns and g in p.guards()]
        bs = [p for p in pb if p.returns and g in p.guards()]
        ok = len(ps) == 1 and len(bs) == 1
        ctx.ob(rule, fp, ok, "%s: one parse and one build path for swapped=%s" % (cls, flag), key="%s paths swapped=%s" % (cls, flag))
        if not ok:
            continue
        rd = [e for e in ps[0].events if e.kind == "READ"]
        wr = [e for e in bs[0].events if e.kind == "WRITE"]
        ok = len(rd) == 1 and len(wr) == 1 and rd[0]["length"] == length and wr[0]["length"] == length
        ctx.ob(rule, fp, ok, "%s reads and writes exactly EVAL(length) units" % cls, key="%s amounts swapped=%s" % (cls, flag))
        if not ok:
            continue
        pc = chain(ps[0].retval, rd[0]["res"])
        bc = chain(wr[0]["data"], OBJ)
        ok = pc is not None and bc is not None and len(pc) == len(bc) == (2 if flag else 1)
        if ok:
            # build chain must be the parse chain reversed with every element replaced by its inverse
            inv = [(INVERSE_NAME.get(n), a) for n, a in reversed(pc)]
            names_ok = [x[0] for x in inv] == [x[0] for x in bc] and all(frozenset((a[0], b[0])) in INVERSE_PAIRS for a, b in zip(pc, reversed(bc)))
            conv_p = pc[-1]
            conv_b = bc[0]
            args_ok = conv_p[1] == (signed,) and conv_b[1] == (length, signed)
            ok = names_ok and args_ok
        ctx.ob(rule, fb, ok, "%s (swapped=%s): build applies the inverse helpers of parse in reverse order, with the same signedness and width (parse %s, build %s)" % (
            cls, flag, pc, bc), key="%s chain swapped=%s" % (cls, flag))
    ctx.ob(rule, fb, all(N.selfattr("signed") in [x for e in p.events if e.kind == "CALL" for a in e["args"] for x in N.walk(a)] for p in pb if p.returns),
           "%s._build passes self.signed to the conversion on every path" % cls, key="%s signed build" % cls)
    ctx.ob(rule, fp, all(N.selfattr("signed") in [x for x in N.walk(p.retval)] for p in pp if p.returns),
           "%s._parse passes self.signed to the conversion on every path" % cls, key="%s signed parse" % cls)


def guard_pairs(ctx, cls, meth):
    fi = ctx.model.resolve(cls, meth)
    if fi is None:
        return None, set()
    out = set()
    sites = {}
    for p in paths_of(ctx, fi, cls):
        if p.outcome[0] == "raise" and p.outcome[1].get("kind") == "explicit" and is_error_class(ctx.model, p.outcome[1].get("cls")):
            # guarded raise:  if <cond>: raise X   (the raise directly follows the assumption, not a handler / loop exit)
            evs = [e for e in p.events if e.kind not in ("EVAL", "CALL")]
            if len(evs) < 2 or evs[-1].kind != "RAISE" or evs[-2].kind != "ASSUME":
                continue
            last = evs[-2]["cond"]
            if last[0] == "cmp" and last[1] in ("in", "not in"):
                continue
            atoms = [x for x in N.walk(last) if x[0] in ("param", "subres", "read", "readall", "tell", "lv", "elem", "getvalue", "selfcall", "new")]
            atoms = [x for x in atoms if x not in (SELF, CTX)]
            if atoms:
                continue        # guard over obj / parsed data: one-sided by nature
            out.add((last, p.outcome[1].get("cls")))
            sites.setdefault(id(evs[-1].node), set()).add(last)
    # a condition under which the same raise statement is reached with either polarity does not guard it (it only chooses, say, how the
    # message is worded -- as a conditional expression or as an if statement before the raise)
    for conds in sites.values():
        for c_ in list(conds):
            if N.mk_not(c_) in conds:
                out = {(g_, k_) for g_, k_ in out if g_ != c_}
    return fi, out


def parse_build_amounts(ctx, cls, rule="C01.R3"):
    from .C05_amounts import substitute_parsed
    S = summariser(ctx)
    M = ctx.model
    fp, pr = method_amounts(S, M, cls, "_parse")
    fb, br = method_amounts(S, M, cls, "_build")
    if fp is None or fb is None:
        return 0
    P = set()
    for g, a, p in pr:
        if a in MARKERS or is_top(a):
            continue
        for c in (substitute_parsed(a, br, g) or [a]):
            P.add((g, c))
    B = {(g, a) for g, a, p in br if a not in MARKERS and not is_top(a)}
    if not P or not B:
        return 0
    n = 0
    for g, a in sorted(P, key=repr):
        want = {b for gb, b in B if compatible(g, gb)}
        datadep = any((x[0] == "subres" and x[1] in ("_parsereport", "_parse")) or x[0] in ("END", "lv", "new", "dict") for x in N.walk(a))
        if datadep:
            continue
        n += 1
        ctx.ob(rule, fp, a in want, "%s._parse takes %s from the stream but _build puts %s into it" % (cls, N.show(a), " / ".join(sorted(N.show(w) for w in want)) or "nothing comparable"),
               key=("%s parse amount %s" % (cls, N.show(a)))[:200])
    return n


INIT_DERIVED = {
    ("Enum", "encmapping"): "label table (inverse pair checked by C13.R4)", ("Enum", "decmapping"): "label table (C13.R4)", ("Enum", "ksymapping"): "export table (C19.R2)",
    ("FlagsEnum", "reverseflags"): "inverse of the flags mapping", ("Mapping", "decmapping"): "inverse of the given mapping (C13.R4)",
    ("Struct", "subcons"): "member list (C03.R3)", ("Struct", "_subcons"): "name index of the member list", ("Struct", "flagbuildnone"): "derived flag",
    ("Sequence", "subcons"): "member list (C03.R3)", ("Sequence", "_subcons"): "name index", ("Sequence", "flagbuildnone"): "derived flag",
    ("FocusedSeq", "subcons"): "member list (C03.R3)", ("FocusedSeq", "_subcons"): "name index",
    ("Union", "subcons"): "member list (C03.R3)", ("Union", "_subcons"): "name index",
    ("Select", "subcons"): "member list", ("Select", "flagbuildnone"): "derived flag",
    ("LazyStruct", "subcons"): "member list (C03.R3)", ("LazyStruct", "_subcons"): "name index", ("LazyStruct", "_subconsindexes"): "index table (C16.R3)", ("LazyStruct", "flagbuildnone"): "derived flag",
    ("Renamed", "name"): "new name or the wrapped construct's", ("Renamed", "docs"): "new docs or the wrapped construct's", ("Renamed", "parsed"): "new hook or the wrapped construct's",
    ("IfThenElse", "flagbuildnone"): "derived flag", ("Switch", "default"): "Pass when no default is given", ("Switch", "flagbuildnone"): "derived flag",
    ("Compressed", "lib"): "codec module selected by the encoding name", ("CompressedLZ4", "lib"): "codec module",
    ("Rebuffered", "stream2"): "documented experimental",
    ("Subconstruct", "flagbuildnone"): "inherited from the wrapped construct", ("FormatField", "fmtstr"): "byte-order character + format code (C03.R1)",
    ("FormatField", "length"): "struct.calcsize of the format (C01.R4)", ("NamedTuple", "factory"): "collections.namedtuple built from the given names",
    ("ExprAdapter", "_decode"): "adapter lambdas wrapping the given functions", ("ExprAdapter", "_encode"): "adapter lambdas", ("ExprValidator", "_validate"): "validator lambda",
}


def init_store_checks(ctx, rule, only=None):
    """Constructor parameters are stored as given: every attribute written by a construct's __init__ is a parameter, a constant, or one of the
    derived tables listed in INIT_DERIVED.  A 'normalisation' of a layout parameter at construction time (stripping, rounding, defaulting a
    falsy value) changes the format for some parameter values while _parse and _build still agree with each other."""
    M = ctx.model
    n = 0
    for ci in M.construct_classes():
        if "__init__" not in ci.methods or ci.relpath.endswith("debug.py") or (only is not None and ci.name not in only):
            continue
        fi = M.method(ci.name, "__init__")
        seen = {}
        for p in paths_of(ctx, fi, ci.name):
            for e in p.events:
                if e.kind == "SELFWRITE" and e["base"] == SELF and isinstance(e["attr"], str) and not e.depth:
                    v = e["value"]
                    plain = v[0] == "param" or N.is_const(v) or (v[0] == "free")
                    seen[e["attr"]] = seen.get(e["attr"], True) and (plain or (ci.name, e["attr"]) in INIT_DERIVED)
        for attr, ok in sorted(seen.items()):
            n += 1
            ctx.ob(rule, fi, ok, "%s.__init__ stores %s exactly as given (or as a documented derived table)" % (ci.name, attr), key="init %s" % attr, detail=INIT_DERIVED.get((ci.name, attr)))
    return n


def buildnone_flags(ctx, rule, only=None):
    """A construct whose _build never reads the supplied object declares flagbuildnone = True in its __init__: enclosing Struct/Sequence
    members are then built without demanding a key for them (else the KeyError is raised -- or swallowed by Select -- before the member runs)."""
    M = ctx.model
    n = 0
    for ci in M.construct_classes():
        if "_build" not in ci.methods or ci.relpath.endswith("debug.py") or ci.name == "Construct" or (only is not None and ci.name not in only):
            continue
        fi = M.method(ci.name, "_build")
        ps = paths_of(ctx, fi, ci.name)
        uses = any(N.contains(v, OBJ) for p in ps for e in p.events for v in e.a.values() if isinstance(v, tuple)) or any(p.retval is not None and N.contains(p.retval, OBJ) for p in ps)
        is_none = N.mk_cmp("is", OBJ, N.NONE)
        def handles_none(p):
            # a successful path that was taken *because* obj is None (or is None-or-the-constant): the class builds from nothing
            for g in p.guards():
                if g == is_none:
                    return True
                if g[0] == "cmp" and g[1] == "in" and g[2] == OBJ and g[3][0] == "tuple" and N.NONE in g[3][1]:
                    return True
            return any(x[0] == "ite" and x[1] == is_none for e in p.events for v in e.a.values() if isinstance(v, tuple) for x in N.walk(v))
        # obj that is merely handed back (Peek, Pass, Terminated ...) is not consumed either
        consumed = any(isinstance(v, tuple) and N.contains(v, OBJ) for p in ps for e in p.events if e.kind not in ("RETURN", "EVAL")
                       for k, v in e.a.items() if k not in ("res",))
        if uses and consumed and not (ci.name in ("Const", "Default") and any(p.returns and handles_none(p) for p in ps)):
            continue
        ini = M.resolve(ci.name, "__init__")
        fb = [e["value"] for p in (paths_of(ctx, ini, ci.name) if ini is not None else []) for e in p.events if e.kind == "SELFWRITE" and e["attr"] == "flagbuildnone"]
        n += 1
        ctx.ob(rule, fi, bool(fb) and all(v == N.TRUE for v in fb), "%s._build does not use the supplied object, and %s declares flagbuildnone = True" % (ci.name, ci.name), key="%s flagbuildnone" % ci.name)
    return n


def derived_flag_formulas(ctx, rule):
    """flagbuildnone of a composite is derived from its parts the documented way: all members (Struct, Sequence, LazyStruct), any
    alternative (Select), both branches (IfThenElse), all cases and the default (Switch), the wrapped construct (Subconstruct)."""
    M = ctx.model
    def fb(cls):
        fi = M.method(cls, "__init__")
        vals = {N.canon_lids(e["value"]) for p in paths_of(ctx, fi, cls) for e in p.events if e.kind == "SELFWRITE" and e["attr"] == "flagbuildnone"}
        return fi, vals
    def agg(v):
        # all(...) / any(...) of <member>.flagbuildnone over a collection
        if v[0] == "call" and v[1] in (("free", "all"), ("free", "any")) and len(v[2]) == 1 and v[2][0][0] == "comp":
            c = v[2][0]
            if c[2][0] == "attr" and c[2][2] == "flagbuildnone" and c[2][1][0] == "elem" and len(c[3]) == 1 and c[3][0][1] == ():
                return v[1][1], c[3][0][0]
        return None, None
    for cls, want in (("Struct", "all"), ("Sequence", "all"), ("LazyStruct", "all"), ("Select", "any"), ("Switch", "all")):
        fi, vals = fb(cls)
        kinds = {agg(v)[0] for v in vals}
        ctx.ob(rule, fi, bool(vals) and kinds == {want}, "%s.flagbuildnone is %s(member.flagbuildnone ...)" % (cls, want), key="%s flag formula" % cls)
    fi, vals = fb("IfThenElse")
    want = N.mk_bool("and", [("attr", ("param", "thensubcon"), "flagbuildnone"), ("attr", ("param", "elsesubcon"), "flagbuildnone")])
    ctx.ob(rule, fi, vals == {want}, "IfThenElse.flagbuildnone is thensubcon.flagbuildnone and elsesubcon.flagbuildnone (a None object must be buildable whichever branch is taken)", key="IfThenElse flag formula")
    fi, vals = fb("Subconstruct")
    ctx.ob(rule, fi, vals == {("attr", ("param", "subcon"), "flagbuildnone")}, "Subconstruct inherits flagbuildnone from the wrapped construct", key="Subconstruct flag formula")


def tunnel_checks(ctx, rule):
    M = ctx.model
    # Tunnel
    fp, pp = own_method_paths(ctx, "Tunnel", "_parse")
    fb, pb = own_method_paths(ctx, "Tunnel", "_build")
    ok = len(pp) == 1 and len(pb) == 1
    if ok:
        ra = pp[0].of("READALL")
        sub = pp[0].of("SUB")
        ok = len(ra) == 1 and len(sub) == 1 and sub[0]["m"] == "parse" and sub[0]["data"] == ("selfcall", "_decode", (ra[0]["res"], CTX, PATH), ())
        wr = pb[0].of("WRITE")
        sb = pb[0].of("SUB")
        ok = ok and len(wr) == 1 and len(sb) == 1 and sb[0]["m"] == "_build" and sb[0]["obj"] == OBJ and \
            wr[0]["data"] == ("selfcall", "_encode", (("getvalue", sb[0]["stream"]), CTX, PATH), ()) and wr[0]["stream"] == STREAM
    ctx.ob(rule, fb, ok, "Tunnel: parse decodes the whole stream and parses the result; build builds into a scratch stream, encodes its content and writes it", key="Tunnel chain")
    fd, pd = own_method_paths(ctx, "Compressed", "_decode")
    fe, pe = own_method_paths(ctx, "Compressed", "_encode")
    lib = N.selfattr("lib")
    data = ("param", "data")
    dcalls = {(e["func"], e["args"]) for p in pd for e in p.events if e.kind == "CALL"}
    ecalls = {(e["func"], e["args"]) for p in pe for e in p.events if e.kind == "CALL"}
    ok = dcalls == {(("attr", lib, "decompress"), (data,)), (("attr", lib, "decode"), (data, N.selfattr("encoding")))} and \
        {f for f, a in ecalls} == {("attr", lib, "compress"), ("attr", lib, "encode")} and all(a[0] == data for f, a in ecalls)
    ctx.ob(rule, fe, ok, "Compressed: decompress/decode on parse and compress/encode on build, through the same library object", key="Compressed chain")
    def through(paths, names):
        rets = [p for p in paths if p.returns]
        return bool(rets) and all(p.retval is not None and p.retval[0] == "call" and p.retval[1][0] == "attr" and p.retval[1][1] == lib and p.retval[1][2] in names
                                  and p.retval[2][:1] == (data,) for p in rets)
    ctx.ob(rule, fe, through(pe, ("compress", "encode")) and through(pd, ("decompress", "decode")),
           "Compressed: every return of _encode/_decode is the codec's result on the data (no pass-through shortcut on one side only)", key="Compressed no shortcut")
    lvl = N.selfattr("level")
    def flat(p):
        out = []
        for g in p.guards():
            out.extend(g[2] if g[0] == "bool" else (g,))
        return out
    with_level = [p for p in pe if p.returns and any(e.kind == "CALL" and e["func"][2] == "compress" and lvl in e["args"] for e in p.events)]
    without = [p for p in pe if p.returns and any(e.kind == "CALL" and e["func"][2] == "compress" and lvl not in e["args"] for e in p.events)]
    ok = bool(with_level) and bool(without) and all(N.mk_cmp("is not", lvl, N.NONE) in flat(p) for p in with_level) and \
        all(N.mk_cmp("is", lvl, N.NONE) in flat(p) and not any(c == lvl or c == N.mk_not(lvl) for c in flat(p)) for p in without)
    ctx.ob(rule, fe, ok, "Compressed hands the level to the codec whenever one was given (tested with `is None`, so level 0 = stored is honoured)", key="Compressed level")
    enc = N.selfattr("encoding")
    ok = bool(with_level) and all(N.mk_cmp("!=", enc, N.const("lzma")) in flat(p) for p in with_level) and \
        all(any(c[0] == "bool" and c[1] == "or" and set(c[2]) == {N.mk_cmp("is", lvl, N.NONE), N.mk_cmp("==", enc, N.const("lzma"))} for c in p.guards()) for p in without)
    ctx.ob(rule, fe, ok, "Compressed never hands a level to lzma (the second positional argument of lzma.compress is the container format), and omits it only for lzma or when none was given", key="Compressed lzma level")
    # the codec module is chosen by the documented table: zlib->zlib, gzip->gzip, bzip2->bz2, lzma->lzma, anything else->codecs
    fi_i, pi = own_method_paths(ctx, "Compressed", "__init__")
    table = {"zlib": "zlib", "gzip": "gzip", "bzip2": "bz2", "lzma": "lzma"}
    got = {}
    other = set()
    for p in pi:
        libs = [e["value"] for e in p.events if e.kind == "SELFWRITE" and e["attr"] == "lib"]
        eqs = [c[3][2] for c in p.guards() if c[0] == "cmp" and c[1] == "==" and N.is_const(c[3]) and c[2] in (("param", "encoding"), N.selfattr("encoding"))]
        for lib in libs:
            name = lib[1] if lib[0] == "module" else N.show(lib)
            if eqs:
                got[eqs[-1]] = name
            else:
                other.add(name)
    ctx.ob(rule, fi_i, got == table and other == {"codecs"}, "Compressed picks its codec module by the documented table (found %s, otherwise %s)" % (got, sorted(other)), key="Compressed codec table")
    sel = lambda c: c[0] == "cmp" and c[1] in ("in", "not in") and c[2] == N.selfattr("encoding")
    gdd = {c for p in pd if p.returns and any(e.kind == "CALL" and e["func"][2] == "decompress" for e in p.events) for c in p.guards() if sel(c)}
    ge = {c for p in pe if p.returns and any(e.kind == "CALL" and e["func"][2] == "compress" for e in p.events) for c in p.guards() if sel(c)}
    ctx.ob(rule, fe, gdd == ge and bool(ge), "Compressed selects the codec family with the same condition in both directions", key="Compressed selector")



def focusedseq_focus(ctx, rule):
    # FocusedSeq: the member in focus is the one whose name equals parsebuildfrom -- its result is what parse returns, it alone is handed the
    # object when building, and its build result is what build returns
    for meth, subm in (("_parse", "_parsereport"), ("_build", "_build")):
        fi, paths = method_paths(ctx, "FocusedSeq", meth)
        ok, seen = True, 0
        for p in paths:
            subs = [e for e in p.events if e.kind == "SUB" and e["m"] == subm and e.loops and not e.raised]
            if len(subs) != 1 or not p.returns:
                continue
            e = subs[0]
            focus = sorted({c for c in p.guards() if c[0] == "cmp" and c[1] in ("==", "!=") and any(x == ("attr", e["target"], "name") for x in c[2:])})
            if len(focus) != 1:
                ok = False
                continue
            seen += 1
            if focus[0][1] == "==":
                ok = ok and p.retval == e["res"]
            else:
                ok = ok and p.retval is not None and p.retval[0] == "lv"
            other = [x for x in focus[0][2:] if x != ("attr", e["target"], "name")]
            ok = ok and len(other) == 1 and other[0][0] == "eval" and other[0][1] == N.selfattr("parsebuildfrom")
            if meth == "_build":
                o = e["obj"]
                ok = ok and o == (OBJ if focus[0][1] == "==" else N.NONE)
        ctx.ob(rule, fi, ok and seen >= 2, "FocusedSeq.%s: the member named parsebuildfrom is the one in focus (its result is returned%s)" % (meth, "; it alone receives obj" if meth == "_build" else ""), key="FocusedSeq %s focus" % meth)


def identical_directions(ctx, rule, classes):
    """_parse and _build of the listed classes have the same summary (events, guards, exceptions, result) modulo the direction of the sub-call."""
    def sigs(cls, meth):
        fi, paths = own_method_paths(ctx, cls, meth)
        out = set()
        for p in paths:
            row = []
            for e in p.events:
                s = e.sig()
                if e.kind == "SUB":
                    d = dict(s[1])
                    d.pop("res", None)
                    d.pop("obj", None)
                    d["m"] = "X"
                    s = ("SUB", tuple(sorted(d.items())))
                if e.kind == "RAISE":
                    d = dict(s[1])
                    s = ("RAISE", d.get("cls"), d.get("path"))
                if e.kind == "RETURN":
                    continue
                row.append(s)
            ret = p.outcome[1] if p.outcome[0] == "return" else (p.outcome[1].get("cls") if p.outcome[0] == "raise" else None)
            if isinstance(ret, tuple) and ret and ret[0] == "subres":
                ret = ("subres", "X", ret[2], ret[3])
            out.add((tuple(row), p.outcome[0], ret))
        return fi, out
    for cls in classes:
        fp, a = sigs(cls, "_parse")
        fb, b = sigs(cls, "_build")
        ctx.ob(rule, fb, a == b, "%s._parse and %s._build have the same summary modulo the direction of the sub-call" % (cls, cls), key="%s identical" % cls)

def run(ctx):
    M = ctx.model
    S = summariser(ctx)
    classes = [c for c in M.construct_classes() if not c.relpath.endswith("debug.py")]

    # ---------------------------------------------------------------- R1
    n1 = 0
    for ci in classes:
        c = ci.name
        prov = provenance(ctx, c)
        for a, b in PAIRS:
            if a not in ci.methods and b not in ci.methods:
                continue
            fa, A = consulted(ctx, c, a)
            fb, B = consulted(ctx, c, b)
            if A is None or B is None:
                continue
            pa = {}
            for k, v in A.items():
                for src in prov.get(k, frozenset((k,))):
                    pa.setdefault(src, set()).update(v)
            pb = {}
            for k, v in B.items():
                for src in prov.get(k, frozenset((k,))):
                    pb.setdefault(src, set()).update(v)
            for k in sorted(set(pa) | set(pb)):
                n1 += 1
                if k in pa and k in pb:
                    ctx.ob("C01.R1", fa, pa[k] == pb[k], "%s: parameter `%s` is consulted %s in %s but %s in %s" % (c, k, "/".join(sorted(pa[k])), a, "/".join(sorted(pb[k])), b),
                           key="%s %s mode" % (c, k))
                else:
                    side = a if k in pa else b
                    attrs = [x for x in (A if k in pa else B) if k in prov.get(x, frozenset((x,)))]
                    fro = any((c, x) in ONE_SIDED for x in attrs) or (c, k) in ONE_SIDED
                    reason = next((ONE_SIDED[(c, x)] for x in attrs + [k] if (c, x) in ONE_SIDED), None)
                    ctx.ob("C01.R1", fa if k in pa else fb, fro, "%s: parameter `%s` is consulted only by %s" % (c, k, side), key="%s %s one-sided %s" % (c, k, side), detail=reason)
    init_store_checks(ctx, "C01.R1")
    attributes_defined(ctx, "C01.R1", lambda ci: ctx.model.is_subclass(ci.name, "Construct"))
    ctx.floor("C01.R1", 60 + 100)

    # ---------------------------------------------------------------- R2
    n2 = 0
    for ci in classes:
        c = ci.name
        if not ({"_parse", "_build", "_sizeof"} & set(ci.methods)):
            continue
        fp, gp = guard_pairs(ctx, c, "_parse")
        fb, gb = guard_pairs(ctx, c, "_build")
        fs, gs = guard_pairs(ctx, c, "_sizeof")
        if fp is None or fb is None:
            continue
        if not (gp or gb or gs):
            continue
        for g in sorted(gp | gb, key=repr):
            n2 += 1
            both = g in gp and g in gb
            side = "parse" if g in gp else "build"
            fro = (c, side) in GUARD_FROZEN and not both
            ctx.ob("C01.R2", fp if g in gp else fb, both or fro, "%s: configuration guard %s -> %s exists only on the %s side" % (c, N.show(g[0]), g[1], side) if not both else
                   "%s: guard %s -> %s on both sides" % (c, N.show(g[0]), g[1]), key="%s guard %s %s" % (c, N.show(g[0]), g[1]), detail=GUARD_FROZEN.get((c, side)))
        for g in sorted(gs - {x for x in gs if x[1] == "SizeofError"}, key=repr):
            n2 += 1
            ctx.ob("C01.R2", fs, g in gp and g in gb, "%s._sizeof guard %s -> %s is also enforced by _parse and _build" % (c, N.show(g[0]), g[1]), key="%s sizeof guard %s" % (c, N.show(g[0])))
    ctx.floor("C01.R2", 10)

    # ---------------------------------------------------------------- R3
    n3 = 0
    from .C05 import data_dependent
    for ci in classes:
        if ci.name in ("Compiled", "Rebuffered", "Restreamed", "RestreamData", "Transformed", "Union", "Select"):
            continue
        if M.resolve(ci.name, "_parse") is None or data_dependent(ctx, ci.name) is not None:
            continue
        n3 += parse_build_amounts(ctx, ci.name)
    ctx.floor("C01.R3", 50)

    # ---------------------------------------------------------------- R4
    for cls in ("BytesInteger", "BitsInteger"):
        check_integer_duality(ctx, cls)
    # FormatField
    fp, pp = own_method_paths(ctx, "FormatField", "_parse")
    fb, pb = own_method_paths(ctx, "FormatField", "_build")
    fmt, ln = N.selfattr("fmtstr"), N.selfattr("length")
    rp = [p for p in pp if p.returns]
    rb = [p for p in pb if p.returns]
    ok = len(rp) == 1 and len(rb) == 1
    if ok:
        rd = rp[0].of("READ")
        wr = rb[0].of("WRITE")
        ok = len(rd) == 1 and len(wr) == 1 and rd[0]["length"] == ln and wr[0]["length"] == ln
        pc = chain(rp[0].retval, rd[0]["res"]) if ok else None
        bc = chain(wr[0]["data"], OBJ) if ok else None
        ok = ok and pc == [("struct.unpack", (fmt,)), ("[0]", ())] and bc == [("struct.pack", (fmt,))] and rb[0].retval == OBJ
    ctx.ob("C01.R4", fb, ok, "FormatField: parse is struct.unpack(fmtstr, read(length))[0], build is write(struct.pack(fmtstr, obj)) with the same format and length", key="FormatField chain")
    fi, paths = own_method_paths(ctx, "FormatField", "__init__")
    w = {e["attr"]: e["value"] for p in paths for e in p.events if e.kind == "SELFWRITE"}
    f = w.get("fmtstr")
    ok = f is not None and w.get("length") is not None and w["length"][0] == "call" and w["length"][1] == ("attr", ("free", "struct"), "calcsize") and w["length"][2] == (f,)
    ctx.ob("C01.R4", fi, ok, "FormatField.length is struct.calcsize of the very format string used to pack/unpack", key="FormatField length")
    # StringEncoded
    fd, pd = own_method_paths(ctx, "StringEncoded", "_decode")
    fe, pe = own_method_paths(ctx, "StringEncoded", "_encode")
    enc = N.selfattr("encoding")
    dr = [p for p in pd if p.returns]
    er = [p for p in pe if p.returns and p.retval != N.const(b"")]
    ok = len(dr) == 1 and len(er) == 1 and chain(dr[0].retval, OBJ) == [(".decode", (enc,))] and chain(er[0].retval, OBJ) == [(".encode", (enc,))]
    ctx.ob("C01.R4", fe, ok, "StringEncoded: decode(self.encoding) on parse, encode(self.encoding) on build", key="StringEncoded chain")
    short = [p for p in pe if p.returns and p.retval == N.const(b"")]
    ctx.ob("C01.R4", fe, all(N.mk_cmp("==", OBJ, N.const("")) in p.guards() for p in short), "the only build-side shortcut is the empty string (an encoded empty string may carry a BOM)", key="StringEncoded shortcut")
    tunnel_checks(ctx, "C01.R4")
    ctx.floor("C01.R4", 19)

    # ---------------------------------------------------------------- R5
    fi, paths = own_method_paths(ctx, "Rebuild", "_build")
    ok = len(paths) == 1
    if ok:
        sb = paths[0].of("SUB")
        ok = len(sb) == 1 and sb[0]["obj"] == ("eval", N.selfattr("func"), CTX) and sb[0]["target"] == N.selfattr("subcon") and paths[0].retval == sb[0]["res"]
    ctx.ob("C01.R5", fi, ok, "Rebuild._build builds EVAL(func) (not obj) and returns the sub-build result", key="Rebuild")
    ctx.ob("C01.R5", "Rebuild", "_parse" not in M.cls("Rebuild").methods and "_parse" not in M.cls("Default").methods, "Rebuild and Default parse like the wrapped construct", key="Rebuild/Default parse", loc=fi.loc)
    fi, paths = own_method_paths(ctx, "Default", "_build")
    isnone = N.mk_cmp("is", OBJ, N.NONE)
    rets = [p for p in paths if p.returns]
    ok = bool(rets) and {decided(p, isnone) for p in rets} == {True, False}
    for p in rets:
        sb = p.of("SUB")
        want = ("eval", N.selfattr("value"), CTX) if decided(p, isnone) else OBJ
        ok = ok and len(sb) == 1 and sb[0]["obj"] == want and p.retval == sb[0]["res"]
    ctx.ob("C01.R5", fi, ok, "Default._build builds obj unless it is None, then EVAL(value)", key="Default")

    identical_directions(ctx, "C01.R5", ("Computed", "Index", "Tell", "Seek", "Pointer", "Check", "StopIf"))
    buildnone_flags(ctx, "C01.R5")
    derived_flag_formulas(ctx, "C01.R5")
    ctx.floor("C01.R5", 10 + 8)

    # ---------------------------------------------------------------- R6
    subs = N.selfattr("subcons")
    for cls in ("Struct", "Sequence", "FocusedSeq", "LazyStruct", "Union", "Select"):
        for meth in ("_parse", "_build"):
            fi, paths = method_paths(ctx, cls, meth)
            loops = [e for e in uniq_events(paths, "LOOP")]
            its = {e["iter"] for e in loops}
            ok = bool(loops) and all(it == subs or it == ("call", ("free", "enumerate"), (subs,), ()) for it in its)
            ctx.ob("C01.R6", fi, ok, "%s.%s iterates self.subcons forwards (no slicing, no reversal): %s" % (cls, meth, sorted(N.show(i) for i in its)), key="%s %s order" % (cls, meth))
    for cls in ("Array", "GreedyRange", "RepeatUntil", "LazyArray"):
        fi, paths = method_paths(ctx, cls, "_build")
        loops = [e for e in uniq_events(paths, "LOOP")]
        ok = bool(loops) and all(e["iter"] == ("call", ("free", "enumerate"), (OBJ,), ()) for e in loops)
        ctx.ob("C01.R6", fi, ok, "%s._build builds the supplied elements in order" % cls, key="%s build order" % cls)
        for p in paths:
            for e in p.events:
                if e.kind == "SUB" and e["m"] == "_build" and e.loops:
                    ctx.ob("C01.R6", fi, e["obj"] == ("elem", OBJ, e.loops[-1]), "%s._build passes each element itself to the element builder" % cls, key="%s element" % cls)
                    break
    for cls in ("Array", "LazyArray"):
        fi, paths = method_paths(ctx, cls, "_build")
        cnt = ("eval", N.selfattr("count"), CTX)
        ln = ("call", ("free", "len"), (OBJ,), ())
        bad = [p for p in paths if N.mk_cmp("!=", ln, cnt) in p.guards()]
        good = [p for p in paths if p.returns]
        ok = bool(bad) and all(p.outcome[0] == "raise" and p.outcome[1].get("cls") == "RangeError" for p in bad) and all(N.mk_cmp("==", ln, cnt) in p.guards() for p in good)
        ctx.ob("C01.R6", fi, ok, "%s._build rejects an object whose length differs from the count" % cls, key="%s count guard" % cls)
    # repeaters: the element result is appended exactly when `discard` is off, and RepeatUntil's predicate sees the list with the current element
    disc = N.selfattr("discard")
    for cls in ("Array", "GreedyRange", "RepeatUntil"):
        for meth, subm in (("_parse", "_parsereport"), ("_build", "_build")):
            fi, paths = method_paths(ctx, cls, meth)
            ok, seen = True, 0
            for p in paths:
                for i, e in enumerate(p.events):
                    if e.kind == "SUB" and e["m"] == subm and e.loops and not e.raised and e["target"] == N.selfattr("subcon"):
                        seg = []
                        for x in p.events[i + 1:]:
                            if x.kind in ("ITER", "LOOPEND") and x["lid"] == e.loops[-1]:
                                break
                            seg.append(x)
                        apps = [x for x in seg if x.kind == "MUT" and x["method"] == "append" and x["args"] == (e["res"],)]
                        g = p.guards()
                        if N.mk_not(disc) in g:
                            seen += 1
                            ok = ok and len(apps) >= 1
                        elif disc in g:
                            seen += 1
                            ok = ok and not apps
            ctx.ob("C01.R6", fi, ok and seen >= 2, "%s.%s appends the element's result exactly when discard is off" % (cls, meth), key="%s %s discard polarity" % (cls, meth))
    for meth in ("_parse", "_build"):
        fi, paths = method_paths(ctx, "RepeatUntil", meth)
        ok, seen = True, 0
        for p in paths:
            if N.mk_not(disc) not in p.guards():
                continue
            for i, e in enumerate(p.events):
                if e.kind == "CALL" and len(e["args"]) == 3 and e.loops and not e.depth and (e["func"] == N.selfattr("predicate") or e["func"][0] in ("lam", "free", "param")):
                    lst = e["args"][1]
                    prior = [x for x in p.events[:i] if x.kind == "MUT" and x["method"] == "append" and x["base"] == lst and x.loops == e.loops]
                    seen += 1
                    ok = ok and bool(prior)
        ctx.ob("C01.R6", fi, ok and seen >= 1, "RepeatUntil.%s hands the predicate the list that already holds the current element" % meth, key="RepeatUntil %s predicate list" % meth)
        # a callable predicate is called as it is; anything else is a constant verdict (wrapped so that the call returns it)
        pred = N.selfattr("predicate")
        call_ok, nc = True, 0
        for p in paths:
            g = p.guards()
            for e in p.events:
                if e.kind == "CALL" and len(e["args"]) == 3 and e.loops and not e.depth:
                    if ("call", ("free", "callable"), (pred,), ()) in g:
                        nc += 1
                        call_ok = call_ok and e["func"] == pred
                    elif N.mk_not(("call", ("free", "callable"), (pred,), ())) in g:
                        nc += 1
                        call_ok = call_ok and e["func"][0] == "lam" and e["func"][1] == 3 and e["func"][2] == pred
        ctx.ob("C01.R6", fi, call_ok and nc >= 2, "RepeatUntil.%s calls a callable predicate itself and treats any other predicate as a constant verdict" % meth, key="RepeatUntil %s predicate kind" % meth)
    focusedseq_focus(ctx, "C01.R6")
    ctx.floor("C01.R6", 32)

    # ---------------------------------------------------------------- R7 the delimiters and encodings both directions must agree on (shared rules)
    # VarInt: what _build emits is canonical LEB128 that _parse's loop terminates on (C03.R7); terminated strings: the terminator unit table
    # (C03.R2) and NullTerminated's unit-wide reads / step-back by len(term) (C08.R2); NullStripped drops only pad (C08.R4)
    from .. import interval
    from . import C03, C08
    interval.leb128_obligations(ctx, "C01.R7")
    from . import C12 as _C12
    for _cls in ("Enum", "FlagsEnum"):
        _C12.enum_merge(ctx, "C01.R7", _cls)          # an alias merged into the tables would make decode(encode(label)) another label (shared with C12.R2)
    from . import C10_helpers
    C10_helpers.zigzag(ctx, "C01.R7")
    C10_helpers.varint_parse_form(ctx, "C01.R7")
    C03.unit_table_check(ctx, "C01.R7")
    C03.pad_content(ctx, "C01.R7")
    C03.numeric_names(ctx, "C01.R7")          # Float64l packs and unpacks with the 8-byte format its name says (a value built with another width does not come back)
    fi, paths = own_method_paths(ctx, "NullTerminated", "_parse")
    C08.null_terminated(ctx, fi, paths, "C01.R7")
    fi, paths = own_method_paths(ctx, "NullStripped", "_parse")
    C08.null_stripped(ctx, fi, paths, "C01.R7")
    from . import C07
    C07.member_store_checks(ctx, "C01.R7")    # what a member parsed or built (derived members included) is visible to the members after it, in both directions
    from . import C13
    C13.flag_test(ctx, "C01.R7")          # FlagsEnum: a label is reported exactly when all bits of its mask are present (what _encode ORs back)
    # bit-level and byte-transforming constructs (named in the property): the stream machinery and the inversion structure, shared
    from ..core import Ctx as _Ctx
    from . import C10, C15
    from . import C09
    # (C09.R3/R4 build side: an alternative or element that fails while building leaves nothing behind in the output, or parsing the bytes sees the debris)
    for mod, rules in ((C10, ("C10.R1", "C10.R2", "C10.R4", "C10.R6")), (C15, ("C15.R1", "C15.R2", "C15.R4", "C15.R6", "C15.R7")), (C09, ("C09.R3", "C09.R4"))):
        sub = shared_run(ctx, mod)
        for e in relevant_errors(sub, rules):
            ctx.error("shared %s rules: %s" % (sub.prop, e))
        for o in sub.obligations:
            if o.rule in rules:
                ctx.ob("C01.R7", o.where, o.ok, o.what, key=o.key, loc=o.loc, detail=o.detail)
    from . import C02, C05, C16
    C02.position_adapters(ctx, "C01.R7")       # Slicing / Indexing put the object back where parse took it
    C05.probe_specificity(ctx, "C01.R7")       # lazy wrappers skip by a probe that is as specific as the class's size
    sub = shared_run(ctx, C16, prop="C16")
    for e in relevant_errors(sub, ("C16.R1", "C16.R2", "C16.R6")):
        ctx.error("shared C16 rules: " + e)
    for o in sub.obligations:
        if o.rule in ("C16.R1", "C16.R2", "C16.R6"):
            ctx.ob("C01.R7", o.where, o.ok, o.what, key=o.key, loc=o.loc, detail=o.detail)
    ctx.floor("C01.R7", 23 + 60)
    # ---------------------------------------------------------------- R8 the compiled form of every construct class (shared with C04.R3/R7/R8)
    from . import C04
    C04.shared_obligations(ctx, "C01.R8", None, with_expressions=True)
    ctx.floor("C01.R8", 100)

    # positive control: chain with a dropped swap in build
    ctl = control_model(
        "def evaluate(param, context):\n    return param(context) if callable(param) else param\n"
        "class Construct(object):\n    pass\n"
        "class BytesInteger(Construct):\n"
        "    def _parse(self, stream, context, path):\n"
        "        length = evaluate(self.length, context)\n"
        "        data = stream_read(stream, length, path)\n"
        "        if evaluate(self.swapped, context):\n            data = swapbytes(data)\n"
        "        return bytes2integer(data, self.signed)\n"
        "    def _build(self, obj, stream, context, path):\n"
        "        length = evaluate(self.length, context)\n"
        "        data = integer2bytes(obj, length, self.signed)\n"
        "        if evaluate(self.swapped, context):\n            data = data\n"
        "        stream_write(stream, data, length, path)\n        return obj\n"
        "def stream_read(stream, length, path):\n    return stream.read(length)\n"
        "def stream_write(stream, data, length, path):\n    stream.write(data)\n")
    from ..core import Ctx
    c2 = Ctx("C01", ctx.tier, ctl.root, model=ctl)
    check_integer_duality(c2, "BytesInteger")
    ctx.control("C01.R4", any(not o.ok for o in c2.obligations))
