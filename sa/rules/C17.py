"""C17 -- constructs are stateless: results do not depend on call history or entry point."""
import ast

from .. import norm as N
from ..summ import root_of
from .common import *
from . import C07

META = {
    "level": "other",
    "explanation": "Effect analysis (R8: no protocol method writes into the object it was given -- the caller's value is read only): (R1) no method of any Construct subclass or expression class, other than the construction-time methods __init__/__setstate__/__copy__, writes an attribute of self, mutates a container reached from self, or calls setattr/delattr on self; (R2) no function in the package declares `global`, rebinds a module-level name, or mutates a module-level or class-level container (frozen: the three documented print-setting functions, which only influence __str__); (R3) each public call builds a fresh context (shared with C07.R3); (R4) parse/parse_file/build/build_file delegate to parse_stream/build_stream with the caller's keyword arguments, a fresh in-memory stream or a file opened in the right mode, and return the delegate's result. R1+R2 establish the absence of shared mutable state, which is the only way call history or thread schedules could influence a result. (R5) start-offset independence: no read length, written data, write length or relative seek of any _parse/_build depends on the absolute stream position once tells are valued by the position algebra (only position differences do). (R6) substreams translate positions by the outer offset of the region's first byte in tell and absolute seeks only (shared with C08.R3). (R7) no attribute of a construct is bound (in __init__ or anywhere else) to a stateful helper object -- stream, file, generator, itertools iterator -- whose state would carry over between calls.",
    "undecided": "Thread schedules as such are not explored; stream objects supplied by the caller are the caller's; Rebuffered (documented experimental) and debug.py are frozen exceptions.",
    "trusted_base": ["python ast (3.12)", "sa.summ summariser (write events SELFWRITE/STORE/MUT/ATTRSET/GLOBALWRITE)"],
    "assumptions": ["aliasing through local names is followed by substitution; aliasing through containers returned by opaque calls is not"],
}

CONSTRUCTION = {"__init__", "__setstate__", "__copy__", "__new__"}
R1_FROZEN = {
    ("Rebuffered._parse", "stream2"): "documented experimental class: re-targets its private RebufferedBytesIO at the current stream",
    ("Rebuffered._build", "stream2"): "documented experimental class: re-targets its private RebufferedBytesIO at the current stream",
}
R7_FROZEN = {
    ("Rebuffered", "stream2"): "documented experimental class: the private RebufferedBytesIO *is* its cross-call state (same exemption as R1)",
}
R2_FROZEN = {"setGlobalPrintFullStrings", "setGlobalPrintFalseFlags", "setGlobalPrintPrivateEntries"}


def module_names(M):
    names = set(M.classes)
    for rel, d in M.module_assigns.items():
        names.update(d)
    return names


def check_effects(ctx, fi, self_cls, shared, in_scope_r1):
    paths = paths_of(ctx, fi, self_cls)
    n = 0
    seen = set()
    for p in paths:
        for e in p.events:
            if id(e.node) in seen or e.depth:
                continue
            if e.kind == "SELFWRITE" and in_scope_r1:
                seen.add(id(e.node))
                b = e["base"]
                first = None
                t = b
                while isinstance(t, tuple) and t and t[0] in ("attr", "sub", "elem") and t[1] != SELF:
                    t = t[1]
                first = t[2] if isinstance(t, tuple) and t[0] == "attr" and t[1] == SELF else (e["attr"] if b == SELF else None)
                if b == SELF and isinstance(e["attr"], str):
                    first = e["attr"]
                fro = (fi.qual, first) in R1_FROZEN
                ctx.ob("C17.R1", fi, fro, "use mutates the construct: write to self%s" % ("." + str(first) if first else ""), node=e.node,
                       detail=R1_FROZEN.get((fi.qual, first)))
                n += 1
            elif e.kind in ("STORE", "MUT", "ATTRSET", "DELITEM", "SETATTR", "DELATTR"):
                r = root_of(e["base"]) if e["base"] is not None else None
                if r is not None and r[0] == "free" and r[1] in shared:
                    seen.add(id(e.node))
                    ctx.ob("C17.R2", fi, fi.name in R2_FROZEN, "mutation of module/class-level state %s" % r[1], node=e.node)
                    n += 1
                elif r is not None and r[0] in ("free", "module") and r[1] in ctx.model.module_imports.get(fi.relpath, ()):
                    seen.add(id(e.node))
                    ctx.ob("C17.R2", fi, False, "mutation of process-global state reached through module `%s` (%s)" % (r[1], N.show(e["base"])), node=e.node)
                    n += 1
            elif e.kind in ("GLOBALDECL", "GLOBALWRITE"):
                seen.add(id(e.node))
                ctx.ob("C17.R2", fi, fi.name in R2_FROZEN, "`global` rebinding of %s" % (e["names"] if e.kind == "GLOBALDECL" else e["name"],), node=e.node)
                n += 1
    return n


def stateless_methods(ctx, rule, names):
    """Every definition of the named protocol methods (class level) leaves the construct and module state alone: one obligation per definition
    (a size remembered on the object answers later calls with the first context's value)."""
    M = ctx.model
    shared = module_names(M)
    n = 0
    for ci in M.construct_classes():
        if ci.relpath.endswith("debug.py"):
            continue
        for nm in names:
            if nm not in ci.methods:
                continue
            fi = FuncInfo(ci.methods[nm], ci.relpath, cls=ci, qual="%s.%s" % (ci.name, nm))
            sub = type(ctx)("C17", ctx.tier, ctx.root, model=ctx.model)
            sub._summ = summariser(ctx)
            check_effects(sub, fi, ci.name, shared, True)
            bad = [o for o in sub.obligations if not o.ok]
            n += 1
            ctx.ob(rule, fi, not bad, "%s keeps no state between calls%s" % (fi.qual, (": " + bad[0].what) if bad else ""), key="stateless")
    return n


def entry_delegation(ctx, rule):
    """parse/parse_file/build/build_file delegate to parse_stream/build_stream with the same object and keyword context."""
    # R4: entry points delegate
    kwfwd = (("**", ("param", "**contextkw")),)
    fi, paths = own_method_paths(ctx, "Construct", "parse")
    p = paths[0]
    subs = [e for e in p.events if e.kind == "SUB"]
    ok = len(paths) == 1 and len(subs) == 1 and subs[0]["m"] == "parse_stream" and subs[0]["target"] == SELF and tuple(subs[0]["kw"] or ()) == kwfwd \
        and subs[0]["stream"][0] == "newstream" and subs[0]["stream"][1] == "BytesIO" and subs[0]["stream"][3] == (("param", "data"),) and p.retval == subs[0]["res"]
    ctx.ob(rule, fi, ok, "parse(data, **kw) == parse_stream(BytesIO(data), **kw)", key="parse")
    fi, paths = own_method_paths(ctx, "Construct", "parse_file")
    p = paths[0]
    subs = [e for e in p.events if e.kind == "SUB"]
    opens = [e for e in p.events if e.kind == "CALL" and e["func"] == ("free", "open")]
    ok = len(subs) == 1 and subs[0]["m"] == "parse_stream" and tuple(subs[0]["kw"] or ()) == kwfwd and len(opens) == 1 \
        and opens[0]["args"][0] == ("param", "filename") and N.is_const(opens[0]["args"][1]) and set(opens[0]["args"][1][2]) == set("rb") \
        and subs[0]["stream"] == ("with", opens[0]["res"]) and p.retval == subs[0]["res"]
    ctx.ob(rule, fi, ok, "parse_file opens the file 'rb' and returns parse_stream(f, **kw)", key="parse_file")
    fi, paths = own_method_paths(ctx, "Construct", "build")
    p = paths[0]
    subs = [e for e in p.events if e.kind == "SUB"]
    ok = len(paths) == 1 and len(subs) == 1 and subs[0]["m"] == "build_stream" and subs[0]["target"] == SELF and tuple(subs[0]["kw"] or ()) == kwfwd \
        and subs[0]["obj"] == OBJ and subs[0]["stream"][0] == "newstream" and subs[0]["stream"][3] == () and p.retval == ("getvalue", subs[0]["stream"])
    ctx.ob(rule, fi, ok, "build(obj, **kw) builds into a fresh BytesIO via build_stream and returns its value", key="build")
    fi, paths = own_method_paths(ctx, "Construct", "build_file")
    p = paths[0]
    subs = [e for e in p.events if e.kind == "SUB"]
    opens = [e for e in p.events if e.kind == "CALL" and e["func"] == ("free", "open")]
    ok = len(subs) == 1 and subs[0]["m"] == "build_stream" and subs[0]["obj"] == OBJ and tuple(subs[0]["kw"] or ()) == kwfwd and len(opens) == 1 \
        and opens[0]["args"][0] == ("param", "filename") and N.is_const(opens[0]["args"][1]) and "w" in opens[0]["args"][1][2] and "b" in opens[0]["args"][1][2] \
        and subs[0]["stream"] == ("with", opens[0]["res"])
    ctx.ob(rule, fi, ok, "build_file opens the file for binary writing and delegates to build_stream(obj, f, **kw)", key="build_file")
    ctx.floor(rule, 4)


def run(ctx):
    from ..core import Ctx
    M = ctx.model
    shared = module_names(M)
    scope_r1 = {c.name for c in M.subclasses("Construct")} | {c.name for c in M.subclasses("ExprMixin")}
    nfun = 0
    for fi in M.all_functions():
        if fi.relpath.endswith("debug.py"):
            continue
        cls = fi.cls.name if fi.cls else None
        top = fi.qual.split(".")
        in_r1 = cls in scope_r1 and not (len(top) >= 2 and top[1] in CONSTRUCTION)
        n = check_effects(ctx, fi, cls, shared, in_r1)
        if in_r1:
            nfun += 1
            if n == 0:
                ctx.ob("C17.R1", fi, True, "no write to self, to a container reached from self, or to shared state", key="pure")
        else:
            if n == 0:
                ctx.ob("C17.R2", fi, True, "no write to module/class-level state", key="pure")
    ctx.extra["methods_in_scope_R1"] = nfun
    ctx.floor("C17.R1", 380)
    ctx.floor("C17.R2", 100)

    # R3: shared with C07
    C07.entry_checks(ctx)
    for o in ctx.obligations:
        if o.rule == "C07.R3":
            o.rule = "C17.R3"
    st = ctx.rule_stats.pop("C07.R3", None)
    if st:
        ctx.rule_stats["C17.R3"] = st

    entry_delegation(ctx, "C17.R4")
    unused_parameters(ctx, "C17.R4", lambda f: f.cls is not None and f.cls.name in ("Construct", "Compiled") and not f.name.startswith("_"))   # no entry point drops an argument (e.g. the keyword context)

    # R5: start-offset independence -- no amount read, written or skipped depends on the absolute position of the stream
    # (positions may be told, restored and reported; what is consumed or emitted is a function of position *differences* only)
    from ..pos import Trace, P0, END
    n5 = 0
    verdict = {}
    for fi, cls in protocol_functions(M, ("_parse", "_build")):
        for p in paths_of(ctx, fi, cls):
            t = Trace(p, STREAM)
            p0 = P0(STREAM)
            for e in p.events:
                if e.depth or e.a.get("stream") != STREAM:
                    continue
                if e.kind == "READ":
                    terms = [("read length", e["length"])]
                elif e.kind == "WRITE":
                    terms = [("written data", e["data"]), ("write length", e["length"])]
                elif e.kind == "SEEK" and e["whence"] != N.const(0):
                    terms = [("relative seek", e["offset"])]
                else:
                    continue
                for what, x in terms:
                    if x is None:
                        continue
                    v = t.val(x)
                    bad = N.contains(v, p0)
                    k = (fi.qual, what, id(e.node))
                    cur = verdict.get(k, (True, fi, e, v))
                    verdict[k] = (cur[0] and not bad, fi, e, v if bad else cur[3])
    for (q, what, _), (ok, fi, e, v) in verdict.items():
        n5 += 1
        ctx.ob("C17.R5", fi, ok, "%s of %s does not depend on the absolute stream position (so parse_stream/build_stream at any starting offset behave like parse/build on a fresh stream)%s" % (what, q, "" if ok else ": " + N.show(v)[:120]),
               key=what, node=e.node)
    # ... and every absolute seek of the parse side goes to a position that was *recorded* on this stream (a tell, a table of tells, a loop-carried
    # tell) or derived from one (tell + bytes read since): a bare number as an absolute target is only right for a stream that starts at 0
    # (shared with C06.R6)
    from . import C06 as _C06
    for fi6, cls6 in protocol_functions(M, _C06.PARSE_SIDE):
        _C06.check_seeks(ctx, fi6, cls6, rule="C17.R5")
    ctx.floor("C17.R5", 60)
    # R6: the substreams of the delimiting wrappers translate positions by the outer offset of the region's first byte, in tell and in absolute
    # seeks only (shared with C08.R3) -- what makes constructs inside a region independent of where the region starts
    from . import C08
    sub = Ctx("C08", ctx.tier, ctx.root, model=ctx.model)
    sub._summ = summariser(ctx)
    C08.run(sub)
    for e in sub.errors:
        ctx.error("shared C08 rules: " + e)
    for o in sub.obligations:
        if o.rule in ("C08.R3", "C08.R2"):
            ctx.ob("C17.R6", o.where, o.ok, o.what, key=o.key, loc=o.loc, detail=o.detail)
    # the lazy classes record absolute offsets: the first one is the entry position, the others are built from position differences (shared with C16.R1/R2)
    from . import C16
    sub = Ctx("C16", ctx.tier, ctx.root, model=ctx.model)
    sub._summ = summariser(ctx)
    C16.run(sub)
    for e in relevant_errors(sub, ("C16.R1", "C16.R2", "C16.R6")):
        ctx.error("shared C16 rules: " + e)
    for o in sub.obligations:
        if o.rule in ("C16.R1", "C16.R2", "C16.R6"):
            ctx.ob("C17.R6", o.where, o.ok, o.what, key=o.key, loc=o.loc, detail=o.detail)
    ctx.floor("C17.R6", 12 + 12 + 14)
    # R7: no construct holds a stateful helper object between calls: an iterator, generator, stream or file created at construction time
    # (or lazily) and then consumed / written by parse or build carries its state from one call into the next
    def stateful(t):
        if not isinstance(t, tuple) or not t:
            return None
        if t[0] == "ite":
            return stateful(t[2]) or stateful(t[3])
        if t[0] == "bool":
            return next((r for r in map(stateful, t[2]) if r), None)
        if t[0] == "newstream":
            return "a stream object (%s)" % t[1]
        if t[0] == "comp" and t[1] == "gen":
            return "a generator"
        if t[0] == "call":
            f = t[1]
            name = f[1] if f[0] == "free" else (f[2] if f[0] == "attr" else "")
            base = str(name).split(".")[-1]
            if base in ("cycle", "count", "repeat", "chain", "islice", "iter", "open", "BytesIO", "StringIO", "zip", "map", "filter", "enumerate", "reversed"):
                return "a one-shot / stateful iterator or stream (%s)" % base
        return None
    n7 = 0
    for ci in M.construct_classes():
        if ci.relpath.endswith("debug.py"):
            continue
        for mname in sorted(ci.methods):
            fi = M.method(ci.name, mname)
            if fi is None or fi.cls is None or fi.cls.name != ci.name:
                continue
            try:
                ps = paths_of(ctx, fi, ci.name)
            except AnalysisError:
                continue
            seenattr = {}
            for p in ps:
                for e in p.events:
                    if e.kind == "SELFWRITE" and e["base"] == SELF and not e.depth:
                        why = stateful(e["value"])
                        cur = seenattr.get(e["attr"])
                        seenattr[e["attr"]] = cur or why
            for attr, why in sorted(seenattr.items()):
                n7 += 1
                if why and (ci.name, attr) in R7_FROZEN:
                    ctx.ob("C17.R7", fi, True, "%s.%s: %s" % (ci.name, attr, R7_FROZEN[(ci.name, attr)]), key="self.%s" % (attr,), detail=R7_FROZEN[(ci.name, attr)])
                    continue
                ctx.ob("C17.R7", fi, not why, "%s.%s keeps %s in self.%s: its state would carry over from one parse/build call to the next" % (ci.name, mname, why or "no stateful object", str(attr)), key="self.%s" % (attr,))
    ctx.floor("C17.R7", 100)

    # ---------------------------------------------------------------- R8 the value handed to a protocol method is the caller's: it is read, never written
    # (a build that plants keys in the mapping it was given answers the next build of that mapping -- by this or another construct -- differently)
    R8_FROZEN = {("NamedTuple._decode", "DELITEM"): "the object is the container the inner Struct has just parsed (fresh, owned by this call); its _io entry is dropped before the tuple is made"}
    n8 = 0
    for fi8, cls8 in protocol_functions(M, names=("_parse", "_build", "_sizeof", "_actualsize", "_decode", "_encode", "_validate")):
        if not has_param(fi8, "obj") or fi8.relpath.endswith("debug.py"):
            continue
        n8 += 1
        seen8 = {}
        for p in paths_of(ctx, fi8, cls8):
            for e in p.events:
                if e.kind in ("STORE", "MUT", "DELITEM", "ATTRSET", "SETATTR", "DELATTR") and not e.depth and e.a.get("base") is not None and root_of(e["base"]) == OBJ and e.a.get("method") not in ("copy",):
                    seen8[id(e.node)] = e
        bad8 = [e for e in seen8.values() if (fi8.qual, e.kind) not in R8_FROZEN]
        ctx.ob("C17.R8", fi8, not bad8, "%s leaves the object it was given untouched%s" % (fi8.qual, (": " + bad8[0].show()[:120]) if bad8 else ""), key="obj untouched",
               detail=next((R8_FROZEN[(fi8.qual, e.kind)] for e in seen8.values() if (fi8.qual, e.kind) in R8_FROZEN), None))
    ctx.floor("C17.R8", 80)

    # positive control
    ctl = control_model(
        "import sys\nTABLE = {}\n"
        "class Construct(object):\n    pass\n"
        "class X(Construct):\n"
        "    memo = {}\n"
        "    def _parse(self, stream, context, path):\n"
        "        self._last = stream\n"
        "        self.cache[path] = 1\n"
        "        X.memo[path] = 2\n"
        "        TABLE.update(a=1)\n"
        "        sys.modules[path] = self\n"
        "        return 0\n")
    c2 = Ctx("C17", ctx.tier, ctl.root, model=ctl)
    fi = ctl.method("X", "_parse")
    check_effects(c2, fi, "X", module_names(ctl), True)
    bad = [o.rule for o in c2.obligations if not o.ok]
    ctx.control("C17.R1", bad.count("C17.R1") == 2)
    ctx.control("C17.R2", bad.count("C17.R2") == 3)
