"""C09 -- look-ahead and alternatives leave the stream exactly where their contract says."""
import ast

from .. import norm as N
from ..pos import Trace, TOP, P0, END, is_top
from .common import *

META = {
    "level": "other",
    "explanation": "Typestate check with a symbolic stream-position algebra (sa/pos.py) over every acyclic path of the five classes, including the exceptional edges out of the inner parse: (R1) Peek._parse ends at its entry position on every exit -- return, swallowed ConstructError, re-raised ExplicitError and any other exception (the seek sits in a finally that covers the inner parse); (R2) Pointer._parse/_build tell first, seek to the target with whence 2 exactly when the offset is negative, process the inner construct on that same stream and end at the entry position; (R3) Select._parse takes the position before each alternative, ends a failed alternative at that position, does not seek after a successful one and returns its result; (R4) GreedyRange._parse takes the fallback position in every iteration before the element, ends at that iteration's fallback when the element fails, and appends an element only after it parsed; (R5) Union._parse parses every member from the same start (seek back after each member), records each member's end position under its index and its name between the member's parse and the seek back, and ends at the start or at the recorded end of the selected member; (R6) the generated parse_peek/parse_pointer/build_pointer/parse_union templates satisfy the same contracts (C04 engine). R6 also decides the generation-time index of Union's selected member: an int parsefrom is the index itself, a str parsefrom is looked up in {member.name: position in self.subcons} counted over all members, None selects nothing.",
    "undecided": "Equality of the returned value with the member parsed in isolation (value-level).",
    "trusted_base": ["python ast (3.12)", "sa.summ summariser incl. exceptional edges", "sa.pos position algebra", "stream_* helper semantics (tell/seek/read move the position as named)"],
    "assumptions": ["a sub-construct call on the stream advances it by an unknown non-negative amount and leaves it anywhere if it raises"],
}


def traces(ctx, cls, meth, stream=STREAM):
    fi, paths = method_paths(ctx, cls, meth)
    return fi, [(p, Trace(p, stream)) for p in paths]


def pointer_stream(paths):
    """Pointer works on `evaluate(self.stream, context) or stream`."""
    for p in paths:
        for e in p.events:
            if e.kind == "TELL":
                return e["stream"]
    return STREAM


def run(ctx):
    M = ctx.model
    S = summariser(ctx)

    # ---------------------------------------------------------------- R1 Peek
    fi, trs = traces(ctx, "Peek", "_parse")
    kinds = set()
    for p, t in trs:
        how = p.outcome[0]
        if how == "raise":
            how = "reraise" if p.outcome[1].get("reraised") else "propagate"
        subs = [e for e in p.events if e.kind == "SUB"]
        # a returning path on which the inner parse raised swallowed that failure (whether it falls off the end or returns a None it prepared)
        if p.returns and any(e.raised for e in subs):
            how = "swallowed"
        elif how == "fall":
            how = "swallowed"
        kinds.add(how)
        ctx.ob("C09.R1", fi, t.final == P0(STREAM), "Peek._parse ends at its entry position on exit '%s' (got %s)" % (how, N.show(t.final)), key="exit %s" % how)
        if how == "return":
            ctx.ob("C09.R1", fi, len(subs) == 1 and p.retval == subs[0]["res"] and subs[0]["stream"] == STREAM, "Peek._parse returns the inner result", key="value")
        elif how == "swallowed":
            ctx.ob("C09.R1", fi, p.retval == N.NONE, "Peek._parse returns None when the inner parse failed", key="value swallowed")
    ctx.ob("C09.R1", fi, {"return", "swallowed", "reraise", "propagate"} <= kinds, "all four exits of Peek._parse were analysed (%s)" % sorted(kinds), key="exits covered")
    ctx.floor("C09.R1", 6)

    # ---------------------------------------------------------------- R2 Pointer
    for meth, kind in (("_parse", "_parsereport"), ("_build", "_build")):
        fi, paths = method_paths(ctx, "Pointer", meth)
        s = pointer_stream(paths)
        want_s = ("bool", "or", (("eval", N.selfattr("stream"), CTX), STREAM))
        ctx.ob("C09.R2", fi, s == want_s, "Pointer.%s works on `evaluate(self.stream, context) or stream`" % meth, key="stream identity")
        off = ("eval", N.selfattr("offset"), CTX)
        for p in paths:
            t = Trace(p, s)
            if not p.returns:
                continue
            evs = [e for e in p.events if e.kind in ("TELL", "SEEK", "SUB")]
            shape = [e.kind for e in evs]
            ok = shape == ["TELL", "SEEK", "SUB", "SEEK"] and all(e.a.get("stream") == s for e in evs)
            ctx.ob("C09.R2", fi, ok, "Pointer.%s is tell, seek, inner construct, seek -- all on the same stream (got %s)" % (meth, shape), key="shape")
            if not ok:
                continue
            wh = evs[1]["whence"]
            neg = N.mk_cmp("<", off, N.const(0))
            d = decided(p, neg)
            ok = evs[1]["offset"] == off and (wh == ("ite", neg, N.const(2), N.const(0)) or (d is True and wh == N.const(2)) or (d is False and wh == N.const(0)))
            ctx.ob("C09.R2", fi, ok, "the target seek uses whence 2 exactly when the offset is negative, else 0", key="whence")
            ctx.ob("C09.R2", fi, evs[2]["m"] == kind and evs[2]["target"] == N.selfattr("subcon") and p.retval == evs[2]["res"], "the inner construct is processed at the target and its result returned", key="inner")
            ctx.ob("C09.R2", fi, t.final == P0(s), "Pointer.%s ends at its entry position (got %s)" % (meth, N.show(t.final)), key="restore")
    ctx.floor("C09.R2", 10)

    # ---------------------------------------------------------------- R3 Select
    fi, trs = traces(ctx, "Select", "_parse")
    n_fail = n_ok = 0
    for p, t in trs:
        for i, e in enumerate(p.events):
            if e.kind != "SUB" or e["stream"] != STREAM:
                continue
            before = t.pos_before(e)
            # tell taken in this iteration before the alternative
            it_start = max((j for j, x in enumerate(p.events[:i]) if x.kind == "ITER"), default=0)
            tells = [x for x in p.events[it_start:i] if x.kind == "TELL" and x["stream"] == STREAM]
            anchor_ok = bool(tells) and t.val(tells[-1]["res"]) == before
            if not tells:
                # the position taken once before the loop serves every alternative, by induction over the iterations: nothing moves the stream
                # between that tell and the loop, nothing in an iteration moves it before the alternative, and an iteration that goes on to the
                # next alternative ends with an absolute seek back to it (obligation "failed alternative restored" below)
                lp = next((j for j, x in enumerate(p.events[:i]) if x.kind == "LOOP"), None)
                pre = [x for x in p.events[:lp] if x.kind == "TELL" and x["stream"] == STREAM] if lp is not None else []
                if pre:
                    j0 = p.index(pre[-1])
                    quiet = not any(x.kind in ("READ", "READALL", "SEEK", "WRITE", "SUB", "RAWIO") and x.a.get("stream") == STREAM for x in p.events[j0 + 1:i])
                    anchor_ok = quiet and t.val(pre[-1]["res"]) == t.pos_before(p.events[lp])
                    if anchor_ok:
                        before = t.val(pre[-1]["res"])
            ctx.ob("C09.R3", fi, anchor_ok, "the position every alternative starts from is taken before it (in its iteration, or once before the loop with every failed alternative seeking back to it)", key="tell before alternative", node=e.node)
            if e.raised:
                nxt = p.events[i + 1] if i + 1 < len(p.events) else None
                if nxt is None or nxt.kind != "CATCH" or nxt["types"] == ("ExplicitError",):
                    continue
                n_fail += 1
                end = next((x for x in p.events[i + 1:] if x.kind == "ENDCATCH" and x["tid"] == nxt["tid"]), None)
                pos = t.pos_after(end) if end is not None else None
                ctx.ob("C09.R3", fi, end is not None and pos == before, "a failed alternative ends at the position taken before it (got %s)" % (N.show(pos) if pos else "no handler exit"), key="failed alternative restored", node=e.node)
            else:
                n_ok += 1
                rest = p.events[i + 1:]
                ctx.ob("C09.R3", fi, p.outcome[0] == "return" and p.retval == e["res"] and not any(x.kind in ("SEEK", "READ", "SUB") for x in rest),
                       "a successful alternative's result is returned with the stream left where it ended", key="success untouched", node=e.node)
    ctx.ob("C09.R3", fi, n_fail >= 1 and n_ok >= 1, "both the failing and the succeeding edge of an alternative were analysed", key="edges covered")
    # build side of "no trace of a failed alternative": an alternative never builds into the real stream; the only thing written there is
    # the complete output of the alternative that succeeded
    fb, pb = own_method_paths(ctx, "Select", "_build")
    ok = bool(pb)
    for p in pb:
        for e in p.events:
            if e.kind == "SUB" and e["m"] in ("_build", "build_stream") and e.a.get("stream") == STREAM:
                ok = False
            if e.kind in ("SEEK", "TELL") and e["stream"] == STREAM:
                ok = False
        wr = [e for e in p.events if e.kind == "WRITE" and e["stream"] == STREAM]
        if p.returns:
            subs = [e for e in p.events if e.kind == "SUB" and e["m"] == "build" and not e.raised]
            ok = ok and len(wr) == 1 and bool(subs) and wr[0]["data"] == subs[-1]["res"]
        else:
            ok = ok and not wr
    ctx.ob("C09.R3", fb, ok, "Select._build builds every alternative into a scratch buffer and writes only the successful alternative's complete output to the stream (a failing alternative cannot leave bytes behind)", key="build leaves no trace")
    ctx.floor("C09.R3", 6)

    # ---------------------------------------------------------------- R4 GreedyRange
    fi, trs = traces(ctx, "GreedyRange", "_parse")
    n_fail = n_app = 0
    for p, t in trs:
        for i, e in enumerate(p.events):
            if e.kind == "SUB" and e["stream"] == STREAM:
                it_start = max((j for j, x in enumerate(p.events[:i]) if x.kind == "ITER"), default=None)
                tells = [x for x in p.events[(it_start or 0):i] if x.kind == "TELL" and x["stream"] == STREAM] if it_start is not None else []
                before = t.pos_before(e)
                ctx.ob("C09.R4", fi, bool(tells) and t.val(tells[-1]["res"]) == before, "the fallback position is taken in every iteration before the element", key="fallback per iteration", node=e.node)
                if e.raised:
                    nxt = p.events[i + 1] if i + 1 < len(p.events) else None
                    if nxt is None or nxt.kind != "CATCH" or not S.catches(nxt["types"], "StreamError"):
                        continue
                    n_fail += 1
                    ctx.ob("C09.R4", fi, p.returns and t.final == before, "a failing element leaves the stream at the end of the last success (got %s)" % N.show(t.final), key="failed element restored", node=e.node)
                else:
                    apps = [x for x in p.events[i + 1:] if x.kind == "MUT" and x["method"] == "append"]
                    for a in apps:
                        n_app += 1
                        ctx.ob("C09.R4", fi, a["args"] == (e["res"],), "only the parsed element is appended, after it parsed", key="append after success", node=a.node)
            if e.kind == "MUT" and e["method"] == "append":
                prior = [x for x in p.events[:i] if x.kind == "SUB" and not x.raised and x.loops == e.loops]
                ctx.ob("C09.R4", fi, bool(prior), "append is preceded by a successful element parse in the same iteration", key="append order", node=e.node)
    ctx.ob("C09.R4", fi, n_fail >= 1 and n_app >= 1, "failing and succeeding element edges were analysed", key="edges covered")
    # "what the successive elements alone would have returned": element k is parsed as element k (shared with C07.R5)
    from . import C07 as _C07
    _C07.element_index(ctx, "C09.R4", [("GreedyRange", "_parse")])
    for cls, rule in (("Select", "C09.R3"), ("GreedyRange", "C09.R4")):
        f2, ps = own_method_paths(ctx, cls, "_parse")
        trs2 = [t for t in uniq_events(ps, "TRY") if any(e.kind == "SUB" and t["tid"] in e.trys for p in ps for e in p.events)]
        total = bool(trs2) and all(any(set(h) & {"Exception", "BaseException", "*"} for h in t["handlers"]) for t in trs2)
        ctx.ob(rule, f2, total, "%s._parse: the handler that restores the position catches every exception of the failing %s (`except Exception`), not only ConstructErrors -- a KeyError out of a context expression must not leave the stream mid-element" % (
            cls, "alternative" if cls == "Select" else "element"), key="total handler")
    ctx.floor("C09.R4", 5)

    # ---------------------------------------------------------------- R5 Union
    fi, trs = traces(ctx, "Union", "_parse")
    pf = ("eval", N.selfattr("parsefrom"), None)
    seen_sel = set()
    for p, t in trs:
        evs = p.events
        loop = next((e for e in evs if e.kind == "LOOP"), None)
        if loop is None:
            continue
        li = p.index(loop)
        t0s = [e for e in evs[:li] if e.kind == "TELL" and e["stream"] == STREAM]
        ctx.ob("C09.R5", fi, len(t0s) == 1, "Union._parse takes the start position once before the members", key="start tell")
        if not t0s:
            continue
        start = t.val(t0s[0]["res"])
        for i, e in enumerate(evs):
            if e.kind == "SUB" and e["stream"] == STREAM and not e.raised and e.loops:
                lid = e.loops[-1]
                ctx.ob("C09.R5", fi, t.pos_before(e) == start, "every member is parsed from the common start (got %s)" % N.show(t.pos_before(e)), key="member start", node=e.node)
                after = t.pos_after(e)
                end = next((j for j, x in enumerate(evs[i:], i) if x.kind == "LOOPEND" and x["lid"] == lid), len(evs))
                seg = evs[i + 1:end]
                seekback = [x for x in seg if x.kind == "SEEK" and x["stream"] == STREAM]
                ctx.ob("C09.R5", fi, len(seekback) == 1 and t.pos_after(seekback[0]) == start, "the stream is moved back to the start after each member", key="seek back", node=e.node)
                stores = [x for x in seg if x.kind == "STORE" and x["base"][0] == "new" and x["base"][1] == "dict"]
                sb = p.index(seekback[0]) if seekback else len(evs)
                good = bool(stores) and all(t.val(x["value"]) == after and p.index(x) < sb for x in stores)
                ctx.ob("C09.R5", fi, good, "each recorded member end is the position right after that member, taken before the seek back", key="forwards value", node=e.node)
                keys = {x["key"] for x in stores}
                named = any(x.kind == "ASSUME" and x["cond"] == ("attr", e["target"], "name") for x in seg)
                want = {("idx", lid)} | ({("attr", e["target"], "name")} if named else set())
                ctx.ob("C09.R5", fi, keys == want, "member ends are recorded under the member's index%s" % (" and name" if named else ""), key="forwards keys %s" % ("named" if named else "anonymous"), node=e.node)
        if p.returns:
            g = p.guards()
            sel_none = any(c[0] == "cmp" and c[1] == "is" and c[2][0] == "eval" and c[2][1] == N.selfattr("parsefrom") and c[3] == N.NONE for c in g)
            sel_some = any(c[0] == "cmp" and c[1] == "is not" and c[2][0] == "eval" and c[2][1] == N.selfattr("parsefrom") and c[3] == N.NONE for c in g)
            if sel_none:
                seen_sel.add("none")
                ctx.ob("C09.R5", fi, t.final == start, "with parsefrom None the union ends at the start (got %s)" % N.show(t.final), key="end at start")
            elif sel_some:
                seen_sel.add("some")
                fin = t.final
                ok = fin[0] == "sub" and fin[1][0] == "new" and fin[1][1] == "dict" and fin[2][0] == "eval" and fin[2][1] == N.selfattr("parsefrom")
                ctx.ob("C09.R5", fi, ok, "with a selected member the union ends at that member's recorded end (got %s)" % N.show(fin), key="end at selected")
    ctx.ob("C09.R5", fi, seen_sel == {"none", "some"}, "both parsefrom branches were analysed", key="branches covered")
    ctx.floor("C09.R5", 12)

    # Pointer / Peek inside a delimited region act on a BytesIOWithOffsets: its tell/seek translation (shared with C08.R3)
    from . import C08
    C08.substream_class_checks(ctx, "C09.R2")
    # ... created with the absolute position of the region's first byte as its offset (shared with C08.R3): an absolute Pointer target inside the
    # region is translated by exactly that offset
    if not getattr(ctx, "_shared_into_c08", False):
        sub8 = shared_run(ctx, C08, prop="C08", flags=("_shared_into_c09",))
        for e in sub8.errors:
            ctx.error("shared C08 rules: " + e)
        for o in sub8.obligations:
            if o.rule == "C08.R3" and o.key in ("offset value", "substream class"):
                ctx.ob("C09.R2", o.where, o.ok, o.what, key=o.key, loc=o.loc, detail=o.detail)
    # ... or, inside a bit-level region, on a RestreamedBytesIO: tell() counts exactly what was handed out, a read that meets the end hands
    # out nothing and moves nothing, seek() accepts only the current position (shared with C10.R4) -- what a failed alternative relies on to rewind
    from ..core import Ctx as _Ctx
    from . import C10
    sub = shared_run(ctx, C10, prop="C10")
    for e in sub.errors:
        ctx.error("shared C10 rules: " + e)
    for o in sub.obligations:
        if o.rule in ("C10.R4", "C10.R6"):       # ... and is a fresh wrapper per call (R6): units a failed alternative left in a reused wrapper would be read by the next one
            ctx.ob("C09.R2", o.where, o.ok, o.what, key=o.key, loc=o.loc, detail=o.detail)
    # R6: generated templates (engine T)
    try:
        from . import C09_templates
        C09_templates.run(ctx)
    except ImportError:
        ctx.notes.append("R6 (generated templates) not built yet")

    # ---------------------------------------------------------------- positive control: Peek without finally
    ctl = control_model(
        "class ConstructError(Exception):\n    pass\nclass ExplicitError(ConstructError):\n    pass\nclass StreamError(ConstructError):\n    pass\n"
        "def stream_tell(stream, path):\n    return stream.tell()\n"
        "def stream_seek(stream, offset, whence, path):\n    return stream.seek(offset, whence)\n"
        "class Construct(object):\n    pass\n"
        "class Peek(Construct):\n"
        "    def _parse(self, stream, context, path):\n"
        "        fallback = stream_tell(stream, path)\n"
        "        try:\n            obj = self.subcon._parsereport(stream, context, path)\n"
        "            stream_seek(stream, fallback, 0, path)\n            return obj\n"
        "        except ExplicitError:\n            raise\n"
        "        except ConstructError:\n            pass\n")
    from ..core import Ctx
    c2 = Ctx("C09", ctx.tier, ctl.root, model=ctl)
    fi2, trs2 = traces(c2, "Peek", "_parse")
    ctx.control("C09.R1", any(t.final != P0(STREAM) for p, t in trs2))
