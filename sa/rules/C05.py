"""C05 -- sizeof is exact when it answers and fails only with SizeofError."""
import ast

from .. import norm as N
from ..summ import root_of
from .common import *

META = {
    "level": "other",
    "explanation": "Exception-flow and sibling-agreement check of every _sizeof/_actualsize: (R1) in all definitions of _sizeof and _actualsize every evaluation of a context-dependent parameter and every context lookup lies inside a try whose handler covers KeyError and AttributeError and raises SizeofError(path); every explicit raise is SizeofError (frozen, documented exemption: PaddingError for negative length / modulus < 2); _sizeof touches no stream; (R2) the amount _sizeof returns equals, as a normalised symbolic term, the net amount _build writes and the net amount _parse reads under the compositional abstraction 'a sub-construct moves the stream by what its own _sizeof returns' (stream-position algebra, see sa/pos.py); (R3) every class whose parse amount is data dependent (reads to end of stream, loops an unbounded number of times over the stream, returns from inside an alternative loop, seeks relative to the end) resolves _sizeof to a definition that raises SizeofError on every path (frozen exemption from the property text: ProcessXor/ProcessRotateLeft read to the end regardless of declared size); (R4) sizeof() enters with the (sizeof) context and the default _actualsize delegates to _sizeof. (R5) the four transforming macros instantiate Transformed/Restreamed with unit amounts and a size computer equal to the inner size through the unit ratio of their decoder (shared with C10.R1/R2). (R6) generated parse/build code moves the stream as the interpreter methods do (shared with C04.R3/R7/R8).",
    "undecided": "That real builds advance by exactly n for all values follows from R2 only under 'sub-constructs honour their own sizeof' (induction over nesting); user callbacks (sizecomputer, lambdas) are opaque.",
    "trusted_base": ["python ast (3.12)", "sa.summ summariser", "sa.pos position algebra", "linear-arithmetic normal form of sa.norm"],
    "assumptions": ["negative lengths / modulus < 2 are exempt by documentation"],
}

R1_RAISE_FROZEN = {
    ("Padded._sizeof", "PaddingError"): "negative length: exempt by the property ('negative lengths / modulus < 2')",
    ("Aligned._sizeof", "PaddingError"): "modulus < 2: exempt by the property",
    ("FixedSized._sizeof", "PaddingError"): "negative length: exempt by the property",
}
R3_FROZEN = {
    "ProcessXor": "reads to end of stream regardless of declared size (exempt by the property text); answers the sub-construct's size",
    "ProcessRotateLeft": "reads to end of stream regardless of declared size (exempt by the property text)",
    "Transformed": "reads to end only when decodeamount is None, and then _sizeof refuses (checked as its own instance)",
    "Restreamed": "outer stream driven by RestreamedBytesIO; checked at its macro sites (C10.R2)",
    "Rebuffered": "documented experimental",
    "Compiled": "opaque generated parsefunc",
    "Lazy": "skips by _actualsize (C16.R1)",
    "LazyStruct": "skips by _actualsize with fallback to parsing (C16.R2)",
    "LazyArray": "skips by _actualsize with fallback to parsing (C16.R2)",
    "Renamed": "pure delegation", "RawCopy": "re-reads what the sub-construct consumed",
}


def guarded(S, p, e, classes=("KeyError", "AttributeError")):
    trs = [t for t in p.events if t.kind == "TRY" and t["tid"] in e.trys]
    return all(any(S.catches(h, c) for t in trs for h in t["handlers"]) for c in classes)


def check_sizeof_def(ctx, fi, cls, rule="C05.R1"):
    S = summariser(ctx)
    M = ctx.model
    paths = paths_of(ctx, fi, cls)
    verdict = {}
    for p in paths:
        for i, e in enumerate(p.events):
            if e.depth:
                continue
            k = id(e.node)
            if e.kind == "EVAL" or (e.kind == "GETITEM" and S.is_ctx(root_of(e["base"]))) or \
                    (e.kind == "CALL" and e["func"][0] == "attr" and e["func"][1] == SELF and e["callee"] == "method" and e["func"][2] not in ("sizecomputer",)):
                ok = guarded(S, p, e)
                if ok and e.raised:
                    nxt = p.events[i + 1] if i + 1 < len(p.events) else None
                    if nxt is not None and nxt.kind == "CATCH" and (S.catches(nxt["types"], "KeyError") or S.catches(nxt["types"], "AttributeError")):
                        ok = p.outcome[0] == "raise" and p.outcome[1].get("cls") == "SizeofError" and p.outcome[1].get("path") == PATH
                what = "%s is evaluated outside a (KeyError, AttributeError) -> SizeofError(path) handler: a missing context key escapes as KeyError" % (
                    N.show(e["param"]) if e.kind == "EVAL" else N.show(e.a.get("base") or e.a.get("func")))
                cur = verdict.get(k, (True, e, what, "eval"))
                verdict[k] = (cur[0] and ok, e, what, "eval %s" % (N.show(e["param"]) if e.kind == "EVAL" else N.show(e.a.get("base") or e.a.get("func"))))
            elif e.kind == "RAISE":
                c = e["cls"]
                ok = c == "SizeofError" or (fi.qual, c) in R1_RAISE_FROZEN
                verdict[k] = (ok, e, "%s raises %s; only SizeofError may escape sizeof" % (fi.qual, c), "raise %s" % c)
            elif e.kind in STREAM_EVENTS + ("RAWIO",) and fi.name == "_sizeof":
                verdict[k] = (False, e, "_sizeof touches a stream (%s)" % e.kind, "stream %s" % e.kind)
            elif e.kind in ("CTXSET", "CTXUPDATE") and e.a.get("ctx") in (CTX, ("free", "context")):
                # sizing is a question, not an operation: it must not plant entries (an `_index`, a default) in the caller's scope that make a
                # later evaluation succeed where parse and build would see a different value
                verdict[k] = (False, e, "%s writes the caller's context (%s) while sizing" % (fi.qual, N.show(e["key"]) if e.kind == "CTXSET" else "update"), "context write %s" % (N.show(e["key"]) if e.kind == "CTXSET" else "update"))
    for ok, e, what, key in verdict.values():
        ctx.ob(rule, fi, ok, what, node=e.node, key=key, detail=R1_RAISE_FROZEN.get((fi.qual, e["cls"])) if e.kind == "RAISE" else None)
    if not verdict:
        ctx.ob(rule, fi, True, "no context evaluation, raise or stream access to guard", key="trivial")
    return len(verdict)


def default_probe(ctx, rule):
    fi, paths = own_method_paths(ctx, "Construct", "_actualsize")
    p = paths[0]
    subs = p.of("SUB")
    ok = len(paths) == 1 and len(subs) == 1 and subs[0]["m"] == "_sizeof" and subs[0]["target"] == SELF and subs[0]["ctx"] == CTX and subs[0]["path"] == PATH and p.retval == subs[0]["res"]
    ctx.ob(rule, fi, ok, "the default _actualsize delegates to _sizeof(context, path)", key="default actualsize")


def probe_specificity(ctx, rule):
    M = ctx.model
    # the size probe the lazy classes use is never less specific than the class's own size: the _actualsize a class resolves to is its own,
    # or is defined at or below the class that defines its _sizeof, or is Construct's default (which asks self._sizeof)
    n4 = 0
    for ci in M.construct_classes():
        if ci.relpath.endswith("debug.py"):
            continue
        fa, fs = M.resolve(ci.name, "_actualsize"), M.resolve(ci.name, "_sizeof")
        if fa is None or fs is None or fa.cls is None or fs.cls is None:
            continue
        mro = [c.name for c in ci.mro]
        ia, isz = mro.index(fa.cls.name), mro.index(fs.cls.name)
        ok = fa.cls.name == "Construct" or ia <= isz
        n4 += 1
        ctx.ob(rule, ci.name, ok, "%s: _actualsize comes from %s, _sizeof from %s -- a probe inherited from above the class that defines the size would measure something else (e.g. only the inner construct)" % (
            ci.name, fa.cls.name, fs.cls.name), key="%s probe specificity" % ci.name, loc=ci.relpath)


def data_dependent(ctx, cls):
    """Reason why the parse amount of `cls` depends on data, or None."""
    fi, paths = method_paths(ctx, cls, "_parse", required=False)
    if fi is None:
        return None
    S = summariser(ctx)
    for p in paths:
        stream_in = {STREAM} | {("param", n) for n in getattr(S, "stream_params", ())}
        for e in p.events:
            if e.depth:
                continue
            if e.kind == "READALL" and e["stream"] == STREAM:
                return "reads the incoming stream to its end"
            if e.kind == "SEEK" and e["stream"] == STREAM and e["whence"] == N.const(2):
                # restored afterwards?
                later = [x for x in p.events[p.index(e) + 1:] if x.kind == "SEEK" and x["stream"] == STREAM and x["whence"] == N.const(0)]
                if not later:
                    return "seeks relative to the end of the stream"
            if e.kind in ("READ", "SUB") and e.a.get("stream") == STREAM and e.loops:
                lid = e.loops[-1]
                loop = next((x for x in p.events if x.kind == "LOOP" and x["lid"] == lid), None)
                if loop is not None:
                    it = loop["iter"]
                    unbounded = loop["kind"] == "while" or (it[0] == "call" and it[1][0] == "attr" and it[1][2] == "count")
                    if unbounded:
                        return "loops an unbounded, data-dependent number of times over the stream"
                    if e.kind == "SUB" and p.returns and any(x.kind == "RETURN" and x.loops == e.loops for x in p.events) and \
                            any(x.kind == "CATCH" for x in p.events if x.loops == e.loops) is False and \
                            any(t.kind == "TRY" and t.loops == e.loops for t in p.events):
                        return "returns from inside a loop over alternatives (the successful alternative decides the amount)"
    return None


def run(ctx):
    M = ctx.model
    S = summariser(ctx)
    # ---------------------------------------------------------------- R1
    n = 0
    for fi in M.own_methods("_sizeof") + M.own_methods("_actualsize"):
        n += 1
        check_sizeof_def(ctx, fi, fi.cls.name)
    for name, mf in M.macros().items():
        for cl in M.closures(mf):
            if cl.name in ("_sizeof", "_actualsize"):
                n += 1
                check_sizeof_def(ctx, cl, None)
    ctx.extra["sizeof_definitions"] = n
    if n < 45:
        ctx.error("C05.R1: only %d _sizeof/_actualsize definitions found, floor 45" % n)
    # a size is computed from the context of the call, every time: no _sizeof / _actualsize remembers anything on the object (shared with C17.R1)
    from . import C17 as _C17
    _C17.stateless_methods(ctx, "C05.R1", ("_sizeof", "_actualsize"))
    # the configurations _sizeof refuses are the ones _parse and _build refuse (a length of 0 that parses and builds must also size), shared with C01.R2;
    # and the probe of the length-prefixed classes is the amount their _parse consumes (shared with C16.R6)
    from ..core import Ctx as _CtxS
    from . import C01 as _C01s, C16 as _C16s
    for mod, rules in ((_C01s, ("C01.R2",)), (_C16s, ("C16.R6",))):
        subS = _CtxS(mod.__name__.split(".")[-1], ctx.tier, ctx.root, model=ctx.model)
        subS._summ = summariser(ctx)
        subS._shared_into_c05 = True
        mod.run(subS)
        for e in relevant_errors(subS, rules):
            ctx.error("shared %s rules: %s" % (subS.prop, e))
        for o in subS.obligations:
            if o.rule in rules and ("_sizeof" in str(o.where) or "_actualsize" in str(o.where) or o.rule == "C16.R6"):
                ctx.ob("C05.R1", o.where, o.ok, o.what, key=o.key, loc=o.loc, detail=o.detail)
    ctx.floor("C05.R1", 60 + 45)

    # ---------------------------------------------------------------- R3
    n3 = 0
    for ci in M.construct_classes():
        if ci.name in R3_FROZEN or ci.name in ("Construct", "Subconstruct", "Adapter", "SymmetricAdapter", "Validator"):
            continue
        if M.resolve(ci.name, "_parse") is None:
            continue
        why = data_dependent(ctx, ci.name)
        if why is None:
            continue
        n3 += 1
        fs, ps = method_paths(ctx, ci.name, "_sizeof")
        ok = bool(ps) and all(p.outcome[0] == "raise" and p.outcome[1].get("cls") == "SizeofError" for p in ps)
        # Transformed-like: refuses exactly when unsized -- handled by frozen list
        ctx.ob("C05.R3", fs, ok, "%s %s, so %s must refuse with SizeofError on every path (resolved to %s)" % (ci.name, why, "sizeof", fs.qual),
               key="%s unsized" % ci.name, loc="%s:%d" % (ci.relpath, ci.node.lineno))
    for cls in sorted(R3_FROZEN):
        if cls in ("ProcessXor", "ProcessRotateLeft"):
            ctx.ob("C05.R3", M.method(cls, "_sizeof"), data_dependent(ctx, cls) is not None, "frozen exemption still applies: %s" % R3_FROZEN[cls], key="%s frozen" % cls)
    ctx.floor("C05.R3", 10)

    # ---------------------------------------------------------------- R4
    default_probe(ctx, "C05.R4")
    fi, paths = own_method_paths(ctx, "Construct", "_sizeof")
    ok = len(paths) == 1 and paths[0].outcome[0] == "raise" and paths[0].outcome[1].get("cls") == "SizeofError" and paths[0].outcome[1].get("path") == PATH
    ctx.ob("C05.R4", fi, ok, "a construct that does not define _sizeof refuses with SizeofError(path)", key="default sizeof")
    fi, paths = own_method_paths(ctx, "Construct", "sizeof")
    subs = [e for e in uniq_events(paths, "SUB") if e["m"] == "_sizeof"]
    ok = len(subs) == 1 and subs[0]["target"] == SELF and subs[0]["path"] == N.const("(sizeof)") and all(p.retval == subs[0]["res"] for p in paths if p.returns)
    ctx.ob("C05.R4", fi, ok, "sizeof() returns _sizeof(fresh context, '(sizeof)')", key="entry")
    probe_specificity(ctx, "C05.R4")
    ctx.floor("C05.R4", 3 + 60)

    # ---------------------------------------------------------------- R5 the size a transforming macro reports is the inner size through the unit ratio (shared with C10.R1/R2)
    from . import C10
    C10.check_macros(ctx, ("Bitwise", "Bytewise", "ByteSwapped", "BitsSwapped"), "C05.R5", "C05.R5", "C05.R5")
    from . import C15
    C15.length_preserving(ctx, "C05.R5")      # ProcessXor / ProcessRotateLeft report the inner size: the transform must keep the byte count
    ctx.floor("C05.R5", 16)
    from . import C04
    C04.shared_obligations(ctx, "C05.R6", {"Prefixed", "PrefixedArray", "Padded", "Aligned", "FixedSized", "Bytes", "Array", "Struct", "Sequence", "IfThenElse", "Switch", "Pointer", "Peek", "FormatField", "BytesInteger"}, with_expressions=True)
    from . import C10
    C10.machinery(ctx, "C05.R6")
    C10.restreamed_sizeof(ctx, "C05.R6")      # Transformed reads its declared amount (0 included) / Restreamed always goes through the wrapper
    ctx.floor("C05.R6", 12)

    # R2 is produced by the position algebra
    try:
        from . import C05_amounts
        C05_amounts.run(ctx)
    except ImportError:
        ctx.notes.append("R2 (amount agreement) not built yet")

    # positive control
    from ..core import Ctx
    ctl = control_model(
        "class ConstructError(Exception):\n    pass\nclass SizeofError(ConstructError):\n    pass\nclass RangeError(ConstructError):\n    pass\n"
        "def evaluate(param, context):\n    return param(context) if callable(param) else param\n"
        "class Construct(object):\n    pass\n"
        "class X(Construct):\n"
        "    def _sizeof(self, context, path):\n"
        "        n = evaluate(self.length, context)\n"
        "        if n < 0: raise RangeError('neg', path=path)\n"
        "        return n\n")
    c2 = Ctx("C05", ctx.tier, ctl.root, model=ctl)
    check_sizeof_def(c2, ctl.method("X", "_sizeof"), "X")
    bad = [o.key for o in c2.obligations if not o.ok]
    ctx.control("C05.R1", len(bad) == 2, str(bad))
