"""C05.R2 -- the amount _sizeof returns equals the net amount _build writes and _parse reads (symbolic)."""
from .. import norm as N
from ..amounts import *
from ..pos import TOP, is_top
from .common import summariser, SELF

FROZEN = {
    "Compiled": "opaque generated parsefunc/buildfunc",
    "Restreamed": "the outer stream is driven by RestreamedBytesIO; checked at its macro sites (C10.R2)",
    "Rebuffered": "documented experimental",
    "RestreamData": "documented asymmetric: parsing may consume a Construct-typed datafunc from the stream, building does nothing, size is declared 0",
    "Transformed": "amounts are constructor constants checked by the dedicated Transformed rule below",
    "ProcessXor": "exempt by the property text (reads to end of stream); build side compared below",
    "ProcessRotateLeft": "exempt by the property text (reads to end of stream); build side compared below",
    "Debugger": "debug aid", "Probe": "debug aid",
    "TimestampAdapter": "abstract adapter over arrow (third-party)",
}
ABSTRACT = ("Construct", "Subconstruct", "Adapter", "SymmetricAdapter", "Validator", "Tunnel")
BUILD_DATA_BRANCH = {"RawCopy": "building from `data` emits exactly the supplied bytes (documented); compared on the `value` branch"}


def substitute_parsed(amount, build_rows, guards):
    """Replace values parsed from a length field by what _build writes into that field."""
    parsed = [x for x in N.walk(amount) if x[0] == "subres" and x[1] in ("_parsereport", "_parse") ]
    if not parsed:
        return [amount]
    outs = []
    for g, a, p in build_rows:
        if not compatible(guards, g):
            continue
        m = {}
        for x in parsed:
            subs = [e for e in p.events if e.kind == "SUB" and e["m"] == "_build" and e["target"] == x[2]]
            if len(subs) == 1:
                m[x] = sz_abstract(subs[0]["obj"])
        if len(m) == len(parsed):
            r = N.rebuild(amount, m)
            r = resolve_scratch(p, r)
            outs.append(r)
    return outs


def compare_class(ctx, cls, rule="C05.R2", need_sizeof=True):
    S = summariser(ctx)
    M = ctx.model
    fs, sz, szpaths = sizeof_amounts(S, M, cls)
    if need_sizeof and not sz:
        return 0
    fp, pr = method_amounts(S, M, cls, "_parse")
    fb, br = method_amounts(S, M, cls, "_build")
    if fp is None or fb is None:
        return 0
    n = 0
    szset = {a for g, a, p in sz}
    for side, f, rows in (("parse", fp, pr), ("build", fb, br)):
        good = [(g, a, p) for g, a, p in rows if a not in MARKERS and not is_top(a)]
        # a path that swallowed a sub-construct's failure and returns normally leaves the stream wherever the failure happened,
        # unless it restores a recorded position; only the documented early stop (StopFieldError) may do that
        lost = {}
        for g, a, p in rows:
            if not is_top(a):
                continue
            sw = [e for e in p.events if e.kind == "CATCH" and not e.depth and any(x.kind == "ENDCATCH" and x["tid"] == e["tid"] and x["handler"] == e["handler"] for x in p.events)]
            for e in sw:
                if tuple(e["types"]) != ("StopFieldError",):
                    lost[id(e.node)] = e
        for e in lost.values():
            n += 1
            ctx.ob(rule, f, False, "%s.%s swallows %s from a sub-construct and returns with the stream left where the failure happened, while _sizeof answers %s" % (
                cls, f.name, "/".join(e["types"]), " / ".join(sorted(N.show(s) for s in szset)) or "nothing"), key="%s %s position lost after %s" % (cls, side, "/".join(e["types"])), node=e.node)
        if not good:
            ctx.ob(rule, f, False, "%s.%s: no path with a decidable net amount" % (cls, f.name), key="%s %s undecidable" % (cls, side))
            n += 1
            continue
        verdicts = {}
        for g, a, p in good:
            if side == "build" and cls in BUILD_DATA_BRANCH and any(c[0] == "cmp" and c[1] == "in" and c[2] == N.const("data") for c in p.guards()):
                continue
            cands = substitute_parsed(a, br, g) if side == "parse" else [a]
            if not cands:
                cands = [a]
            for c in cands:
                want = [s for gs, s, ps in sz if compatible(g, gs)]
                ok = c in want
                verdicts[c] = (verdicts.get(c, True) and ok, want)
        for c, (ok, want) in verdicts.items():
            n += 1
            ctx.ob(rule, f, ok, "%s._%s moves the stream by %s but _sizeof answers %s" % (cls, side, N.show(c), " / ".join(N.show(w) for w in want) or "nothing"),
                   key="%s %s amount %s" % (cls, side, N.show(c))[:200])
    # converse: every answer _sizeof can give is the amount of some parse path and some build path under compatible configuration
    if sz and cls not in REVERSE_EXEMPT:
        for side, f, rows in (("parse", fp, pr), ("build", fb, br)):
            amounts = []
            for g, a, p in rows:
                if a in MARKERS or is_top(a):
                    continue
                for c in (substitute_parsed(a, br, g) if side == "parse" else [a]) or [a]:
                    amounts.append((g, c))
            if not amounts:
                continue
            for gs, sval, ps in sz:
                hit = any(c == sval and compatible(g, gs) for g, c in amounts)
                n += 1
                ctx.ob(rule, fs, hit, "%s._sizeof can answer %s, but no %s path moves the stream by that amount" % (cls, N.show(sval), side), key="%s sizeof answer %s has a %s path" % (cls, N.show(sval)[:80], side))
    return n


REVERSE_EXEMPT = {}


def run(ctx):
    M = ctx.model
    S = summariser(ctx)
    n = 0
    classes = []
    for ci in M.construct_classes():
        if ci.name in FROZEN or ci.name in ABSTRACT or ci.relpath.endswith("debug.py"):
            continue
        classes.append(ci.name)
        n += compare_class(ctx, ci.name)
    ctx.extra["amount_classes"] = len(classes)
    ctx.floor("C05.R2", 80)

    # Transformed: constants
    from .common import own_method_paths, STREAM
    fi, paths = own_method_paths(ctx, "Transformed", "_sizeof")
    da, ea = N.selfattr("decodeamount"), N.selfattr("encodeamount")
    rets = [p for p in paths if p.returns]
    def _flat(p):
        out = set()
        for c in p.guards():
            out |= set(c[2]) if c[0] == "bool" and c[1] == "and" else {c}
        return out
    ok = bool(rets) and all(p.retval in (ea, da) and N.mk_cmp("==", da, ea) in _flat(p) for p in rets)
    ctx.ob("C05.R2", fi, ok, "Transformed._sizeof answers encodeamount only when it equals decodeamount", key="Transformed sizeof")
    fi, paths = own_method_paths(ctx, "Transformed", "_parse")
    reads = [e for p in paths for e in p.events if e.kind == "READ"]
    ctx.ob("C05.R2", fi, bool(reads) and all(e["length"] == da and e["stream"] == STREAM for e in reads), "Transformed._parse reads exactly decodeamount bytes", key="Transformed parse")
    fi, paths = own_method_paths(ctx, "Transformed", "_build")
    # whatever the test for "an amount was given" (isinstance int, is not None): a returning path either established len(data) == encodeamount
    # or runs under a guard saying that no amount was given
    isint = ("call", ("free", "isinstance"), (ea, ("free", "int")), ())
    nogiven = {N.mk_not(isint), N.mk_cmp("is", ea, N.NONE), ("call", ("free", "isinstance"), (ea, ("call", ("free", "type"), (N.NONE,), ())), ())}
    rets = [p for p in paths if p.returns]
    ok = bool(rets)
    nfix = 0
    for p in rets:
        w = [e for e in p.events if e.kind == "WRITE" and e["stream"] == STREAM]
        g = set()
        for c in p.guards():
            g |= set(c[2]) if c[0] == "bool" and c[1] == "and" else {c}
        eq = N.mk_cmp("==", w[0]["length"], ea) if len(w) == 1 else None
        fixed = eq is not None and eq in g
        either = eq is not None and any(c[0] == "bool" and c[1] == "or" and eq in c[2] and set(c[2]) - {eq} <= nogiven for c in g)     # "none given, or it fits"
        nfix += fixed or either
        ok = ok and len(w) == 1 and (fixed or either or bool(g & nogiven))
    ok = ok and nfix >= 1
    ctx.ob("C05.R2", fi, ok, "Transformed._build writes exactly encodeamount bytes when it is an integer (else StreamError)", key="Transformed build")
    # RestreamData (parse side documented asymmetric, frozen above): building emits nothing, and that is what _sizeof must answer
    fi, paths = own_method_paths(ctx, "RestreamData", "_sizeof")
    fb, bpaths = own_method_paths(ctx, "RestreamData", "_build")
    silent = bool(bpaths) and not any(e.kind in ("WRITE", "RAWIO", "SUB", "READ", "SEEK") for p in bpaths for e in p.events)
    ctx.ob("C05.R2", fi, silent and bool(paths) and all(p.returns and p.retval == N.const(0) for p in paths), "RestreamData._build leaves the stream alone and _sizeof answers 0", key="RestreamData sizeof")
    # ProcessXor / ProcessRotateLeft: build writes len(data) with data of the scratch stream's length (byte-wise maps)
    for cls in ("ProcessXor", "ProcessRotateLeft"):
        fi, paths = own_method_paths(ctx, cls, "_build")
        rets = [p for p in paths if p.returns]
        ok = bool(rets)
        for p in rets:
            w = [e for e in p.events if e.kind == "WRITE" and e["stream"] == STREAM]
            ok = ok and len(w) == 1 and w[0]["length"] == ("call", ("free", "len"), (w[0]["data"],), ())
        ctx.ob("C05.R2", fi, ok, "%s._build writes the transformed data with its own length" % cls, key="%s build" % cls)
