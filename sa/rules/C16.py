"""C16 -- lazy parsing is observationally equal to eager parsing under any access order."""
import ast

from .. import norm as N
from ..pos import Trace, P0, TOP, is_top
from .common import *

META = {
    "level": "other",
    "explanation": "Position contracts of the lazy classes, decided with the symbolic position algebra: (R1) Lazy._parse records offset = entry position, ends exactly at offset + _actualsize(...) whatever the size probe did to the stream, and its deferred parse seeks to the recorded offset, parses with the captured context/path and restores the position it found (position-neutral); (R2) LazyStruct/LazyArray._parse: offsets[0] is the entry position; in every iteration, on the sized path the stream is moved absolutely to offset+size and that same value is stored in offsets[i+1]; on the unsizable path the real parse starts at the member's offset (a size probe that failed half-way is undone), its value is cached under i, and offsets[i+1] is the position after it; (R3) LazyContainer/LazyListContainer.__getitem__ return the cached value if present, otherwise seek to offsets[index], parse with the captured context/path, cache under the same index, and leave the stream where they found it; writes touch only the cache; (R4) LazyStruct._build/_sizeof and LazyArray._build/_sizeof are path-for-path identical to Struct/Array (modulo Array's discard flag); (R5) closures patched onto macro instances as protocol methods have the arity of their call sites (instance attributes are not bound). R3 also decides enumeration: LazyListContainer.__iter__/__eq__/slices visit self[i] for i in index order over the parse-time count, LazyContainer.keys/values/items/__iter__ follow the struct's named members in declaration order, __eq__ is Container.__eq__. (R7) what the lazy classes skip by _sizeof is what an eager parse would consume: sizeof term = parse amount = build amount for every class (shared with C05.R2).",
    "undecided": "Value equality under all access histories follows from R1-R3 only together with position independence of the members (no cross references), which the property assumes.",
    "trusted_base": ["python ast (3.12)", "sa.summ summariser", "sa.pos position algebra"],
    "assumptions": ["a size probe (_actualsize) may move the stream by an unknown amount (Prefixed/PrefixedArray read their length field)"],
}

ARITY = {"_actualsize": 3, "_emitparse": 1, "_emitbuild": 1, "_emitseq": 2, "_emitprimitivetype": 2, "_emitfulltype": 2, "_sizeof": 2, "_parse": 3, "_build": 4}


def arity_check(ctx, rule):
    M = ctx.model
    # ---------------------------------------------------------------- R5 patched closures arity
    n = 0
    for name, mf in M.macros().items():
        assigned = {}
        for node in ast.walk(mf.node):
            if isinstance(node, ast.Assign) and len(node.targets) == 1 and isinstance(node.targets[0], ast.Attribute) \
                    and isinstance(node.targets[0].value, ast.Name) and isinstance(node.value, ast.Name):
                assigned[node.targets[0].attr] = (node.value.id, node)
        defs = {d.name: d for d in ast.walk(mf.node) if isinstance(d, ast.FunctionDef) and d is not mf.node}
        for attr, (fname, node) in assigned.items():
            if attr in ARITY and fname in defs:
                d = defs[fname]
                npos = len(d.args.posonlyargs) + len(d.args.args)
                nreq = npos - len(d.args.defaults)
                n += 1
                ok = nreq <= ARITY[attr] <= npos or (d.args.vararg is not None and nreq <= ARITY[attr])
                ctx.ob(rule, FuncInfo(d, mf.relpath, qual="%s.%s" % (name, fname)), ok,
                       "closure patched as instance attribute %s is called with %d arguments but takes %d (instance attributes are not bound, so there is no self)" % (attr, ARITY[attr], npos),
                       key="arity %s" % attr, node=d)



def run(ctx):
    M = ctx.model
    S = summariser(ctx)
    subcon = N.selfattr("subcon")
    p0 = P0(STREAM)

    # ---------------------------------------------------------------- R1 Lazy
    fi, paths = own_method_paths(ctx, "Lazy", "_parse")
    rets = [p for p in paths if p.returns]
    ctx.ob("C16.R1", fi, len(rets) == 1, "Lazy._parse has one successful path", key="single path")
    for p in rets:
        t = Trace(p, STREAM)
        probes = [e for e in p.events if e.kind == "SUB" and e["m"] == "_actualsize" and e["target"] == subcon]
        ok = len(probes) == 1
        ctx.ob("C16.R1", fi, ok, "Lazy._parse sizes the inner construct with _actualsize", key="probe")
        if ok:
            want = N.mk_add(p0, probes[0]["res"])
            ctx.ob("C16.R1", fi, t.final == want, "Lazy._parse ends at entry + actual size, independent of what the size probe did to the stream (got %s)" % N.show(t.final), key="skip exact")
        ctx.ob("C16.R1", fi, p.retval is not None and p.retval[0] == "closure", "Lazy._parse returns the deferred parse", key="returns closure")
        for name, cfi in p.closures.items():
            if not isinstance(cfi, FuncInfo):
                continue
            cps = summariser(ctx).summarise(cfi, bindings=p.env, self_cls="Lazy")
            ctx.saw(cfi, paths=len(cps))
            for cp in cps:
                if not cp.returns:
                    continue
                ct = Trace(cp, STREAM)
                subs = [e for e in cp.events if e.kind == "SUB"]
                tells = [e for e in p.events if e.kind == "TELL" and e["stream"] == STREAM]
                ok = len(subs) == 1 and subs[0]["m"] == "_parsereport" and subs[0]["target"] == subcon and subs[0]["ctx"] == CTX and subs[0]["path"] == PATH
                ctx.ob("C16.R1", cfi, ok, "the deferred parse uses the captured context and path", key="deferred args")
                if ok and tells:
                    ctx.ob("C16.R1", cfi, ct.pos_before(subs[0]) == tells[0]["res"], "the deferred parse starts at the offset recorded at parse time (got %s)" % N.show(ct.pos_before(subs[0])), key="deferred start")
                    ctx.ob("C16.R1", fi, t.val(tells[0]["res"]) == p0 and p.index(tells[0]) < p.index(probes[0]) if probes else False, "the offset is the entry position, taken before the size probe", key="offset entry")
                ctx.ob("C16.R1", cfi, ct.final == P0(STREAM), "the deferred parse leaves the stream where it found it (got %s)" % N.show(ct.final), key="deferred neutral")
                ctx.ob("C16.R1", cfi, bool(subs) and cp.retval == subs[0]["res"], "the deferred parse returns the parsed value", key="deferred value")
    ctx.floor("C16.R1", 8)

    # ---------------------------------------------------------------- R2 offset tables
    for cls in ("LazyStruct", "LazyArray"):
        fi, paths = own_method_paths(ctx, cls, "_parse")
        seen = set()
        for p in paths:
            if not p.returns:
                continue
            t = Trace(p, STREAM)
            tells = [e for e in p.events if e.kind == "TELL" and e["stream"] == STREAM and not e.loops]
            ret = p.retval
            offs = ret[3][2] if cls == "LazyStruct" else ret[3][3]
            ok = offs[0] == "dict" and len(offs[1]) == 1 and offs[1][0][0] == N.const(0) and t.val(offs[1][0][1]) == p0
            ctx.ob("C16.R2", fi, ok, "offsets[0] is the entry position", key="offsets[0]")
            for i, e in enumerate(p.events):
                if e.kind != "ITER":
                    continue
                lid = e["lid"]
                end = next((j for j, x in enumerate(p.events[i:], i) if x.kind == "LOOPEND" and x["lid"] == lid), len(p.events))
                seg = p.events[i:end]
                start = t.pos_before(e)
                # induction over iterations: the loop-carried accumulator that held the entry position before the loop
                # holds the current position at the start of every iteration (step: checked below as offsets[i+1] == end position)
                loop_ev = next(x for x in p.events if x.kind == "LOOP" and x["lid"] == lid)
                hyp = {}
                for x in seg:
                    for v in x.a.values():
                        if isinstance(v, tuple):
                            for y in N.walk(v):
                                if y[0] == "lv" and y[2] == lid and y[3] is not None and t.val(y[3]) == t.pos_before(loop_ev):
                                    hyp[y] = start
                hv = lambda term: N.rebuild(t.val(N.rebuild(term, hyp)), {t.val(k): v for k, v in hyp.items()}) if term is not None else None
                stores = [x for x in seg if x.kind == "STORE" and x["base"] == offs]
                endpos = t.pos_before(p.events[end]) if end < len(p.events) else t.final
                hp = lambda pos: N.rebuild(pos, {t.val(k): v for k, v in hyp.items()}) if pos is not None else None
                endpos = hp(endpos)
                ok = len(stores) == 1 and stores[0]["key"] == N.mk_add(("idx", lid), N.const(1)) and hv(stores[0]["value"]) == endpos and not is_top(endpos)
                probe = [x for x in seg if x.kind == "SUB" and x["m"] == "_actualsize"]
                real = [x for x in seg if x.kind == "SUB" and x["m"] == "_parsereport"]
                kind = "unsizable" if real else "sized"
                seen.add(kind)
                ctx.ob("C16.R2", fi, ok, "%s path: offsets[i+1] equals the stream position at the end of the iteration (stored %s, position %s)" % (
                    kind, N.show(hv(stores[0]["value"])) if stores else "nothing", N.show(endpos)), key="offsets[i+1] %s" % kind)
                if kind == "sized":
                    sk = [x for x in seg if x.kind == "SEEK" and x["stream"] == STREAM]
                    ctx.ob("C16.R2", fi, len(sk) == 1 and sk[0]["whence"] == N.const(0) and probe and hv(sk[0]["offset"]) == N.mk_add(start, probe[0]["res"]),
                           "sized path: absolute seek to member offset + actual size", key="sized skip")
                else:
                    ctx.ob("C16.R2", fi, len(real) == 1 and hp(t.pos_before(real[0])) == start and not is_top(start),
                           "unsizable path: the real parse starts at the member's offset even if the failed size probe moved the stream (starts at %s, member offset %s)" % (
                               N.show(hp(t.pos_before(real[0]))) if real else "?", N.show(start)), key="fallback start")
                    vals = ret[3][3] if cls == "LazyStruct" else ret[3][4]
                    cache = [x for x in seg if x.kind == "STORE" and x["base"] == vals]
                    ctx.ob("C16.R2", fi, len(cache) == 1 and cache[0]["key"] == ("idx", lid) and real and cache[0]["value"] == real[0]["res"], "the really parsed value is cached under the member's index", key="fallback cache")
        ctx.ob("C16.R2", fi, seen == {"sized", "unsizable"}, "%s._parse: sized and unsizable iteration paths analysed" % cls, key="paths covered")
    ctx.floor("C16.R2", 14)

    # ---------------------------------------------------------------- R3 on-demand access
    for cls, sub_target in (("LazyContainer", None), ("LazyListContainer", N.selfattr("_subcon"))):
        fi, paths = own_method_paths(ctx, cls, "__getitem__")
        s = N.selfattr("_stream")
        vals, offs = N.selfattr("_values"), N.selfattr("_offsets")
        hit = miss = 0
        for p in paths:
            if not p.returns:
                continue
            g = p.guards()
            cached = [c for c in g if c[0] == "cmp" and c[1] == "in" and c[3] == vals]
            uncached = [c for c in g if c[0] == "cmp" and c[1] == "not in" and c[3] == vals]
            if cached:
                hit += 1
                idx = cached[0][2]
                ctx.ob("C16.R3", fi, p.retval == ("sub", vals, idx) and not p.of("SEEK", "SUB", "READ"), "%s: a cached value is returned without touching the stream" % cls, key="cache hit")
            elif uncached:
                miss += 1
                idx = uncached[0][2]
                t = Trace(p, s)
                subs = p.of("SUB")
                ok = len(subs) == 1 and subs[0]["m"] == "_parsereport" and subs[0]["stream"] == s and subs[0]["ctx"] == N.selfattr("_context") and subs[0]["path"] == N.selfattr("_path")
                ctx.ob("C16.R3", fi, ok, "%s: an uncached member is parsed from the recorded stream with the captured context and path" % cls, key="miss parse")
                if not ok:
                    continue
                ctx.ob("C16.R3", fi, t.pos_before(subs[0]) == ("sub", offs, idx), "%s: the parse starts at offsets[index] (got %s)" % (cls, N.show(t.pos_before(subs[0]))), key="miss start")
                st = [e for e in p.events if e.kind in ("SELFWRITE", "STORE") and e.a.get("base") == vals]
                ctx.ob("C16.R3", fi, len(st) == 1 and st[0]["key"] == idx and st[0]["value"] == subs[0]["res"] and p.retval == subs[0]["res"], "%s: the value is cached under the same index and returned" % cls, key="miss cache")
                others = [e for e in p.events if e.kind in ("SELFWRITE", "ATTRSET") and e.a.get("base") != vals]
                ctx.ob("C16.R3", fi, not others, "%s: access writes only the cache" % cls, key="miss effects")
                ctx.ob("C16.R3", fi, t.final == P0(s), "%s: access leaves the stream where the surrounding parse had it (got %s)" % (cls, N.show(t.final)), key="access neutral")
                if cls == "LazyContainer":
                    ctx.ob("C16.R3", fi, subs[0]["target"] == ("sub", ("attr", N.selfattr("_struct"), "subcons"), idx), "LazyContainer parses member subcons[index]", key="miss target")
                else:
                    ctx.ob("C16.R3", fi, subs[0]["target"] == sub_target, "LazyListContainer parses the element construct", key="miss target")
        ctx.ob("C16.R3", fi, hit >= 1 and miss >= 1, "%s.__getitem__: hit and miss paths analysed" % cls, key="paths covered")
    # enumeration: iterating a lazy container visits every member once, in declaration / index order, through __getitem__
    def unwrap(t):
        while t and t[0] == "call" and t[1] in (("free", "iter"), ("free", "list"), ("free", "tuple")) and len(t[2]) == 1:
            t = t[2][0]
        return N.canon_lids(t) if t else t
    def comp_of(paths):
        rets = [unwrap(p.retval) for p in paths if p.returns]
        if len(rets) != len(paths) or len(set(rets)) != 1 or rets[0][0] != "comp":
            return None, None, None
        c = rets[0]
        if len(c[3]) != 1 or c[3][0][1] != ():
            return None, None, None
        return c[2], c[3][0][0], c
    count = N.selfattr("_count")
    rng = ("call", ("free", "range"), (count,), ())
    at = lambda k: ("sub", SELF, k)
    fi, paths = own_method_paths(ctx, "LazyListContainer", "__iter__")
    el, src, _ = comp_of(paths)
    ctx.ob("C16.R3", fi, el == at(("idx", 0)) and src == rng, "LazyListContainer.__iter__ yields self[i] for i = 0..count-1 in index order on every path (the cache dict is in first-access order and is not an element order)", key="iter order")
    fi, paths = own_method_paths(ctx, "LazyListContainer", "__len__")
    ctx.ob("C16.R3", fi, all(p.retval == count for p in paths), "LazyListContainer.__len__ is the element count fixed at parse time", key="len")
    fi, paths = own_method_paths(ctx, "LazyListContainer", "__eq__")
    other = ("param", "other")
    lens = N.mk_cmp("==", ("call", ("free", "len"), (SELF,), ()), ("call", ("free", "len"), (other,), ()))
    want_all = ("call", ("free", "all"), (("comp", "gen", N.mk_cmp("==", at(("idx", 0)), ("sub", other, ("idx", 0))), ((rng, ()),), (0,)),), ())
    # the length of a LazyListContainer is its parse-time count (the "len" obligation above), so either spelling states the same comparison
    lens2 = N.mk_cmp("==", count, ("call", ("free", "len"), (other,), ()))
    ok = len(paths) == 1 and N.canon_lids(paths[0].retval) in (N.mk_bool("and", [lens, want_all]), N.mk_bool("and", [lens2, want_all]))
    ctx.ob("C16.R3", fi, ok, "LazyListContainer.__eq__ compares lengths and every element by index", key="eq")
    fi, paths = own_method_paths(ctx, "LazyListContainer", "__getitem__")
    sl = [p for p in paths if ("call", ("free", "isinstance"), (("param", "index"), ("free", "slice")), ()) in p.guards()]
    el, src, _ = comp_of(sl)
    want_src = ("call", ("free", "range"), (("star", ("call", ("attr", ("param", "index"), "indices"), (count,), ())),), ())
    ctx.ob("C16.R3", fi, bool(sl) and el == at(("idx", 0)) and src == want_src, "LazyListContainer slices are [self[i] for i in range(*slice.indices(count))]", key="slice order")
    names = ("attr", N.selfattr("_struct"), "_subcons")
    fi, paths = own_method_paths(ctx, "LazyContainer", "keys")
    ctx.ob("C16.R3", fi, all(unwrap(p.retval) == names for p in paths), "LazyContainer.keys iterates the struct's named members in declaration order", key="keys order")
    fi, paths = own_method_paths(ctx, "LazyContainer", "values")
    el, src, _ = comp_of(paths)
    def other_table(src_):
        # the members are enumerated from another table of the struct (e.g. its name -> index map): whether that table is in declaration order
        # and whether self[<its entry>] is the member is a fact about LazyStruct.__init__ this rule does not derive -- undecided, not violated
        return src_ is not None and src_ != names and any(x == N.selfattr("_struct") for x in N.walk(src_))
    if other_table(src):
        ctx.error("C16.R3 undecided: LazyContainer.values enumerates %s, not the struct's table of named members" % N.show(src)[:80])
    ctx.ob("C16.R3", fi, (el == at(("elem", names, 0)) and src == names) or other_table(src), "LazyContainer.values yields self[name] for the named members in declaration order", key="values order")
    fi, paths = own_method_paths(ctx, "LazyContainer", "items")
    el, src, _ = comp_of(paths)
    if other_table(src):
        ctx.error("C16.R3 undecided: LazyContainer.items enumerates %s, not the struct's table of named members" % N.show(src)[:80])
    ctx.ob("C16.R3", fi, (el == ("tuple", (("elem", names, 0), at(("elem", names, 0)))) and src == names) or other_table(src), "LazyContainer.items yields (name, self[name]) in declaration order", key="items order")
    lc = M.cls("LazyContainer")
    alias = [st for st in lc.node.body if isinstance(st, ast.Assign) and any(isinstance(t, ast.Name) and t.id == "__iter__" for t in st.targets)]
    ok = ("__iter__" in lc.methods and False) or (len(alias) == 1 and isinstance(alias[0].value, ast.Name) and alias[0].value.id == "keys")
    if "__iter__" in lc.methods:
        fi2, paths = own_method_paths(ctx, "LazyContainer", "__iter__")
        ok = all(unwrap(p.retval) == names for p in paths)
    ctx.ob("C16.R3", "LazyContainer", ok, "iterating a LazyContainer iterates its keys (dict.__iter__ would see the empty underlying dict)", key="iter is keys", loc="construct/core.py")
    fi, paths = own_method_paths(ctx, "LazyContainer", "__eq__")
    ctx.ob("C16.R3", fi, len(paths) == 1 and paths[0].retval == ("call", ("attr", ("free", "Container"), "__eq__"), (SELF, other), ()), "LazyContainer.__eq__ is Container.__eq__ (which reads through keys/__getitem__)", key="eq")
    ctx.floor("C16.R3", 23)

    # index table of LazyStruct: names map to positions in the same list that _parse offsets and __getitem__ index
    fi, paths = own_method_paths(ctx, "LazyStruct", "__init__")
    w = []
    for p in paths:
        raw = [e["value"] for e in p.events if e.kind == "SELFWRITE" and e["attr"] == "subcons"]
        back = {raw[-1]: N.selfattr("subcons")} if raw else {}
        for e in p.events:
            if e.kind == "SELFWRITE" and e["attr"] == "_subconsindexes":
                w.append(N.canon_lids(N.subst(e["value"], back)))
    subs = N.selfattr("subcons")
    el = ("elem", subs, 0)
    want_gen = ("comp", "gen", ("tuple", (("attr", el, "name"), ("idx", 0))), ((("call", ("free", "enumerate"), (subs,), ()), (("attr", el, "name"),)),), (0,))
    ok = len(set(w)) == 1 and w[0][0] == "new" and w[0][1] == "Container" and w[0][3] == (want_gen,)
    ctx.ob("C16.R3", fi, ok, "LazyStruct._subconsindexes maps each named member to its index in self.subcons (the list _parse offsets and __getitem__ index)", key="index table")

    # ---------------------------------------------------------------- R6 the size probe equals the parse amount
    fa, pa = own_method_paths(ctx, "Prefixed", "_actualsize")
    fp, pp = own_method_paths(ctx, "Prefixed", "_parse")
    inc = N.selfattr("includelength")
    def norm_amount(term):
        # the length field is parsed with _parse in the probe and _parsereport in the real parse: same quantity
        m = {}
        for x in N.walk(term):
            if x[0] == "subres" and x[1] in ("_parse", "_parsereport"):
                m[x] = ("subres", "parse", x[2], x[3])
            if x[0] == "delta":
                m[x] = ("delta", x[2])
        return N.rebuild(term, m)
    for flag in (True, False):
        g = inc if flag else N.mk_not(inc)
        a = [p for p in pa if p.returns and g in p.guards()]
        b = [p for p in pp if p.returns and g in p.guards()]
        ok = len(a) == 1 and len(b) == 1
        if ok:
            ta, tb = Trace(a[0], STREAM), Trace(b[0], STREAM)
            probe = norm_amount(ta.val(a[0].retval))
            real = norm_amount(N.mk_add(tb.final, P0(STREAM), -1))
            ok = probe == real
            detail = "probe %s vs parse %s" % (N.show(probe), N.show(real))
        else:
            detail = "paths %d/%d" % (len(a), len(b))
        ctx.ob("C16.R6", fa, ok, "Prefixed._actualsize (includelength=%s) returns exactly the amount Prefixed._parse consumes (%s)" % (flag, detail), key="probe amount includelength=%s" % flag)
    # PrefixedArray's probe: bytes of the count field plus count elements of the element's size -- what its FocusedSeq expansion consumes
    mf = M.macros().get("PrefixedArray")
    if mf is None:
        raise AnalysisError("anchor vanished: PrefixedArray")
    cls_ = [c for c in M.closures(mf) if c.name == "_actualsize"]
    ok, detail = len(cls_) == 1, "closure not found"
    if ok:
        ps = [p for p in paths_of(ctx, cls_[0]) if p.returns]
        ok = len(ps) == 1
        if ok:
            p = ps[0]
            t = Trace(p, STREAM)
            got = t.val(p.retval)
            cf = [e for e in p.events if e.kind == "SUB" and e["m"] in ("_parse", "_parsereport") and e["stream"] == STREAM]
            sz = [e for e in p.events if e.kind == "SUB" and e["m"] == "_sizeof"]
            ok = len(cf) == 1 and len(sz) == 1 and cf[0]["target"][1] == "countfield" and sz[0]["target"][1] == "subcon"
            if ok:
                d = [k for k, e in t.deltas.items() if e is cf[0]]
                want = N.mk_add(d[0], N.mk_mul(cf[0]["res"], sz[0]["res"])) if d else None
                ok = want is not None and got == want and t.final == N.mk_add(P0(STREAM), d[0])
            detail = "returns %s" % N.show(got)
    ctx.ob("C16.R6", cls_[0] if cls_ else mf, ok, "PrefixedArray._actualsize returns the bytes the count field took plus count * sizeof(element) -- independent of where the array starts (%s)" % detail, key="PrefixedArray probe amount")
    # who defines a size probe: Construct (the default: _sizeof) and Prefixed (reference above).  A forwarding probe (`return self.subcon._actualsize(
    # stream, context, path)` and nothing else touching the stream) is the inner construct's probe; any other new class-level probe has no reference
    # here -- where each element's probe starts is exactly what the position algebra cannot assume -- and is reported as undecided, not passed over
    for ci in M.construct_classes():
        if "_actualsize" not in ci.methods or ci.name in ("Construct", "Prefixed") or ci.relpath.endswith("debug.py"):
            continue
        fq = M.method(ci.name, "_actualsize")
        pq = [p for p in paths_of(ctx, fq, ci.name) if p.returns]
        fwd = bool(pq) and all(len([e for e in p.events if e.kind in ("SUB", "READ", "READALL", "SEEK", "TELL", "WRITE", "RAWIO")]) == 1 and
                               any(e.kind == "SUB" and e["m"] == "_actualsize" and e["stream"] == STREAM and e["res"] == p.retval for e in p.events) for p in pq)
        if fwd:
            ctx.ob("C16.R6", fq, True, "%s._actualsize forwards to the inner construct's probe on the same stream" % ci.name, key="%s probe forwards" % ci.name)
        else:
            ctx.error("C16.R6 undecided: %s defines a size probe (_actualsize) the rule has no reference for" % ci.name)
    # any other macro that patches a size probe onto its result: the probe must be what the construct the macro returns consumes.  Decided for a
    # byte-length prefix (the returned term contains Prefixed(lengthfield, ...)): bytes of the length field + the parsed length, no scaling
    for mname, mf2 in sorted(M.macros().items()):
        if mname == "PrefixedArray":
            continue
        for cl in M.closures(mf2):
            if cl.name != "_actualsize":
                continue
            rets = [p.retval for p in paths_of(ctx, mf2) if p.returns and p.retval is not None]
            has_prefixed = any(x[0] == "ctor" and x[1] == "Prefixed" for r in rets for x in N.walk(r))
            ps = [p for p in paths_of(ctx, cl) if p.returns]
            if not has_prefixed or len(ps) != 1:
                ctx.error("C16.R6 undecided: the macro %s patches a size probe (_actualsize) the rule has no reference for" % mname)
                continue
            p = ps[0]
            t = Trace(p, STREAM)
            got = t.val(p.retval)
            cf = [e for e in p.events if e.kind == "SUB" and e["m"] in ("_parse", "_parsereport") and e["stream"] == STREAM]
            d = [k for k, e in t.deltas.items() if cf and e is cf[0]]
            want = N.mk_add(d[0], cf[0]["res"]) if d else None
            ctx.ob("C16.R6", cl, want is not None and got == want, "%s._actualsize returns the bytes the length field took plus the byte length it announced (got %s)" % (mname, N.show(got)), key="%s probe amount" % mname)
    ctx.floor("C16.R6", 3)
    # ---------------------------------------------------------------- R7 skipping a member by _sizeof lands where parsing it would: sizeof = parse amount for every class (shared with C05.R2)
    from ..core import Ctx as _Ctx
    from . import C05_amounts
    sub = shared_run(ctx, C05_amounts, prop="C05")
    for e in sub.errors:
        ctx.error("shared C05 rules: " + e)
    for o in sub.obligations:
        if o.rule == "C05.R2":
            ctx.ob("C16.R7", o.where, o.ok, o.what, key=o.key, loc=o.loc, detail=o.detail)
    # sizes of bit-level regions (macro unit arithmetic, shared with C10.R1/R2) and the build-from-None flags a lazy result depends on
    # (LazyStruct._build asks obj.get(name), which is None for a lazy container: members must declare truthfully whether None is buildable)
    from . import C10, C01
    C10.check_macros(ctx, ("Bitwise", "Bytewise", "ByteSwapped", "BitsSwapped"), "C16.R7", "C16.R7", "C16.R7")
    C01.derived_flag_formulas(ctx, "C16.R7")
    # the probe lazy parsing skips by is computed for this call's context: no _sizeof / _actualsize remembers a result (shared with C17.R1); and
    # the default probe is the class's own size (shared with C05.R4)
    from . import C17 as _C17, C05 as _C05
    _C17.stateless_methods(ctx, "C16.R7", ("_sizeof", "_actualsize"))
    _C05.default_probe(ctx, "C16.R7")
    ctx.floor("C16.R7", 80 + 45)

    # ---------------------------------------------------------------- R4 clones
    def sigset(cls, meth, drop_discard=False):
        fi, paths = method_paths(ctx, cls, meth)
        out = set()
        for p in paths:
            if drop_discard and N.selfattr("discard") in p.guards():
                continue
            row = []
            for e in p.events:
                if e.kind == "RETURN" and e.depth:
                    continue          # the return of a helper S inlined
                # what is compared is what the method does -- guards, effects, sub-calls, which exceptions it catches, how it ends -- not the layout of
                # its loops and handlers (a `try` around the member loop and one inside it that breaks are the same method)
                if e.kind in ("TRY", "ENDCATCH", "ITER", "LOOP", "LOOPEND", "RETURN", "FINALLY"):
                    continue
                if e.kind == "CATCH":
                    row.append(("CATCH", tuple(e["types"])))
                    continue
                if e.kind == "ASSUME":
                    g_ = N.canon_lids(e.sig())
                    if g_ in row:
                        continue          # a condition tested twice on one path is one condition
                if e.kind == "ASSUME" and drop_discard and N.contains(e["cond"], N.selfattr("discard")):
                    continue
                if e.kind == "GETITEM":
                    continue          # reading an entry is not an effect; it shows in the terms that use it
                if e.kind == "NEWCTX":
                    # the scope, however it is put together (inline or through a package-level factory S inlined; `_root=None` up front or not)
                    row.append(("NEWCTX", tuple(sorted((k, N.canon_lids(v)) for k, v in e["kw"] if k != "_root"))))
                    continue
                if e.kind == "CTXSET" and e["key"] == N.const("_root"):
                    new = e["ctx"]
                    fix = (("call", ("attr", ("attr", new, "_"), "get"), (N.const("_root"), new), ()), ("ctxget", CTX, (N.const("_root"), new)),
                           ("call", ("attr", ("sub", new, N.const("_")), "get"), (N.const("_root"), new), ()))
                    row.append(("ROOTFIX", e["value"] in fix or N.canon_lids(e["value"])))
                    continue
                sig = e.sig()
                if e.kind == "RAISE":
                    d = dict(sig[1])
                    sig = ("RAISE", d.get("cls"), d.get("path"))
                row.append(N.canon_lids(sig))
            o = p.outcome
            out.add((tuple(row), o[0], N.canon_lids(o[1]) if o[0] == "return" else (o[1].get("cls") if o[0] == "raise" else None)))
        return fi, out
    for lazy, eager, dd in (("LazyStruct", "Struct", False), ("LazyArray", "Array", True)):
        for meth in ("_build", "_sizeof"):
            fl, a = sigset(lazy, meth)
            fe, b = sigset(eager, meth, drop_discard=dd)
            ctx.ob("C16.R4", fl, a == b, "%s.%s is path-for-path identical to %s.%s%s (%d vs %d path signatures, %d differ)" % (
                lazy, meth, eager, meth, " modulo discard" if dd else "", len(a), len(b), len(a ^ b)), key="clone %s" % meth)
    # ... and they refuse exactly the configurations the eager classes refuse (a count of 0 is an empty array, not an error)
    def early_refusals(cls):
        fi, paths = method_paths(ctx, cls, "_parse")
        out = set()
        for p in paths:
            if p.outcome[0] != "raise" or any(e.kind in ("SUB", "READ", "READALL", "SEEK", "TELL") for e in p.events):
                continue
            out.add((frozenset(N.canon_lids(c) for c in p.guards()), p.outcome[1].get("cls")))
        return fi, out
    for lazy, eager in (("LazyArray", "Array"), ("LazyStruct", "Struct")):
        fl, a = early_refusals(lazy)
        fe, b = early_refusals(eager)
        ctx.ob("C16.R4", fl, a == b, "%s._parse refuses up front exactly what %s._parse refuses (%s vs %s)" % (lazy, eager, sorted((sorted(map(N.show, g)), c) for g, c in a), sorted((sorted(map(N.show, g)), c) for g, c in b)), key="%s early refusals" % lazy)
    # the deferred parses run in the scope the eager parse would have used: LazyStruct hands its LazyContainer the *nested* context its members
    # were measured in (this._ must be the enclosing structure when a member is parsed later), LazyArray the incoming one (like Array's elements)
    for lazy, holder in (("LazyStruct", "LazyContainer"), ("LazyArray", "LazyListContainer")):
        fl, pl = method_paths(ctx, lazy, "_parse")
        okc, nn = True, 0
        for p in pl:
            if not p.returns or p.retval is None or p.retval[0] != "new" or p.retval[1] != holder:
                continue
            nn += 1
            news = [e["res"] for e in p.events if e.kind == "NEWCTX"]
            want = news[-1] if lazy == "LazyStruct" and news else CTX
            args = p.retval[3]
            okc = okc and len(args) >= 2 and args[-1] == PATH and args[-2] == want and (lazy != "LazyStruct" or bool(news))
            subs = [e for e in p.events if e.kind == "SUB" and e["m"] in ("_actualsize", "_parsereport")]
            okc = okc and all(e["ctx"] == want for e in subs)
        ctx.ob("C16.R4", fl, okc and nn >= 1, "%s._parse gives %s the context its members are parsed in (the %s one) and the path" % (lazy, holder, "nested" if lazy == "LazyStruct" else "incoming"), key="%s deferred context" % lazy)
    ctx.floor("C16.R4", 8)

    arity_check(ctx, "C16.R5")
    ctx.floor("C16.R5", 20)

    # positive control for R1: relative skip after a moving probe
    ctl = control_model(
        "def stream_tell(stream, path):\n    return stream.tell()\n"
        "def stream_seek(stream, offset, whence, path):\n    return stream.seek(offset, whence)\n"
        "class Construct(object):\n    pass\n"
        "class Lazy(Construct):\n"
        "    def _parse(self, stream, context, path):\n"
        "        offset = stream_tell(stream, path)\n"
        "        n = self.subcon._actualsize(stream, context, path)\n"
        "        stream_seek(stream, n, 1, path)\n"
        "        return offset\n")
    from ..core import Ctx
    c2 = Ctx("C16", ctx.tier, ctl.root, model=ctl)
    f2, ps = own_method_paths(c2, "Lazy", "_parse")
    t2 = Trace(ps[0], STREAM)
    probe = [e for e in ps[0].events if e.kind == "SUB"][0]
    ctx.control("C16.R1", t2.final != N.mk_add(P0(STREAM), probe["res"]))
