"""C20 -- result containers and display helpers are faithful."""
import ast

from .. import norm as N
from .common import *

META = {
    "level": "other",
    "explanation": "Protocol structure of construct/lib/containers.py and hex.py: (R1) Container.__eq__ is mirror-symmetric: identity short-cut, non-dict -> False, then two loops that are mirror images of each other under self<->other (same iteration primitive, the same skip predicate `isinstance(k, str) and k.startswith('_')`, the same failure condition `k not in <the other side> or not isequal(v, <the other side>[k])`), True otherwise; __ne__ is `not ==`; (R2) copy/__copy__ build self.__class__(self); __deepcopy__ must take part in the memo protocol and deep-copy the values; pickling must restore the __dict__-is-self aliasing that __init__ establishes; (R3) dict protocol calls inside Container methods go through the class (`self.__class__.<m>(self)` / `dict.<m>`), never through instance attribute lookup that a key could shadow; (R4) hexdump/hexundump column agreement: one prologue and two epilogue lines are written and the reader drops exactly [1:-2]; the hex field is left-justified to 3*linesize-1 columns in every size branch and the reader cuts the line at 3*linesize after the offset column, so it covers the hex field and can never reach the printable column; both are parametrised by the same linesize; (R5) ListContainer subclasses list without overriding equality, iteration, length or indexing; _search of Container and ListContainer treat `None` (not falsiness) as 'no match'. R1 also: Container overrides __ne__ (dict.__ne__ would not ignore underscore entries); R5 also: _search descends only into classes that define _search.",
    "undecided": "Algebraic laws over all container values (transitivity, congruence), search/search_all result lists, hexundump(hexdump(x)) == x as a value equation.",
    "trusted_base": ["python ast (3.12)", "sa.summ summariser"],
    "assumptions": ["element equality is symmetric"],
}

CONT = "construct/lib/containers.py"


def loop_bodies(paths, lid):
    out = set()
    for p in paths:
        evs = p.events
        for i, e in enumerate(evs):
            if e.kind == "ITER" and e["lid"] == lid:
                seg = []
                how = None
                for x in evs[i + 1:]:
                    if x.kind == "LOOPEND" and x["lid"] == lid:
                        how = "next"
                        break
                    if x.kind == "RETURN":
                        how = ("return", x["value"])
                        break
                    if x.kind in ("LOOP", "ITER"):
                        break
                    seg.append((x.kind, tuple(sorted((k, v) for k, v in x.a.items() if k != "res")), x.under))
                out.add((tuple(seg), how))
    return out


def swap(t, a, b):
    tmp = ("__tmp__",)
    return N.subst(N.subst(N.subst(t, {a: tmp}), {b: a}), {tmp: b})


def byte_tables(ctx, rule, files):
    """Module-level lookup tables indexed or keyed by a byte value are built over all 256 byte values: a comprehension at module level whose
    only generator is range(k) with a literal k has k == 256 (range(0xFF) silently leaves byte 0xFF out)."""
    M = ctx.model
    n = 0
    for rel, assigns in M.module_assigns.items():
        if not rel.endswith(tuple(files)):
            continue
        for name, v in sorted(assigns.items()):
            if not isinstance(v, (ast.ListComp, ast.DictComp, ast.SetComp, ast.GeneratorExp)) or len(v.generators) != 1:
                continue
            it = v.generators[0].iter
            if isinstance(it, ast.Call) and isinstance(it.func, ast.Name) and it.func.id == "range" and len(it.args) == 1 and isinstance(it.args[0], ast.Constant):
                n += 1
                ctx.ob(rule, name, it.args[0].value == 256, "%s is built over range(%s): a table over byte values covers 0..255" % (name, it.args[0].value), key="%s covers all bytes" % name, loc="%s:%d" % (rel, v.lineno))
    return n


import re as _re
_SPEC = _re.compile(r"%(?:%|([#0\- +]*)(\d+)?([dsr]))")


def render_format(text, arg):
    """`text % arg` with a constant text: literal pieces (constant integer arguments formatted in, %% collapsed) and the argument terms that
    are not constants, in order; None when the text or the arguments are of another kind."""
    args = list(arg[1]) if arg[0] == "tuple" else [arg]
    out, pos, k = [""], 0, 0
    for m in _SPEC.finditer(text):
        out[-1] += text[pos:m.start()]
        pos = m.end()
        if m.group(0) == "%%":
            out[-1] += "%"
            continue
        if k >= len(args):
            return None
        a = args[k]
        k += 1
        if N.is_int(a) and m.group(3) in "ds":
            out[-1] += ("%" + (m.group(1) or "") + (m.group(2) or "") + "d") % a[2]
        elif m.group(1) or m.group(2):
            return None
        else:
            out.extend([a, ""])
    out[-1] += text[pos:]
    if k != len(args) or "%" in _SPEC.sub("", text):
        return None
    return [x for x in out if x != ""]


def run(ctx):
    M = ctx.model
    # ---------------------------------------------------------------- R1
    fi, paths = own_method_paths(ctx, "Container", "__eq__")
    other = ("param", "other")
    idp = [p for p in paths if N.mk_cmp("is", SELF, other) in p.guards()]
    ctx.ob("C20.R1", fi, len(idp) == 1 and idp[0].retval == N.TRUE and len(idp[0].guards()) == 1, "identity short-cut returns True", key="identity")
    nd = [p for p in paths if N.mk_not(("call", ("free", "isinstance"), (other, ("free", "dict")), ())) in p.guards()]
    ctx.ob("C20.R1", fi, len(nd) == 1 and nd[0].retval == N.FALSE, "a non-dict is unequal", key="non-dict")
    loops = uniq_events(paths, "LOOP")
    ok = len(loops) == 2
    ctx.ob("C20.R1", fi, ok, "__eq__ has exactly two comparison loops", key="two loops")
    if ok:
        it0, it1 = loops[0]["iter"], loops[1]["iter"]
        ctx.ob("C20.R1", fi, swap(it0, SELF, other) == it1 and N.contains(it0, SELF) and not N.contains(it0, other),
               "the loops iterate self's items and other's items with the same unshadowable primitive (%s / %s)" % (N.show(it0), N.show(it1)), key="iteration mirror")
        b0 = loop_bodies(paths, loops[0]["lid"])
        b1 = loop_bodies(paths, loops[1]["lid"])
        canon = lambda bodies: {N.canon_lids(b) for b in bodies}
        m0 = canon({swap(b, SELF, other) for b in b0})
        m1 = canon(b1)
        ctx.ob("C20.R1", fi, m0 == m1 and len(m1) >= 3, "the second loop is the mirror image of the first under self<->other (%d body variants, %d differ)" % (len(m1), len(m0 ^ m1)), key="body mirror")
        skips = [g for p in paths for g in p.guards() if g[0] == "bool" and g[1] == "and" and any(x[0] == "attr" and x[2] == "startswith" for x in N.walk(g))]
        good = bool(skips)
        for g in skips:
            parts = g[2]
            good = good and len(parts) == 2 and parts[0][0] == "call" and parts[0][1] == ("free", "isinstance") and parts[0][2][1] == ("free", "str") \
                and parts[1][0] == "call" and parts[1][1][0] == "attr" and parts[1][1][2] == "startswith" and parts[1][2] == (N.const("_"),) and parts[1][1][1] == parts[0][2][0]
        ctx.ob("C20.R1", fi, good, "both loops skip exactly the keys that are strings starting with '_'", key="skip predicate")
        fails = [p for p in paths if p.retval == N.FALSE and p.of("ITER")]
        good = bool(fails)
        for p in fails:
            g = p.guards()[-1]
            good = good and g[0] == "bool" and g[1] == "or" and len(g[2]) == 2 and g[2][0][0] == "cmp" and g[2][0][1] == "not in" and g[2][1][0] == "not" and g[2][1][1][0] == "call"
            if good:
                side = g[2][0][3]
                k = g[2][0][2]
                call = g[2][1][1]
                good = good and call[2][1] == ("sub", side, k) and side in (SELF, other)
        ctx.ob("C20.R1", fi, good, "an entry fails when its key is missing on the other side or the values differ", key="failure condition")
        # what "the values differ" means: the comparison helper is plain `==` (so nested containers and lists recurse through their own
        # __eq__ and agree with dict equality), with the one special case of numpy arrays; a hand-written descent into lists must compare
        # the lengths too (zip stops at the shorter list: a strict prefix would compare equal)
        callees = set()
        for p in fails:
            g = p.guards()[-1]
            if g[0] == "bool" and len(g[2]) == 2 and g[2][1][0] == "not" and g[2][1][1][0] == "call":
                callees.add(g[2][1][1][1])
        helper = None
        if len(callees) == 1:
            cal = next(iter(callees))
            if cal[0] == "closure":
                helper = next((cl for cl in M.closures(fi) if cl.qual == cal[1] or cl.name == cal[1].split(".")[-1]), None)
            elif cal[0] == "free" and cal[1] in M.functions:
                helper = M.function(cal[1])
        if helper is None:
            ctx.error("C20.R1 undecided: the value comparison used by Container.__eq__ is not a local or package-level function (%s)" % sorted(map(N.show, callees)))
        else:
            hp = paths_of(ctx, helper, None)
            a = [x.arg for x in helper.node.args.posonlyargs + helper.node.args.args]
            okh = len(a) == 2
            undec = []
            for p in hp:
                if not p.returns or not okh:
                    continue
                v1, v2 = ("param", a[0]), ("param", a[1])
                if p.retval in (N.mk_cmp("==", v1, v2), N.mk_cmp("==", v2, v1)):
                    continue
                if any(x[0] == "cmp" and x[1] == "==" and N.const("ndarray") in x[2:] for c in p.guards() for x in N.walk(c)):
                    continue
                zips = [x for x in N.walk(p.retval) if x[0] == "call" and x[1] == ("free", "zip")]
                if zips:
                    lens = N.mk_cmp("==", ("call", ("free", "len"), (v1,), ()), ("call", ("free", "len"), (v2,), ()))
                    okh = okh and lens in p.guards()
                else:
                    undec.append(N.show(p.retval))
            if undec:
                ctx.error("C20.R1 undecided: %s compares values in a form the rule does not know (%s)" % (helper.qual, undec[0][:120]))
            ctx.ob("C20.R1", helper, okh, "%s is plain `==` apart from the numpy case; an element-wise descent over zip() is guarded by equal lengths" % helper.qual, key="value comparison")
        alltrue = [p for p in paths if p.retval == N.TRUE and p is not idp[0]] if idp else []
        lids = {loops[0]["lid"], loops[1]["lid"]}
        done = lambda p: {e["lid"] for e in p.events if e.kind == "LOOPEND" and e["how"] in ("exhausted", "zero")} >= lids
        ctx.ob("C20.R1", fi, bool(alltrue) and all(not any(e.kind == "RETURN" and e.loops for e in p.events) and done(p) for p in alltrue),
               "True (other than for the identical object) only after both loops ran to completion: no size or one-sided shortcut", key="true at end")
    if "__ne__" in M.cls("Container").methods:
        fi, paths = own_method_paths(ctx, "Container", "__ne__")
        ok = len(paths) == 1 and paths[0].retval == N.mk_not(N.mk_cmp("==", SELF, other))
        ctx.ob("C20.R1", fi, ok, "__ne__ is `not self == other`", key="ne")
    else:
        # dict defines __ne__, so without an override `!=` is plain dict inequality (which does not ignore '_' entries)
        ctx.ob("C20.R1", "Container", False, "Container does not override __ne__: `!=` falls through to dict.__ne__, which disagrees with __eq__ on underscore entries", key="ne", loc=CONT)
    ctx.floor("C20.R1", 9)

    # ---------------------------------------------------------------- R2
    klass = ("attr", SELF, "__class__")
    fi, paths = own_method_paths(ctx, "Container", "copy")
    ok = len(paths) == 1 and paths[0].retval == ("call", klass, (SELF,), ())
    ctx.ob("C20.R2", fi, ok, "copy() builds self.__class__(self)", key="copy")
    fi, paths = own_method_paths(ctx, "Container", "__copy__")
    ok = len(paths) == 1 and paths[0].retval in (("call", ("attr", klass, "copy"), (SELF,), ()), ("call", klass, (SELF,), ()), ("call", ("attr", ("free", "Container"), "copy"), (SELF,), ()))
    ctx.ob("C20.R2", fi, ok, "__copy__ is the unshadowable copy", key="__copy__")
    fi = M.method("Container", "__deepcopy__")
    paths = paths_of(ctx, fi, "Container")
    a = fi.node.args
    memo = (a.posonlyargs + a.args)[1].arg if len(a.posonlyargs + a.args) > 1 else None
    uses_memo = memo is not None and any(isinstance(n, ast.Name) and n.id == memo for n in ast.walk(fi.node) if not isinstance(n, ast.arg))
    def is_deepcopy(f):
        return (f[0] == "free" and f[1].split(".")[-1] == "deepcopy") or (f[0] == "attr" and f[2] == "deepcopy")
    calls = [e for p in paths for e in p.events if e.kind == "CALL" and is_deepcopy(e["func"])]
    # the values of self's items are deep-copied with the memo handed on
    deep = any(memo is not None and ("param", memo) in e["args"] and any(x[0] in ("unpack", "val") for x in N.walk(e["args"][0])) for e in calls)
    ctx.ob("C20.R2", fi, uses_memo, "__deepcopy__ takes part in the memo protocol (registers itself / passes memo on)", key="deepcopy memo")
    ctx.ob("C20.R2", fi, deep, "__deepcopy__ deep-copies the values (independent at every depth)", key="deepcopy values")
    # the copy is registered in the memo under id(self) before any entry is copied: a container that (indirectly) contains itself -- every
    # nested context does, through _root -- is otherwise copied without end, and a container shared by two entries is duplicated
    reg = True
    for p in paths:
        regs = [i for i, e in enumerate(p.events) if e.kind == "STORE" and memo is not None and e["base"] == ("param", memo) and e["key"] == ("call", ("free", "id"), (SELF,), ()) and e["value"] == p.retval]
        first_copy = next((i for i, e in enumerate(p.events) if e.kind == "CALL" and is_deepcopy(e["func"])), len(p.events))
        reg = reg and bool(regs) and regs[0] < first_copy
    ctx.ob("C20.R2", fi, reg and bool(paths), "__deepcopy__ registers the new container as memo[id(self)] before copying any entry (cycles and shared entries)", key="deepcopy registers self")
    # every entry that reaches the result was deep-copied: no iteration path stores a value by reference or skips an entry
    every = True
    iters = 0
    for p in paths:
        for i, e in enumerate(p.events):
            if e.kind != "ITER":
                continue
            iters += 1
            seg = []
            for x in p.events[i + 1:]:
                if x.kind in ("ITER", "LOOPEND") and x["lid"] == e["lid"]:
                    break
                seg.append(x)
            st = [x for x in seg if x.kind == "STORE" and x["base"] == p.retval]
            every = every and len(st) == 1 and st[0]["value"][0] == "call" and is_deepcopy(st[0]["value"][1]) and any(y[0] in ("unpack", "val") for y in N.walk(st[0]["value"][2][0]))
    ctx.ob("C20.R2", fi, every and iters >= 1, "every entry, underscore keys included, is stored into the copy as deepcopy(value, memo) -- none by reference, none skipped", key="deepcopy every entry")
    fi, paths = own_method_paths(ctx, "Container", "__init__")
    alias = [e for p in paths for e in p.events if e.kind == "SELFWRITE" and e["attr"] == "__dict__" and e["value"] == SELF]
    ctx.ob("C20.R2", fi, bool(alias), "__init__ aliases __dict__ to the dict itself (attribute access == key access)", key="init alias")
    fs = M.method("Container", "__setstate__")
    ps = paths_of(ctx, fs, "Container")
    restores = any(e.kind == "SELFWRITE" and e["attr"] == "__dict__" and e["value"] == SELF for p in ps for e in p.events) or \
        any(e.kind == "CALL" and e["func"][0] == "attr" and e["func"][2] == "__init__" for p in ps for e in p.events)
    reduce_ = False
    if "__reduce__" in M.cls("Container").methods:
        fr, pr = own_method_paths(ctx, "Container", "__reduce__")
        r = pr[0].retval if len(pr) == 1 else None
        # (callable, args, state, listitems, dictitems): rebuilt through the class (hence __init__), refilled by item assignment
        reduce_ = r is not None and r[0] == "tuple" and len(r[1]) == 5 and r[1][0] == ("attr", SELF, "__class__") and r[1][1] == ("tuple", ()) \
            and not any(x[0] == "call" and x[1][0] == "attr" and x[1][1] == SELF for x in N.walk(r[1][4]))
        fs = fr
    ctx.ob("C20.R2", fs, restores or reduce_, "unpickling bypasses __init__, so __setstate__ must re-establish the __dict__ aliasing, or __reduce__ must rebuild through the class and refill without calling a shadowable method", key="pickle alias")
    ctx.floor("C20.R2", 7)

    # ---------------------------------------------------------------- R3
    DICT_METHODS = {"items", "keys", "values", "update", "clear", "copy", "get", "pop", "setdefault", "popitem"}
    n3 = 0
    for mname, mnode in M.cls("Container").methods.items():
        for node in ast.walk(mnode):
            if isinstance(node, ast.Call) and isinstance(node.func, ast.Attribute) and node.func.attr in DICT_METHODS | {"_search", "search", "search_all"}:
                recv = node.func.value
                if isinstance(recv, ast.Name) and recv.id in ("self", "other", "value", "item"):
                    n3 += 1
                    ctx.ob("C20.R3", "Container." + mname, False, "%s.%s(...) is looked up on the instance, where a key of that name shadows it" % (recv.id, node.func.attr),
                           key="shadowable %s.%s" % (recv.id, node.func.attr), loc="%s:%d" % (CONT, node.lineno))
                elif isinstance(recv, ast.Attribute) and recv.attr == "__class__" or (isinstance(recv, ast.Name) and recv.id == "dict") or (isinstance(recv, ast.Call) and isinstance(recv.func, ast.Name) and recv.func.id == "super"):
                    n3 += 1
                    ctx.ob("C20.R3", "Container." + mname, True, "dict protocol call goes through the class", key="unshadowable %s in %s" % (node.func.attr, mname), loc="%s:%d" % (CONT, node.lineno))
    ctx.floor("C20.R3", 8)

    # ---------------------------------------------------------------- R4 hexdump / hexundump
    fh = M.function("hexdump")
    fu = M.function("hexundump")
    ph = paths_of(ctx, fh)
    pu = paths_of(ctx, fu)
    ls = ("param", "linesize")
    fmts = {e["value"] if e.kind == "RETURN" else None for p in ph for e in p.events if False}
    widths = set()
    for p in ph:
        # the line format: the format string that is applied to (offset, hex text, raw text) inside the loop
        for e in p.events:
            if e.kind == "MUT" and e["method"] == "append" and e.loops and e["args"] and e["args"][0][0] == "fmt":
                t = e["args"][0][1]
                if t[0] == "fmt" and N.is_const(t[1]):
                    widths.add((t[1][2], t[2]))
    # the line format after the outer formatting, with constant arguments filled in and the symbolic width left as a term:
    # "%0<4|8>X   %-<3*linesize-1>s   %s" however the two-stage formatting is spelled
    want_width = N.mk_add(N.mk_mul(N.const(3), ls), N.const(1), -1)
    good = len(widths) >= 2
    rendered = set()
    for text, arg in widths:
        pieces = render_format(text, arg)
        if pieces is None:
            good = False
            continue
        rendered.add(tuple(pieces))
        good = good and len(pieces) == 3 and isinstance(pieces[0], str) and _re.fullmatch(r"%0[48]X   %-", pieces[0]) is not None and pieces[1] == want_width and pieces[2] == "s   %s"
    good = good and {pc[0] for pc in rendered if pc and isinstance(pc[0], str)} == {"%04X   %-", "%08X   %-"}
    hex_lines_found = bool(widths)
    if not hex_lines_found:
        # no `lines.append(<fmt> % (offset, hex, text))` inside a loop of hexdump itself (the lines come from a nested function, a generator, ...):
        # the column rules have nothing to read -- undecided, not violated
        ctx.error("C20.R4 undecided: hexdump does not append its formatted lines in a loop of its own; the column rules know that form only")
    ctx.ob("C20.R4", fh, good or not hex_lines_found, "every size branch of hexdump left-justifies the hex field to 3*linesize-1 columns between three-space separators (%s)" % sorted(w[0] for w in widths), key="hex field width")
    # prologue / epilogue lines
    rets = [p for p in ph if p.returns]
    pro = epi = None
    for p in rets:
        apps = [e for e in p.events if e.kind == "MUT" and e["method"] == "append" and e["base"][0] == "list"]
    nodes = [n for n in ast.walk(fh.node) if isinstance(n, ast.Call) and isinstance(n.func, ast.Attribute) and n.func.attr == "append"]
    top = [n for n in nodes if not any(isinstance(a, (ast.For, ast.While)) and n in ast.walk(a) for a in ast.walk(fh.node))]
    loop_first = next((n.lineno for n in ast.walk(fh.node) if isinstance(n, ast.For)), 0)
    pro = len([n for n in top if n.lineno < loop_first])
    epi = len([n for n in top if n.lineno > loop_first])
    # the lines the reader goes over: a constant slice of the dump split into lines (loop or comprehension alike)
    sl = None
    uterms = [v for p in pu for e in p.events for v in e.a.values() if isinstance(v, tuple)] + [p.retval for p in pu if p.returns and p.retval is not None]
    for v in uterms:
        for x in N.walk(v):
            if x[0] == "sub" and x[2][0] == "slice" and x[1][0] == "call" and x[1][1][0] == "attr" and x[1][1][1] == ("param", "data") and x[1][1][2] in ("split", "splitlines") \
                    and all(y == N.NONE or N.is_int(y) for y in x[2][1:3]) and x[2][3] == N.NONE:
                sl = (0 if x[2][1] == N.NONE else x[2][1][2], 0 if x[2][2] == N.NONE else x[2][2][2])
    if sl is None or not hex_lines_found:
        if sl is None:
            ctx.error("C20.R4 undecided: hexundump does not take a constant slice of the dump's lines; the prologue/epilogue rule knows that form only")
    ctx.ob("C20.R4", fu, (sl is not None and sl == (pro, -epi)) or sl is None or not hex_lines_found, "hexdump writes %s prologue and %s epilogue line(s); hexundump drops %s" % (pro, epi, sl), key="prologue/epilogue")
    cut = [x for p in pu for e in p.events for v in e.a.values() if isinstance(v, tuple) for x in N.walk(v) if x[0] == "slice"]
    cuts = {x[2] for x in cut if x[1] == N.NONE and x[2] != N.NONE and N.contains(x[2], ls)}
    ctx.ob("C20.R4", fu, cuts == {N.mk_mul(N.const(3), ls)}, "hexundump cuts each line at 3*linesize after the offset column (covers the 3*linesize-1 wide hex field, stops before the printable column)", key="reader cut")
    strips = [x for p in pu for e in p.events for v in e.a.values() if isinstance(v, tuple) for x in N.walk(v) if x[0] == "call" and x[1][0] == "attr" and x[1][2] == "lstrip"]
    ctx.ob("C20.R4", fu, bool(strips), "hexundump strips the offset column before cutting", key="offset strip")
    # content of a line: offset i, the bytes data[i:i+linesize] as two upper-case hex digits each joined by single blanks; the reader turns
    # every blank-separated token back with int(token, 16); lines step by linesize from 0
    data_, = (("param", "data"),)
    good = False
    for p in ph:
        for e in p.events:
            if e.kind == "MUT" and e["method"] == "append" and e.loops and e["args"] and e["args"][0][0] == "fmt":
                lp = next((x for x in p.events if x.kind == "LOOP" and x["lid"] == e.loops[-1]), None)
                a = e["args"][0][2]
                if lp is None or a[0] != "tuple" or len(a[1]) != 3:
                    continue
                i = ("rangeelem", (N.const(0), ("call", ("free", "len"), (data_,), ()), ls), lp["lid"])
                line = ("sub", data_, ("slice", i, N.mk_add(i, ls), N.NONE))
                hexs = a[1][1]
                while hexs[0] == "call" and hexs[1] == ("free", "str") and len(hexs[2]) == 1:
                    hexs = hexs[2][0]
                okline = lp["iter"] == ("call", ("free", "range"), (N.const(0), ("call", ("free", "len"), (data_,), ()), ls), ()) and a[1][0] == i
                okhex = hexs[0] == "call" and hexs[1] == ("attr", N.const(" "), "join") and hexs[2][0][0] == "comp" and hexs[2][0][3][0][0] == line \
                    and hexs[2][0][2][0] == "sub" and hexs[2][0][2][1] == ("free", "HEXPRINT") and hexs[2][0][2][2][0] == "elem" and hexs[2][0][2][2][1] == line
                good = okline and okhex
    ctx.ob("C20.R4", fh, good or not hex_lines_found, "each dump line shows offset i and HEXPRINT[b] for the bytes data[i:i+linesize] joined by single blanks, i stepping by linesize from 0", key="line content")
    hp = M.module_assigns[[r for r in M.modules if r.endswith("hex.py")][0]].get("HEXPRINT")
    okp = isinstance(hp, ast.ListComp) and ast.dump(hp.elt) == ast.dump(ast.parse("format(%s, '02X')" % hp.generators[0].target.id, mode="eval").body) if isinstance(hp, ast.ListComp) and isinstance(hp.generators[0].target, ast.Name) else False
    ctx.ob("C20.R4", "HEXPRINT", bool(okp), "HEXPRINT[i] is format(i, '02X'): exactly two upper-case hex digits per byte", key="HEXPRINT", loc="construct/lib/hex.py")
    # the character column: one character per byte, and never one that str.splitlines() -- which hexundump uses -- treats as a line break
    # (\n \r \x0b \x0c \x1c-\x1e \x85 ...): the table shows a byte as itself only inside printable ASCII
    pr = M.module_assigns[[r for r in M.modules if r.endswith("hex.py")][0]].get("PRINTABLE")
    verdict, why = None, ""
    if isinstance(pr, ast.ListComp) and len(pr.generators) == 1 and isinstance(pr.elt, ast.IfExp):
        t_ = pr.elt.test
        names_ = {n.attr for n in ast.walk(t_) if isinstance(n, ast.Attribute)} | {n.id for n in ast.walk(t_) if isinstance(n, ast.Name)}
        if isinstance(t_, ast.Compare) and all(isinstance(o, (ast.Lt, ast.LtE)) for o in t_.ops) and len(t_.ops) == 2 and isinstance(t_.left, ast.Constant) and isinstance(t_.comparators[1], ast.Constant) \
                and isinstance(t_.comparators[0], ast.Name):
            lo = t_.left.value + (0 if isinstance(t_.ops[0], ast.LtE) else 1)
            hi = t_.comparators[1].value - (1 if isinstance(t_.ops[1], ast.Lt) else 0)
            verdict, why = (32 <= lo and hi <= 127), "bytes %d..%d are shown as themselves" % (lo, hi)
        elif "printable" in names_ and "string" in names_ or "whitespace" in names_:
            verdict, why = False, "string.printable contains \\t \\n \\r \\x0b \\x0c"
        elif "isprintable" in names_:
            verdict, why = True, "str.isprintable() is false for every control character"
        other = pr.elt.orelse
        if verdict and not (isinstance(other, ast.Constant) and isinstance(other.value, str) and len(other.value) == 1 and other.value.isprintable()):
            verdict, why = False, "the placeholder for other bytes is not one printable character"
    if verdict is None:
        ctx.error("C20.R4 undecided: PRINTABLE is not a comprehension of the form `<char of i> if <test on i> else '.'` the rule knows")
    else:
        ctx.ob("C20.R4", "PRINTABLE", verdict, "PRINTABLE shows a byte as itself only inside printable ASCII, so no dump line contains a line-break character (%s)" % why, key="PRINTABLE", loc="construct/lib/hex.py")
    toks = [x for p in pu for e in p.events for v in e.a.values() if isinstance(v, tuple) for x in N.walk(v) if x[0] == "call" and x[1] == ("free", "int")]
    ctx.ob("C20.R4", fu, bool(toks) and all(len(x[2]) == 2 and x[2][1] == N.const(16) for x in toks), "hexundump reads every token as a base-16 number", key="reader base")
    ctx.floor("C20.R4", 8)

    # ---------------------------------------------------------------- R5
    lc = M.cls("ListContainer")
    over = {"__eq__", "__iter__", "__len__", "__getitem__", "__ne__", "__contains__"} & set(lc.methods)
    ctx.ob("C20.R5", "ListContainer", lc.bases == ["list"] and not over, "ListContainer is a plain list subclass for equality/iteration/indexing (overrides: %s)" % sorted(over), key="ListContainer", loc=CONT)
    searchable = {c.name for c in M.classes.values() if "_search" in c.methods}
    for cls in ("Container", "ListContainer"):
        fi0 = M.method(cls, "_search")
        for node in ast.walk(fi0.node):
            if isinstance(node, ast.Call) and isinstance(node.func, ast.Name) and node.func.id == "isinstance" and len(node.args) == 2:
                names = [e.id for e in (node.args[1].elts if isinstance(node.args[1], ast.Tuple) else [node.args[1]]) if isinstance(e, ast.Name)]
                ctx.ob("C20.R5", fi0, set(names) <= searchable, "%s._search descends only into classes that define _search (%s); anything else would raise AttributeError, which the blanket handler swallows together with the entry" % (cls, names), key="%s recursion guard" % cls, node=node)
                ctx.ob("C20.R5", fi0, set(names) >= searchable, "%s._search descends into every searchable class %s (a guard naming only %s never searches the others, e.g. a list nested in a list)" % (cls, sorted(searchable), names), key="%s recursion guard complete" % cls, node=node)
    # entries that cannot be searched (plain values) are skipped by a total handler, whatever they raise
    fi_l, paths_l = own_method_paths(ctx, "ListContainer", "_search")
    trs = uniq_events(paths_l, "TRY")
    ctx.ob("C20.R5", fi_l, bool(trs) and all(any(set(h) & {"Exception", "BaseException", "*"} for h in t["handlers"]) for t in trs) or
           any(isinstance(n, ast.Call) and isinstance(n.func, ast.Name) and n.func.id == "isinstance" for n in ast.walk(fi_l.node)),
           "ListContainer._search skips unsearchable items with `except Exception` (an int item raises AttributeError, not a ConstructError)", key="ListContainer search handler")
    # a handler that skips an entry sits *inside* the loop over the entries: wrapped around the loop, the first entry that raises (a key that
    # is not a string makes pattern.match raise TypeError) ends the scan and every later match is lost
    for cls in sorted(searchable):
        fi_s, paths_s = own_method_paths(ctx, cls, "_search")
        trs = uniq_events(paths_s, "TRY")
        if not trs:
            continue
        ctx.ob("C20.R5", fi_s, all(t.loops for t in trs), "%s._search: every swallowing try statement lies inside the loop over the entries (one bad entry must not end the scan)" % cls, key="%s handler per entry" % cls)
    # "in order": a match found by descending into an entry and a match of an entry's own key are reported in the order of the entries, which
    # they are when both happen in the one loop over the container's own entries (collecting the sub-containers first and searching them in
    # a second pass reports a later scalar before an earlier nested match)
    for cls in sorted(searchable):
        fi_s, paths_s = own_method_paths(ctx, cls, "_search")
        sites = {}
        for p in paths_s:
            for e in p.events:
                if e.kind == "CALL" and e["func"][0] == "attr" and e["func"][2] in ("_search", "match") and not e.depth:
                    lp = next((x for x in p.events if x.kind == "LOOP" and e.loops and x["lid"] == e.loops[-1]), None)
                    own = lp is not None and any(x == SELF for x in N.walk(lp["iter"])) and not any(x[0] in ("lv", "new") for x in N.walk(lp["iter"]))
                    sites[id(e.node)] = (sites.get(id(e.node), (True,))[0] and own, e, e["func"][2])
        kinds = {k for _, _, k in sites.values()}
        if cls == "Container" and not {"_search", "match"} <= kinds:
            ctx.error("C20.R5 undecided: %s._search: the recursive descent and the key test were not both found as calls in the method (%s)" % (cls, sorted(kinds)))
        for ok_, e, k in sites.values():
            ctx.ob("C20.R5", fi_s, ok_, "%s._search: the %s happens inside the loop over the container's own entries (one pass, so matches come out in entry order)" % (
                cls, "descent into a nested container" if k == "_search" else "key test"), key="%s one pass %s" % (cls, k), node=e.node)
    # the public functions call _search with the compiled pattern and the right mode: search -> first match, search_all -> all matches
    comp = ("call", ("attr", ("free", "re"), "compile"), (("param", "pattern"),), ())
    for cls in ("Container", "ListContainer"):
        for meth, flag in (("search", N.FALSE), ("search_all", N.TRUE)):
            fi, paths = own_method_paths(ctx, cls, meth)
            r = paths[0].retval if len(paths) == 1 else None
            args = None
            if r is not None and r[0] == "selfcall" and r[1] == "_search":
                args = tuple(r[2])
            elif r is not None and r[0] == "call" and r[1][0] == "attr" and r[1][2] == "_search" and r[2][:1] == (SELF,):
                args = tuple(r[2][1:])
            ctx.ob("C20.R5", fi, args == (comp, flag), "%s.%s is _search(re.compile(pattern), %s)" % (cls, meth, N.show(flag)), key="%s.%s mode" % (cls, meth))
    # 'no match' is one identity-tested marker everywhere: what _search returns when nothing matched (None today) is exactly what every
    # caller's test compares the recursive result with -- by identity, never by truthiness (a falsy matched value is still a match)
    nomatch = {}
    for cls in ("Container", "ListContainer"):
        fi, paths = own_method_paths(ctx, cls, "_search")
        sa_ = ("param", "search_all")
        ends = {p.retval for p in paths if p.returns and N.mk_not(sa_) in p.guards() and not any(e.kind == "RETURN" and e.loops for e in p.events)}
        nomatch[cls] = ends
    marker = set().union(*nomatch.values())
    for cls in ("Container", "ListContainer"):
        fi, paths = own_method_paths(ctx, cls, "_search")
        tests = [g for p in paths for g in p.guards() if any(x[0] == "call" and x[1][0] == "attr" and x[1][2] == "_search" for x in N.walk(g))]
        ok = bool(tests) and len(marker) == 1 and all(g[0] == "cmp" and g[1] in ("is", "is not") and g[3] in marker for g in tests)
        # polarity: the recursive result is used (returned / appended to the matches) exactly on the `is not <marker>` side
        for p in paths:
            used = (p.returns and any(x[0] == "call" and x[1][0] == "attr" and x[1][2] == "_search" for x in N.walk(p.retval or ()))) or \
                any(e.kind == "MUT" and e["method"] in ("extend", "append") and any(x[0] == "call" and x[1][0] == "attr" and x[1][2] == "_search" for a in e["args"] for x in N.walk(a)) for e in p.events)
            if used:
                ok = ok and any(g[0] == "cmp" and g[1] == "is not" and g[3] in marker and any(x[0] == "call" and x[1][0] == "attr" and x[1][2] == "_search" for x in N.walk(g)) for g in p.guards())
        ctx.ob("C20.R5", fi, ok, "%s._search tests the recursive result by identity against the one 'no match' marker that _search returns (%s)" % (cls, sorted(N.show(m) for m in marker)), key="%s search none" % cls)
    unused_parameters(ctx, "C20.R5", lambda f: f.relpath.endswith(("lib/containers.py", "lib/hex.py")))
    byte_tables(ctx, "C20.R4", ("lib/hex.py",))
    ctx.floor("C20.R5", 3 + 20)
    ctx.control("C20.R1", swap(("cmp", "in", ("param", "k"), SELF), SELF, other) == ("cmp", "in", ("param", "k"), other))
