"""C18 -- errors name the member in which parsing or building failed.

Decided statically: the `path` string is threaded unchanged through every
sub-construct call and stream helper, every raise of a ConstructError carries
it, Renamed appends exactly one ' -> name' suffix in all three directions, the
three entry points start the path with the documented operation string, and
ConstructError stores the path and prefixes the message.
"""
import ast

from .. import norm as N
from .common import *

META = {
    "level": "other",
    "explanation": "Glue-discipline check over every function of construct/ that has a `path` in scope: (R1) ConstructError.__init__ stores path and prefixes the message; (R2) parse_stream/build_stream/sizeof start the path with '(parsing)'/'(building)'/'(sizeof)'; (R3) Renamed._parse/_build/_sizeof extend the path with one identical ' -> name' suffix and hand the extended path to the sub-construct; (R4) at every sub-construct call site and every stream_* helper call the path argument is the incoming path; (R5) every raise of a ConstructError subclass carries path=path. A rule that holds at every site holds for every composition of constructs, which is the quantifier the tests cannot reach. (R7) every _sizeof/_actualsize translates a missing context key into SizeofError where it evaluates the parameter, so the path names that construct (shared with C05.R1); (R8) parsing consumes bytes by reading, never by seeking forward, so a truncation is reported under the member whose extent contains it (shared with C06.R6).",
    "undecided": "Which member's extent contains a given truncation offset is a run-time fact; decided here is only that whatever fails reports the path it was handed, and that each named level adds its own name.",
    "trusted_base": ["python ast (3.12)", "sa.summ path-sensitive summariser", "class-hierarchy resolution of the five protocol method names"],
    "assumptions": ["user-defined Construct subclasses outside the package are not analysed", "generated (compiled) code is excluded by documentation: 'Exceptions do not include path'"],
}

# public-API re-entry inside a protocol method loses the path by design (docs: Tunnel re-parses; Select builds each alternative separately)
R4_FROZEN = {
    ("Tunnel._parse", "parse"): "Tunnel re-parses decoded data through the public API (outside the property's shape list)",
    ("Select._build", "build"): "Select builds every alternative into a scratch buffer through the public API",
}
# sites that call the public API on a *different* object for a value, not as part of the failing path
R4_VALUE_SITES = {"sizeof", "build"}


def renamed_ext(t):
    """Is t  path + ' -> <self.name>'  in either spelling?  returns normal form or None."""
    name = N.selfattr("name")
    if t[0] == "concat" and t[1] == PATH and N.contains(t[2], name):
        consts = [x for x in N.walk(t[2]) if N.is_const(x) and x[1] == "str"]
        if any(" -> " in x[2] for x in consts):
            return ("ext", "path", "name")
    if t[0] == "fstr":
        parts = t[1]
        if parts and parts[0][0] == "fmtval" and parts[0][1] == PATH and any(N.contains(p, name) for p in parts[1:]) \
                and any(N.is_const(p) and " -> " in str(p[2]) for p in parts):
            return ("ext", "path", "name")
    if t[0] == "fmt" and N.contains(t[2], PATH) and N.contains(t[2], name) and N.is_const(t[1]) and " -> " in t[1][2]:
        return ("ext", "path", "name")
    return None


def check_function(ctx, fi, self_cls, stats):
    paths = paths_of(ctx, fi, self_cls)
    inscope = has_param(fi, "path") or (fi.outer is not None and has_param(fi.outer, "path"))
    if not inscope:
        return
    ok_terms = {PATH, ("free", "path")}
    is_renamed = fi.cls is not None and fi.cls.name == "Renamed"
    for e in uniq_events(paths, "SUB"):
        m = e["m"]
        if m in PROTO_SUB:
            p = e["path"]
            if is_renamed:
                # the one class that adds a level: whatever it asks of the wrapped construct, it asks under path + ' -> name'
                good = p is not None and renamed_ext(p) is not None
                ctx.ob("C18.R4", fi, good, "Renamed hands the wrapped construct's %s the path extended by its own name (got %s)" % (m, N.show(p) if p else "nothing"), node=e.node)
                stats["sub"] += 1
                continue
            good = p in ok_terms
            ctx.ob("C18.R4", fi, good, "sub-construct call %s must be handed the incoming path (got %s)" % (m, N.show(p) if p else "nothing"), node=e.node)
            stats["sub"] += 1
        elif m in PUBLIC_SUB:
            frozen = (fi.qual, m) in R4_FROZEN
            # a public call on an object that is not part of the member chain (e.g. sizeof() for a length) is a value computation
            ctx.ob("C18.R4", fi, frozen, "public %s() inside a function that has a path in scope restarts the path" % m, node=e.node,
                   detail=R4_FROZEN.get((fi.qual, m)))
            stats["sub"] += 1
    for e in uniq_events(paths, *STREAM_EVENTS):
        p = e["path"]
        good = p in ok_terms or (is_renamed and p is not None and renamed_ext(p) is not None)
        ctx.ob("C18.R4", fi, good, "stream helper %s must be handed the incoming path (got %s)" % (e.kind, N.show(p) if p else "nothing"), node=e.node)
        stats["stream"] += 1
    ordinal = {}
    for e in uniq_events(paths, "RAISE"):
        if not is_error_class(ctx.model, e["cls"]):
            continue
        p = e["path"]
        good = p in ok_terms or (is_renamed and p is not None and renamed_ext(p) is not None)
        k = ordinal[e["cls"]] = ordinal.get(e["cls"], 0) + 1
        ctx.ob("C18.R5", fi, good, "raise %s must carry path=path (got %s)" % (e["cls"], N.show(p) if p else "no path"), node=e.node,
               key="raise %s #%d" % (e["cls"], k))
        stats["raise"] += 1


def check_translation(ctx, fi, self_cls):
    """R6: a handler that can catch a ConstructError coming out of a sub-construct must not replace it by a new
    exception (the original carries the deeper path)."""
    S = summariser(ctx)
    paths = paths_of(ctx, fi, self_cls)
    errs = [c.name for c in ctx.model.error_classes()]
    verdict = {}
    for p in paths:
        for i, e in enumerate(p.events):
            if e.kind != "CATCH" or e.depth or i == 0:
                continue
            prev = p.events[i - 1]
            if not prev.raised or prev.kind != "SUB":
                continue
            can = [c for c in errs if S.catches(e["types"], c) is True]
            if not can:
                verdict.setdefault(id(e.node), (True, e))
                continue
            replaced = p.outcome[0] == "raise" and p.outcome[1].get("kind") == "explicit" and not p.outcome[1].get("reraised") \
                and not any(x.kind == "ENDCATCH" and x["tid"] == e["tid"] for x in p.events[i + 1:])
            cur = verdict.get(id(e.node), (True, e))
            verdict[id(e.node)] = (cur[0] and not replaced, e)
    for ok, e in verdict.values():
        ctx.ob("C18.R6", fi, ok, "handler %s around a sub-construct call replaces a ConstructError (and its deeper path) by a new exception" % "/".join(e["types"]),
               node=e.node, key="handler %s" % "/".join(e["types"]))



def error_classes_forward_path(ctx, rule, model=None):
    """An error class that defines its own __init__ hands the path on to ConstructError.__init__ on every path (positionally or as path=):
    otherwise errors of that class lose `e.path` for exactly the calls the special case covers."""
    M = model or ctx.model
    n = 0
    bad = []
    for ci in M.classes.values():
        if ci.name == "ConstructError" or not is_error_class(M, ci.name) or "__init__" not in ci.methods:
            continue
        fi = FuncInfo(ci.methods["__init__"], ci.relpath, cls=ci, qual="%s.__init__" % ci.name)
        paths = paths_of(ctx, fi, ci.name) if model is None else None
        if paths is None:
            from ..core import Ctx
            c2 = Ctx("C18", ctx.tier, M.root, model=M)
            paths = paths_of(c2, fi, ci.name)
        ok = bool(paths)
        for p in paths:
            if p.outcome[0] == "raise":
                continue
            sup = [e for e in p.events if e.kind == "SUPERCALL" and e["method"] == "__init__"]
            ok = ok and len(sup) == 1 and (PATH in sup[0]["args"][1:2] or dict(sup[0]["kw"]).get("path") == PATH)
        n += 1
        if model is None:
            ctx.ob(rule, fi, ok, "%s.__init__ hands its path argument on to ConstructError.__init__ on every path" % ci.name, key="path forwarded")
        elif not ok:
            bad.append(ci.name)
    if model is None:
        ctl = control_model("class ConstructError(Exception):\n    def __init__(self, message='', path=None):\n        self.path = path\n        super().__init__(message)\n"
                            "class SizeofError(ConstructError):\n    def __init__(self, message='', path=None):\n        if message:\n            super().__init__(message, path)\n        else:\n            super().__init__('x')\n")
        ctx.control(rule + " path forwarded", error_classes_forward_path(ctx, rule, model=ctl) == ["SizeofError"], "(error subclass dropping the path)")
    return bad if model is not None else n


def finally_masks(ctx, rule):
    """No `finally` clause replaces an exception in flight by raising its own: the error of the member that failed (with its deeper path)
    must reach the caller; a cleanup that can fail belongs on the success path, or inside its own handler."""
    M = ctx.model
    n = 0
    for fi in M.all_functions():
        if fi.relpath.endswith("debug.py") or not any(isinstance(x, ast.Try) and x.finalbody for x in ast.walk(fi.node)):
            continue
        n += 1
        masked = None
        for p in paths_of(ctx, fi, fi.cls.name if fi.cls is not None else None):
            if p.outcome[0] != "raise":
                continue
            evs = p.events
            for i, e in enumerate(evs):
                if e.kind != "FINALLY":
                    continue
                inflight = [x for x in evs[:i] if x.raised and e["tid"] in [t if not isinstance(t, tuple) else t[0] for t in (x.trys or ())]]
                caught = any(x.kind == "CATCH" and x["tid"] == e["tid"] for x in evs[:i])
                later = [x for x in evs[i + 1:] if x.kind == "RAISE" and not x.a.get("reraised")]
                if inflight and not caught and later:
                    masked = later[0]
        ctx.ob(rule, fi, masked is None, "%s: a finally clause raises while an exception from its try body is in flight, replacing it (and its path)" % fi.qual if masked is not None else "%s: no finally clause replaces an exception in flight" % fi.qual,
               key="finally does not mask", node=masked.node if masked is not None else None)
    return n


def renamed_init(ctx, rule):
    # the name the path is extended by is the one the member was given: Renamed.__init__ stores newname (else the wrapped construct's name),
    # and likewise docs / parsed hook
    fi, paths = own_method_paths(ctx, "Renamed", "__init__")
    sc = ("param", "subcon")
    for attr, par in (("name", "newname"), ("docs", "newdocs"), ("parsed", "newparsed")):
        given = ("param", par)
        ok, nw = True, 0
        for p in paths:
            for e in p.events:
                if e.kind == "SELFWRITE" and e["base"] == SELF and e["attr"] == attr:
                    nw += 1
                    v = e["value"]
                    if v == ("bool", "or", (given, ("attr", sc, attr))):
                        continue
                    d = decided(p, given)
                    if d is None:
                        d = decided(p, N.mk_cmp("is not", given, N.NONE))
                    ok = ok and ((d is True and v == given) or (d is False and v == ("attr", sc, attr)))
        ctx.ob(rule, fi, ok and nw >= 1, "Renamed.__init__ stores %s = %s if given, else the wrapped construct's" % (attr, par), key="init %s" % attr)

def run(ctx):
    M = ctx.model
    # ---- R1
    fi, paths = own_method_paths(ctx, "ConstructError", "__init__")
    stores = [e for p in paths for e in p.events if e.kind == "SELFWRITE" and e["attr"] == "path"]
    ctx.ob("C18.R1", fi, bool(paths) and all(any(e.kind == "SELFWRITE" and e["attr"] == "path" and e["value"] == PATH for e in p.events) for p in paths),
           "ConstructError.__init__ stores the path on every path", key="self.path = path")
    for p in paths:
        sup = [e for e in p.events if e.kind == "SUPERCALL" and e["method"] == "__init__"]
        conds = p.guards()
        none_branch = any(c == ("cmp", "is", PATH, N.NONE) for c in conds)
        some_branch = any(c == ("cmp", "is not", PATH, N.NONE) for c in conds)
        if some_branch:
            good = len(sup) == 1 and sup[0]["args"] and N.contains(sup[0]["args"][0], PATH) and N.contains(sup[0]["args"][0], ("param", "message"))
            ctx.ob("C18.R1", fi, good, "with a path, the message handed to Exception.__init__ contains both the path and the message", key="prefix")
        elif none_branch:
            good = len(sup) == 1 and sup[0]["args"] == (("param", "message"),)
            ctx.ob("C18.R1", fi, good, "without a path the message is passed on unchanged", key="plain")
    error_classes_forward_path(ctx, "C18.R1")
    ctx.floor("C18.R1", 3)

    # ---- R2
    for meth, sub, lit in (("parse_stream", "_parsereport", "(parsing)"), ("build_stream", "_build", "(building)"), ("sizeof", "_sizeof", "(sizeof)")):
        fi, paths = own_method_paths(ctx, "Construct", meth)
        subs = [e for e in uniq_events(paths, "SUB") if e["m"] == sub and e["target"] == SELF]
        ctx.ob("C18.R2", fi, len(subs) == 1 and subs[0]["path"] == N.const(lit),
               "%s starts the path with %r" % (meth, lit), key=meth)
    ctx.floor("C18.R2", 3)

    # ---- R3
    exts = []
    for meth in ("_parse", "_build", "_sizeof"):
        fi, paths = own_method_paths(ctx, "Renamed", meth)
        subs = [e for e in uniq_events(paths, "SUB") if e["m"] in PROTO_SUB]
        good = len(subs) == 1 and subs[0]["target"] == N.selfattr("subcon") and subs[0]["path"] is not None and renamed_ext(subs[0]["path"]) is not None
        ctx.ob("C18.R3", fi, good, "Renamed.%s hands path + ' -> name' to the wrapped construct" % meth, key=meth,
               detail=N.show(subs[0]["path"]) if subs and subs[0]["path"] else None)
        exts.append(subs[0]["path"] if subs else None)
    ctx.ob("C18.R3", "Renamed", len(set(exts)) == 1 and exts[0] is not None, "the suffix has one form in _parse, _build and _sizeof", key="same-suffix", loc=fi.loc)
    renamed_init(ctx, "C18.R3")
    ctx.floor("C18.R3", 7)

    # ---- R4 / R5 over every function with a path in scope
    stats = {"sub": 0, "stream": 0, "raise": 0}
    seen = set()
    for fi in M.all_functions():
        if fi.relpath.endswith("debug.py"):
            continue
        if id(fi.node) in seen:
            continue
        seen.add(id(fi.node))
        outer = None
        # closures: find enclosing def
        par = getattr(fi.node, "_parent", None)
        while par is not None and not isinstance(par, ast.FunctionDef):
            par = getattr(par, "_parent", None)
        if par is not None:
            fi.outer = FuncInfo(par, fi.relpath)
        self_cls = fi.cls.name if fi.cls is not None else None
        check_function(ctx, fi, self_cls, stats)
        if any(isinstance(x, ast.Try) for x in ast.walk(fi.node)):
            check_translation(ctx, fi, self_cls)
    ctx.extra["sites"] = dict(stats)
    ctx.call_sites += stats["sub"] + stats["stream"]
    finally_masks(ctx, "C18.R5")
    ctx.floor("C18.R4", 200)
    ctx.floor("C18.R5", 100)
    ctx.floor("C18.R6", 15)

    # ---- R7: a missing context key inside _sizeof is turned into SizeofError by the construct that evaluates it (so the path names it,
    #      not the first enclosing structure that happens to translate); shared with C05.R1
    from . import C05, C06
    for fi in M.own_methods("_sizeof") + M.own_methods("_actualsize"):
        C05.check_sizeof_def(ctx, fi, fi.cls.name, rule="C18.R7")
    for name, mf in M.macros().items():
        for cl in M.closures(mf):
            if cl.name in ("_sizeof", "_actualsize"):
                C05.check_sizeof_def(ctx, cl, None, rule="C18.R7")
    ctx.floor("C18.R7", 60)
    # ---- R8: parsing consumes a member's bytes by reading them (a forward seek over padding moves a truncation error to a later member
    #      or hides it); shared with C06.R6
    for fi, cls in protocol_functions(M, C06.PARSE_SIDE):
        C06.check_seeks(ctx, fi, cls, rule="C18.R8")
    # ... and a delimited region takes its bytes with stream_read (from_reading: tell, read `length`, wrap), so that a region cut short is
    # reported by the member that owns it (shared with C08.R3)
    from . import C08
    C08.substream_class_checks(ctx, "C18.R8")
    # ... and a terminated string ends where its terminator (one code unit of its encoding) ends: the unit table (shared with C03.R2)
    from . import C03 as _C03
    _C03.unit_table_check(ctx, "C18.R8")
    # the errors of the lowest layer: every stream helper raises its StreamError with the path it was given (shared with C06.R2) -- a helper that
    # forgets it reports `path=None` for every construct that reaches the failing call
    C06.helper_checks(ctx, "C18.R8")
    ctx.floor("C18.R8", 10)

    # ---- the message of an error must be buildable for any offending object, or no ConstructError (and no path) is raised at all (shared with C06.R10)
    C06.check_formats(ctx, "C18.R5")
    # ---- an error that is not a ConstructError carries no path at all: on the build side of the numeric classes every foreign raiser is
    #      translated (shared with C03.R4), and the stream helpers translate every raw call, also those made while composing a message (C06.R1)
    from . import C03
    C03.helper_range_checks(ctx, "C18.R5")      # the integer helpers turn every out-of-range value into the ValueError the constructs translate
    esc = C06.escaping(ctx, summariser(ctx))
    for cls in ("FormatField", "BytesInteger", "BitsInteger", "VarInt", "ZigZag"):
        for meth in ("_build", "_parse"):
            C06.check_foreign(ctx, M.method(cls, meth), cls, esc, rule="C18.R5")
    for name in ("stream_read", "stream_read_entire", "stream_write", "stream_seek", "stream_tell", "stream_size", "stream_iseof"):
        f = M.functions.get(name)
        if f is not None:
            C06.check_rawio(ctx, f, None, rule="C18.R5")
    # ---- positive control: a raise without path and a sub call with a literal path must be reported
    ctl = control_model(
        "class ConstructError(Exception):\n    pass\nclass StreamError(ConstructError):\n    pass\n"
        "class Construct(object):\n    pass\n"
        "class X(Construct):\n"
        "    def _parse(self, stream, context, path):\n"
        "        if context: raise StreamError('boom')\n"
        "        return self.subcon._parsereport(stream, context, '(parsing)')\n")
    from ..core import Ctx
    c2 = Ctx("C18", ctx.tier, ctl.root, model=ctl)
    fi = ctl.method("X", "_parse")
    check_function(c2, fi, "X", {"sub": 0, "stream": 0, "raise": 0})
    bad = {o.rule for o in c2.obligations if not o.ok}
    ctx.control("C18.R4", "C18.R4" in bad)
    ctx.control("C18.R5", "C18.R5" in bad)
