"""C06 -- malformed, truncated or failing input is always reported as ConstructError."""
import ast

from .. import norm as N
from ..summ import root_of
from .common import *
from . import C13

META = {
    "level": "other",
    "explanation": "Ownership, translation and error-discipline check of every stream access and every foreign raiser on the parse side: (R1) every raw call of read/write/seek/tell/close on a stream that came in from outside (or wraps one) is *translated*: it sits inside a try whose handler is total (`except Exception`) and raises StreamError(path) -- today that is the seven stream_* helpers; stream wrapper classes (their methods are only reached through the helpers), debug.py, Pickled and Numpy are outside the property's fragment; (R2) stream_read rejects negative lengths before reading and short data after, stream_write rejects non-bytes, negative length, length mismatch and short writes, and every helper translates; together with R1 this makes 'no value from fewer bytes than required' a per-site fact; (R3) in every parse-side method (_parse, _decode, _actualsize and their closures) every call that can raise a non-ConstructError -- package helpers whose own summary shows an escaping `raise ValueError`, struct.pack/unpack, bytes.decode/str.encode -- is covered by a handler that catches that class and raises a ConstructError subclass; opaque external calls are allowed only in the frozen list of callback/codec carriers; (R4) handlers that can swallow ExplicitError re-raise it first (shared with C13.R5); (R5) no recovery handler reads a local that is unbound on the exceptional edge entering it. (R7) every division or modulo whose divisor is computed at parse time from the context or the data is preceded on its path by a guard excluding zero (no ZeroDivisionError escapes); R2 also carries the code-unit table (a terminator narrower than the unit accepts strict prefixes). (R8) termination, loop by loop: every loop on the parse side (and in the stream/bit helpers) runs over a finite collection, or has a numeric variant moving by a step proved >= 1, or reads at least one byte of the input through stream_read in every iteration; a loop whose only progress is the call of an arbitrary sub-construct is reported (GreedyRange: known finding; RepeatUntil: frozen, the user's predicate ends it).",
    "undecided": "Termination of recursion through LazyBound (each level is an ordinary parse; depth is bounded by the input only if every cycle consumes input -- not decided); TypeErrors from ill-typed context values; the k-th-operation fault model is covered only through R1+R2 (every operation is one of seven guarded sites).",
    "trusted_base": ["python ast (3.12)", "sa.summ summariser", "table of external raisers (struct, codecs, int.to_bytes) taken from the stdlib documentation"],
    "assumptions": ["user callbacks and third-party codecs are outside the property", "sub-constructs honour the same contract (induction over nesting)"],
}

WRAPPER_CLASSES = {"RestreamedBytesIO", "RebufferedBytesIO", "BytesIOWithOffsets"}
R1_EXCLUDED = {
    "Pickled._parse": "Pickled hands the stream to pickle (excluded by the property: third-party/opaque codec)",
    "Pickled._build": "Pickled hands the stream to pickle",
    "Numpy._parse": "Numpy hands the stream to numpy",
    "Numpy._build": "Numpy hands the stream to numpy",
    "stream_size": "unused module helper with its own total handler (path '???')",
    "stream_iseof": "unused module helper with its own total handler (path '???')",
}
PARSE_SIDE = ("_parse", "_decode", "_actualsize", "_parsereport")
# classes whose parse side is a carrier of user callbacks or third-party codecs (excluded by the property statement)
CARRIERS = {
    "Transformed": "decodefunc is a user callback", "Restreamed": "decoder is a user callback (macro sites checked by C10)",
    "Checksum": "hashfunc/bytesfunc are user callbacks", "ExprAdapter": "user lambdas", "ExprSymmetricAdapter": "user lambdas",
    "ExprValidator": "user lambda", "Computed": "user callback", "LazyBound": "subconfunc is a user callback",
    "Pickled": "pickle", "Numpy": "numpy", "CompressedLZ4": "third-party codec", "EncryptedSym": "third-party cipher",
    "EncryptedSymAead": "third-party cipher", "TimestampAdapter": "arrow (third-party)", "Compiled": "generated code",
    "RepeatUntil": "predicate is a user callback", "Rebuffered": "documented experimental", "Debugger": "debug aid", "Probe": "debug aid",
    "NamedTuple": "factory built from user field names",
}
# documented construction errors: the docstring lists the foreign exception
R3_FROZEN = {
    ("Union._parse", "GETITEM"): "forwards[parsefrom]: KeyError documented ('raises KeyError: parsefrom is not a valid member')",
}
USER_HOOKS = {"parsed"}   # Construct.parsed: documented user hook ("parsed hooks"), a user callback by definition
EXTERNAL_RAISERS = {
    ("struct", "unpack"): ("struct.error",), ("struct", "calcsize"): ("struct.error",),
    ("struct", "pack"): ("struct.error", "OverflowError"),      # "float too large to pack with e/f format" is an OverflowError
    ("binascii", "hexlify"): ("TypeError",), ("binascii", "unhexlify"): ("TypeError", "binascii.Error"),   # a bytes-like object is required
}
BYTES_ONLY = {("binascii", "hexlify")}       # raise TypeError exactly for arguments that are not bytes-like: a dominating isinstance(arg, bytes) test discharges them
METHOD_RAISERS = {"decode": "UnicodeError", "encode": "UnicodeError", "to_bytes": "OverflowError"}


def translated(S, p, e):
    """Is raw-I/O event e (on path p, non-raising copy) inside a try with a total handler raising StreamError(path)?"""
    if not e.trys:
        return False
    trs = [t for t in p.events if t.kind == "TRY" and t["tid"] in e.trys]
    return any(("Exception",) == h or "*" in h or "Exception" in h or "BaseException" in h for t in trs for h in t["handlers"])


def check_rawio(ctx, fi, self_cls, rule="C06.R1"):
    S = summariser(ctx)
    paths = paths_of(ctx, fi, self_cls)
    seen = {}
    for p in paths:
        for i, e in enumerate(p.events):
            if e.kind not in ("RAWIO", "STREAMARG") or e.depth:
                continue
            s = e["stream"]
            r = root_of(s)
            local_fresh = (s[0] == "newstream" and s[1] == "BytesIO") or r[0] == "with"
            if local_fresh:
                # a scratch BytesIO created here, or a file this very function opened (compile/benchmark/export_ksy write source text)
                continue
            ok = True
            if e.kind == "STREAMARG":
                ok = False
            else:
                ok = translated(S, p, e)
                if ok and e.raised:
                    # the handler must end in StreamError carrying a path
                    nxt = p.events[i + 1] if i + 1 < len(p.events) else None
                    ok = nxt is not None and nxt.kind == "CATCH" and p.outcome[0] == "raise" and p.outcome[1].get("cls") == "StreamError" \
                        and p.outcome[1].get("path") is not None
            k = id(e.node)
            seen[k] = (seen.get(k, (True, e))[0] and ok, e)
    for ok, e in seen.values():
        what = "raw stream.%s() on an outside stream is not translated into StreamError(path)" % e["method"] if e.kind == "RAWIO" else \
            "stream handed to a foreign function %s" % N.show(e["func"])
        ctx.ob(rule, fi, ok, what, node=e.node, key="%s %s" % (e.kind, e["method"] if e.kind == "RAWIO" else N.show(e["func"])))
    return len(seen)


def helper_checks(ctx, rule="C06.R2"):
    M = ctx.model
    length, data, stream = ("param", "length"), ("param", "data"), STREAM
    # every helper: raw call translated, path carried
    for name in ("stream_read", "stream_read_entire", "stream_write", "stream_seek", "stream_tell"):
        fi = M.function(name)
        paths = paths_of(ctx, fi)
        raws = [p for p in paths if any(e.kind == "RAWIO" and e.raised for e in p.events)]
        ok = bool(raws) and all(p.outcome[0] == "raise" and p.outcome[1].get("cls") == "StreamError" and p.outcome[1].get("path") == PATH
                                 and any(e.kind == "CATCH" and "Exception" in e["types"] for e in p.events) for p in raws)
        ctx.ob(rule, fi, ok, "%s turns any failure of the raw call into StreamError(path=path)" % name, key="translate")
        n_raw = len({id(e.node) for p in paths for e in p.events if e.kind == "RAWIO"})
        ctx.ob(rule, fi, n_raw == 1 and all(e["stream"] == stream for p in paths for e in p.events if e.kind == "RAWIO"),
               "%s performs exactly one raw call, on its stream argument" % name, key="one raw call")
        for p in paths:
            if p.outcome[0] == "raise" and p.outcome[1].get("kind") == "explicit":
                if p.outcome[1].get("path") != PATH:
                    ctx.ob(rule, fi, False, "%s raises %s without the caller's path" % (name, p.outcome[1].get("cls")), key="raise path")
    # stream_read
    fi = M.function("stream_read")
    paths = paths_of(ctx, fi)
    reach = [p for p in paths if p.of("RAWIO")]
    ctx.ob(rule, fi, bool(reach) and all(N.mk_cmp(">=", length, N.const(0)) in p.guards(p.of("RAWIO")[0]) for p in reach),
           "stream_read rejects a negative length before touching the stream", key="read: negative length")
    ctx.ob(rule, fi, all(e["args"] == (length,) for p in reach for e in p.of("RAWIO")), "stream_read requests exactly `length` bytes", key="read: amount")
    rets = [p for p in paths if p.returns]
    good = bool(rets)
    for p in rets:
        raw = p.of("RAWIO")
        good = good and len(raw) == 1 and p.retval == raw[0]["res"] and \
            N.mk_cmp("==", ("call", ("free", "len"), (raw[0]["res"],), ()), length) in p.guards()
    ctx.ob(rule, fi, good, "stream_read returns the data only if exactly `length` bytes were obtained", key="read: short data")
    short = [p for p in paths if p.outcome[0] == "raise" and any(c[0] == "cmp" and c[1] == "!=" for c in p.guards())]
    ctx.ob(rule, fi, bool(short) and all(p.outcome[1].get("cls") == "StreamError" for p in short), "a short read is a StreamError", key="read: short is StreamError")
    # stream_write
    fi = M.function("stream_write")
    paths = paths_of(ctx, fi)
    reach = [p for p in paths if p.of("RAWIO")]
    isb = ("call", ("free", "isinstance"), (data, ("free", "bytes")), ())
    lend = ("call", ("free", "len"), (data,), ())
    need = [isb, N.mk_cmp(">=", length, N.const(0)), N.mk_cmp("==", lend, length)]
    good = bool(reach)
    for p in reach:
        g = p.guards(p.of("RAWIO")[0])
        good = good and all(c in g for c in need)
    ctx.ob(rule, fi, good, "stream_write rejects non-bytes, negative length and len(data) != length before writing", key="write: preconditions")
    rets = [p for p in paths if p.returns]
    good = bool(rets)
    for p in rets:
        raw = p.of("RAWIO")
        good = good and len(raw) == 1 and raw[0]["args"] == (data,) and N.mk_cmp("==", raw[0]["res"], length) in p.guards()
    ctx.ob(rule, fi, good, "stream_write succeeds only if the stream reports exactly `length` bytes written", key="write: short write")
    nonb = [p for p in paths if N.mk_not(isb) in p.guards()]
    ctx.ob(rule, fi, bool(nonb) and all(p.outcome[0] == "raise" and is_error_class(M, p.outcome[1].get("cls")) for p in nonb), "non-bytes data is a ConstructError", key="write: non-bytes")
    unused_parameters(ctx, rule, lambda f: f.cls is None and f.name.startswith("stream_"))
    ctx.floor(rule, 16 + 10)


def escaping(ctx, S):
    """X-lite: package functions -> set of non-ConstructError classes an explicit raise lets escape (fixed point over package calls)."""
    M = ctx.model
    esc = {}
    funs = {name: fi for name, fi in M.functions.items() if not fi.relpath.endswith("debug.py")}
    summ = {name: paths_of(ctx, fi) for name, fi in funs.items()}
    changed = True
    for name in funs:
        esc[name] = set()
    while changed:
        changed = False
        for name, paths in summ.items():
            cur = set(esc[name])
            for p in paths:
                if p.outcome[0] == "raise":
                    c = p.outcome[1].get("cls")
                    if p.outcome[1].get("kind") == "explicit" and c and not is_error_class(M, c) and c != "NotImplementedError":
                        cur.add(c)
                for e in p.events:
                    if e.kind == "GETITEM" and e["base"][0] == "free" and any(x[0] == "slice" for x in N.walk(e["key"])):
                        # a module-level table looked up under a *slice of the data* (an 8-byte bit group): the table holds the well-formed groups only,
                        # any other byte string is a KeyError (the tables indexed by one byte value are total, C20.R4 / C10.R5)
                        trs = [t for t in p.events if t.kind == "TRY" and t["tid"] in e.trys]
                        if not any(S.catches(h, "KeyError") for t in trs for h in t["handlers"]):
                            cur.add("KeyError")
                    if e.kind == "CALL" and e["callee"] == "package" and e["func"][0] == "free" and e["func"][1] in esc:
                        for c in esc[e["func"][1]]:
                            # escapes unless an enclosing handler catches it
                            trs = [t for t in p.events if t.kind == "TRY" and t["tid"] in e.trys]
                            if not any(S.catches(h, c) for t in trs for h in t["handlers"]):
                                cur.add(c)
            if cur != esc[name]:
                esc[name] = cur
                changed = True
    return esc


def raiser_classes(e, esc):
    """Foreign exception classes call event e may raise, or 'opaque'."""
    f = e["func"]
    if e["callee"] == "package" and f[0] == "free":
        return esc.get(f[1], set())
    if f[0] == "attr":
        b = f[1]
        if b[0] in ("module", "free") and (b[1], f[2]) in EXTERNAL_RAISERS:
            return set(EXTERNAL_RAISERS[(b[1], f[2])])
        if f[2] in METHOD_RAISERS and b[0] not in ("module",) and root_of(b) != SELF:
            return {METHOD_RAISERS[f[2]]}
    if e["callee"] in ("value", "closure"):
        return "opaque"
    if f[0] == "attr" and f[1] == SELF and f[2] in USER_HOOKS:
        return set()
    if f[0] == "attr" and root_of(f[1]) == SELF:
        return "opaque"
    return set()


FOREIGN_BUILTIN = {"ValueError", "TypeError", "KeyError", "IndexError", "AttributeError", "ZeroDivisionError", "OverflowError", "UnicodeError", "UnicodeDecodeError",
                   "UnicodeEncodeError", "LookupError", "ArithmeticError", "RuntimeError", "AssertionError", "OSError", "IOError", "EOFError", "Exception", "struct.error"}


def check_foreign(ctx, fi, self_cls, esc, rule="C06.R3"):
    S = summariser(ctx)
    M = ctx.model
    paths = paths_of(ctx, fi, self_cls)
    verdict = {}
    carrier = CARRIERS.get(self_cls) or (fi.cls is None and "carrier")
    for p in paths:
        for i, e in enumerate(p.events):
            if e.depth or e.kind != "CALL":
                continue
            cls = raiser_classes(e, esc)
            if not cls:
                continue
            f0 = e["func"]
            if f0[0] == "attr" and f0[1][0] in ("module", "free") and (f0[1][1], f0[2]) in BYTES_ONLY and e["args"]:
                isb = ("call", ("free", "isinstance"), (e["args"][0], ("free", "bytes")), ())
                conds = list(p.guards(e)) + ([e.under] if e.under is not None else [])
                flat = []
                for c in conds:
                    flat.extend(c[2] if c[0] == "bool" and c[1] == "and" else (c,))
                if isb in flat:
                    continue        # only ever called on bytes
            k = id(e.node)
            if cls == "opaque":
                ok = bool(carrier)
                what = "opaque external call %s in a parse path outside the frozen carriers of callbacks/codecs" % N.show(e["func"])
            else:
                trs = [t for t in p.events[:i] if t.kind == "TRY" and t["tid"] in e.trys]
                ok = all(any(S.catches(h, c) for t in trs for h in t["handlers"]) for c in cls)
                what = "call %s can raise %s which no enclosing handler translates into a ConstructError" % (N.show(e["func"]), "/".join(sorted(cls)))
                if ok and e.raised:
                    # follow the exceptional edge: must end in a ConstructError (or be swallowed on purpose)
                    if p.outcome[0] == "raise" and p.outcome[1].get("kind") == "explicit":
                        ok = is_error_class(M, p.outcome[1].get("cls"))
                        what = "handler around %s raises %s, not a ConstructError" % (N.show(e["func"]), p.outcome[1].get("cls"))
            cur = verdict.get(k, (True, e, what))
            verdict[k] = (cur[0] and ok, e, what if not ok else cur[2])
    for ok, e, what in verdict.values():
        ctx.ob(rule, fi, ok, what, node=e.node, key="call %s" % N.show(e["func"]), detail=CARRIERS.get(self_cls))
    # a helper that was run in place (a function extracted by an edit, not one of the frozen package functions): a raise of a foreign class inside it
    # that leaves the method is the same escape as a call of a raising helper
    inl = {}
    for p in paths:
        if p.outcome[0] == "raise" and p.outcome[1].get("kind") == "explicit":
            rs = [e for e in p.events if e.kind == "RAISE" and e.depth]
            c = p.outcome[1].get("cls")
            if rs and rs[-1] is p.events[-1] and c and not is_error_class(M, c) and c in FOREIGN_BUILTIN:
                inl[id(rs[-1].node)] = (rs[-1], c)
    for e, c in inl.values():
        ctx.ob(rule, fi, False, "a helper run in place raises %s, which leaves %s untranslated" % (c, fi.qual), node=e.node, key="inlined raise %s" % c)
    return len(verdict) + len(inl)


def check_undef(ctx, fi, self_cls, rule="C06.R5"):
    """No local that may be unbound is read inside a recovery handler."""
    paths = paths_of(ctx, fi, self_cls)
    verdict = {}
    for p in paths:
        inh = False
        for e in p.events:
            if e.kind == "CATCH":
                inh = True
            elif e.kind == "ENDCATCH":
                inh = False
            if not inh or e.depth:
                continue
            bad = None
            if e.kind == "UNDEF":
                bad = e["name"]
            else:
                for v in e.a.values():
                    if isinstance(v, tuple):
                        for x in N.walk(v):
                            if x[0] == "lv" and len(x) > 3 and x[3] is None:
                                bad = x[1]
                            elif x[0] == "undef":
                                bad = x[1]
            k = id(e.node)
            if bad:
                verdict[k] = (False, e, bad)
            else:
                verdict.setdefault(k, (True, e, None))
    n = 0
    for ok, e, bad in verdict.values():
        if e.kind in ("CATCH", "ENDCATCH", "ASSUME"):
            continue
        n += 1
        ctx.ob(rule, fi, ok, "recovery handler reads local `%s`, which is unbound when the failing operation is the first in its region" % bad if bad else
               "handler statement reads only bound locals", node=e.node, key="%s in handler reads %s" % (e.kind, bad) if bad else None)
    return n


SEEK_FROZEN = {
    "Lazy._parse": "lazy skip by _actualsize without reading (C16.R1 owns its contract)",
    "LazyStruct._parse": "lazy skip to a computed offset (C16.R2)",
    "LazyArray._parse": "lazy skip to a computed offset (C16.R2)",
    "Seek._parse": "user-directed seek is the construct's purpose",
    "LazyContainer.__getitem__": "deferred parse seeks to a recorded offset (C16.R3)",
    "LazyListContainer.__getitem__": "deferred parse seeks to a recorded offset (C16.R3)",
}


def seek_shape(p, e):
    off, wh, s = e["offset"], e["whence"], e["stream"]
    if off[0] == "tell" and off[1] == s and wh == N.const(0):
        return "restore"
    if off[0] == "lv" and wh == N.const(0):
        return "restore"      # loop-carried position taken by an earlier tell (checked by C09)
    if off[0] == "sub" and off[1][0] == "new" and wh == N.const(0):
        stores = [x for x in p.events if x.kind == "STORE" and x["base"] == off[1]]
        if all(x["value"][0] == "tell" for x in stores):
            return "table-of-tells"
    if off == N.const(0) and wh == N.const(2):
        return "end"
    if off[0] == "eval" and wh[0] == "ite":
        return "pointer"
    if off[0] == "eval" and wh in (N.const(0), N.const(2)):
        # the same jump with the whence chosen by a statement or an expanded conditional: from the end exactly under `offset < 0`
        neg = N.mk_cmp("<", off, N.const(0))
        fl = set()
        for g in p.guards(e):
            fl |= set(g[2]) if g[0] == "bool" and g[1] == "and" else {g}
        if (wh == N.const(2) and neg in fl) or (wh == N.const(0) and N.mk_not(neg) in fl):
            return "pointer"
    if wh == N.const(1) and N._lin_parts(off)[1] <= 0 and all(c < 0 for c in N._lin_parts(off)[0].values()):
        return "backstep"
    flat = set()
    for g in p.guards(e):
        flat |= set(g[2]) if g[0] == "bool" and g[1] == "and" else {g}
    if wh == N.const(1) and (N.mk_cmp("<=", off, N.const(0)) in flat or N.mk_cmp("<", off, N.const(0)) in flat):
        return "backstep"         # a relative seek by an amount the path has established to be non-positive
    if wh == N.const(0) and off[0] == "lin" and off[2] == 0 and all(c == 1 for _, c in off[1]):
        # tell + len(<bytes read from this stream after that tell>): a position inside what has already been read (never past the current one)
        tells = [a for a, _ in off[1] if a[0] == "tell" and a[1] == s]
        lens = [a for a, _ in off[1] if a[0] == "call" and a[1] == ("free", "len") and len(a[2]) == 1]
        if len(tells) == 1 and len(lens) == len(off[1]) - 1 and lens:
            tell_ev = next((x for x in p.events if x.kind == "TELL" and x["res"] == tells[0]), None)
            after = p.events[p.index(tell_ev):] if tell_ev is not None else []
            reads = {x["res"] for x in after if x.kind in ("READ", "READALL") and x["stream"] == s}
            steps = getattr(p, "loop_steps", [])
            def from_reads(t):
                leaves = [x for x in N.walk(t) if x[0] in ("read", "readall")]
                if leaves and all(x in reads or x[1] == s for x in leaves):
                    return True
                # b"".join(<list>) where every append to that list, on this path and in the earlier iterations of its loops, is a unit just read
                lists = [x for x in N.walk(t) if x[0] == "new" and x[1] == "list"]
                apps = [x for x in list(p.events) + [y for _, evs, _ in steps for y in evs] if x.kind == "MUT" and x["base"] in lists and x["method"] in ("append", "extend", "insert")]
                return bool(lists) and bool(apps) and all(x["method"] == "append" and x["args"] and x["args"][0][0] == "read" and x["args"][0][1] == s for x in apps)
            if tell_ev is not None and all(from_reads(a[2][0]) for a in lens):
                return "within-read"
    return None


def check_seeks(ctx, fi, cls, rule="C06.R6"):
    """Data is consumed by reading, never skipped by seeking forward (a truncated input must fail in stream_read)."""
    paths = paths_of(ctx, fi, cls)
    verdict = {}
    for p in paths:
        for e in p.events:
            if e.kind != "SEEK" or e.depth:
                continue
            shape = seek_shape(p, e)
            ok = shape is not None or fi.qual in SEEK_FROZEN or fi.qual.split(".")[0] + "." + fi.qual.split(".")[1] in SEEK_FROZEN if "." in fi.qual else shape is not None
            k = id(e.node)
            cur = verdict.get(k, (True, e, shape))
            verdict[k] = (cur[0] and bool(ok), e, shape)
    for ok, e, shape in verdict.values():
        ctx.ob(rule, fi, ok, "parse-side seek to %s (whence %s) is neither a restore of a recorded position, an end probe, a pointer jump nor a backstep: bytes are skipped without being read"
               % (N.show(e["offset"]), N.show(e["whence"])), node=e.node, key="seek %s" % (shape or "forward"), detail=SEEK_FROZEN.get(fi.qual))
    return len(verdict)


TABLE_FROZEN = {
    ("Enum._decode", "decmapping"): "Enum is defined over integer sub-constructs (the fallback EnumInteger(obj) is an int): keys are ints, always hashable",
}


def check_tables(ctx, fi, cls, rule="C06.R3"):
    """A lookup of parsed data in one of the construct's own tables must translate KeyError and TypeError (unhashable parsed value)."""
    S = summariser(ctx)
    paths = paths_of(ctx, fi, cls)
    verdict = {}
    for p in paths:
        for e in p.events:
            if e.kind != "GETITEM" or e.depth:
                continue
            b = e["base"]
            if not (b[0] == "attr" and b[1] == SELF):
                continue
            if not any(x == OBJ or x[0] in ("subres", "read", "readall") for x in N.walk(e["key"])):
                continue
            trs = [t for t in p.events if t.kind == "TRY" and t["tid"] in e.trys]
            ok = all(any(S.catches(h, c) for t in trs for h in t["handlers"]) for c in ("KeyError", "TypeError")) or (fi.qual, b[2]) in TABLE_FROZEN
            k = id(e.node)
            verdict[k] = (verdict.get(k, (True,))[0] and ok, e)
    for ok, e in verdict.values():
        ctx.ob(rule, fi, ok, "lookup of parsed data in self.%s must translate both KeyError and TypeError (unhashable value) into a ConstructError" % e["base"][2],
               node=e.node, key="table %s" % e["base"][2], detail=TABLE_FROZEN.get((fi.qual, e["base"][2])))
    return len(verdict)


def nonzero(d, conj):
    """Do the path's guards exclude d == 0?  (sound, incomplete: comparisons of d or of its single factor against constants)"""
    if N.is_int(d):
        return d[2] != 0
    if d[0] == "lin" and d[2] == 0 and len(d[1]) == 1:
        return nonzero(d[1][0][0], conj)
    if d[0] == "mul":
        return nonzero(d[1], conj) and nonzero(d[2], conj)
    for g in conj:
        if g == d:
            return True
        if g[0] != "cmp":
            continue
        op, l, r = g[1], g[2], g[3]
        if r == d and N.is_int(l):
            op, l, r = {"<": ">", "<=": ">=", ">": "<", ">=": "<=", "==": "==", "!=": "!="}.get(op, op), r, l
        if l == d and N.is_int(r) and not isinstance(r[2], bool):
            c = r[2]
            if (op == ">=" and c >= 1) or (op == ">" and c >= 0) or (op == "==" and c != 0) or (op == "!=" and c == 0) or (op == "<" and c <= 0) or (op == "<=" and c <= -1):
                return True
    return False


def check_divisors(ctx, fi, cls, rule="C06.R7"):
    """A division or modulo whose divisor is computed from the context or the data is preceded by a guard that excludes zero (else ZeroDivisionError escapes parse)."""
    paths = paths_of(ctx, fi, cls)
    verdict = {}
    for p in paths:
        conj = []
        for e in p.events:
            if e.depth:
                if e.kind == "ASSUME":       # a guard established inside an inlined helper holds for the rest of the path
                    c = e["cond"]
                    conj.extend(c[2] if c[0] == "bool" and c[1] == "and" else (c,))
                continue
            for v in e.a.values():
                if not isinstance(v, tuple):
                    continue
                for x in N.walk(v):
                    d = x[2] if x[0] == "mod" else (x[3] if x[0] == "bin" and x[1] in ("//", "/", "%") else None)
                    if d is None or N.is_int(d) and d[2] != 0:
                        continue
                    k = N.show(d)
                    ok = nonzero(d, conj)
                    cur = verdict.get(k, (True, e))
                    verdict[k] = (cur[0] and ok, cur[1])
            if e.kind == "ASSUME":
                c = e["cond"]
                conj.extend(c[2] if c[0] == "bool" and c[1] == "and" else (c,))
    for k, (ok, e) in verdict.items():
        ctx.ob(rule, fi, ok, "divisor %s is computed at parse time; every path reaching the division first excludes zero (otherwise ZeroDivisionError, not a ConstructError, escapes)" % k, key="divisor %s" % k, node=e.node)
    return len(verdict)


UNBOUNDED_ITERS = {"itertools.count", "itertools.cycle", "itertools.repeat", "count", "cycle", "repeat"}
LOOP_FROZEN = {
    "RepeatUntil._parse": "the loop ends when the user's predicate says so; user callbacks are outside the property's fragment",
}


def loop_kind(node):
    """'bounded' for a for-loop / comprehension over a finite collection, 'unbounded' for while loops and infinite iterators."""
    if isinstance(node, ast.While):
        # the `for` statement written out: `while True: try: x = next(it) except StopIteration: break|return` ends when the iterator does
        b0 = node.body[0] if node.body else None
        if isinstance(node.test, ast.Constant) and node.test.value is True and isinstance(b0, ast.Try) and len(b0.body) == 1 and isinstance(b0.body[0], ast.Assign) \
                and isinstance(b0.body[0].value, ast.Call) and isinstance(b0.body[0].value.func, ast.Name) and b0.body[0].value.func.id == "next" \
                and len(b0.body[0].value.args) == 1 and len(b0.handlers) == 1 and isinstance(b0.handlers[0].type, ast.Name) and b0.handlers[0].type.id == "StopIteration" \
                and len(b0.handlers[0].body) == 1 and isinstance(b0.handlers[0].body[0], (ast.Break, ast.Return)):
            return "bounded"
        return "unbounded"
    it = node.iter
    if isinstance(it, ast.Call):
        f = ast.unparse(it.func)
        if f in UNBOUNDED_ITERS:
            return "unbounded"
        if f == "iter" and len(it.args) == 2:
            return "unbounded"
        if f == "zip":
            return "bounded" if any(not (isinstance(a, ast.Call) and ast.unparse(a.func) in UNBOUNDED_ITERS) for a in it.args) else "unbounded"
    return "bounded"


def numeric_variant(fn, loop):
    """while-test mentions a local that the body changes unconditionally by a step known to be >= 1 (constant, or a local guarded by `if step < 1: raise`)."""
    if not isinstance(loop, ast.While):
        return None
    names = {n.id for n in ast.walk(loop.test) if isinstance(n, ast.Name)}
    for st in loop.body:
        if isinstance(st, ast.Assign) and len(st.targets) == 1 and isinstance(st.targets[0], ast.Name) and isinstance(st.value, ast.BinOp) and isinstance(st.value.left, ast.Name) \
                and st.value.left.id == st.targets[0].id:
            st = ast.AugAssign(target=st.targets[0], op=st.value.op, value=st.value.right)      # x = x op y, same thing
        if isinstance(st, ast.AugAssign) and isinstance(st.target, ast.Name) and st.target.id in names and isinstance(st.op, (ast.Sub, ast.Add, ast.RShift, ast.FloorDiv)):
            step = st.value
            if isinstance(step, ast.Constant) and isinstance(step.value, int) and step.value >= 1 and not (isinstance(st.op, ast.FloorDiv) and step.value < 2):
                return "%s %s= %s" % (st.target.id, {ast.Sub: "-", ast.Add: "+", ast.RShift: ">>", ast.FloorDiv: "//"}[type(st.op)], step.value)
            if isinstance(step, ast.Name) and isinstance(st.op, (ast.Sub, ast.Add)):
                for g in ast.walk(fn):
                    if not (isinstance(g, ast.If) and any(isinstance(x, ast.Raise) for x in g.body) and g.lineno < loop.lineno):
                        continue
                    t = g.test
                    neg = False
                    if isinstance(t, ast.UnaryOp) and isinstance(t.op, ast.Not):
                        t, neg = t.operand, True
                    if not (isinstance(t, ast.Compare) and len(t.ops) == 1):
                        continue
                    l, op, r = t.left, type(t.ops[0]), t.comparators[0]
                    if isinstance(l, ast.Constant) and isinstance(r, ast.Name):
                        l, r, op = r, l, {ast.Lt: ast.Gt, ast.Gt: ast.Lt, ast.LtE: ast.GtE, ast.GtE: ast.LtE}.get(op, op)
                    if not (isinstance(l, ast.Name) and l.id == step.id and isinstance(r, ast.Constant) and isinstance(r.value, int)):
                        continue
                    c = r.value
                    # the raise happens when the test holds; past it, the negation holds
                    past_ge1 = (not neg and ((op is ast.Lt and c >= 1) or (op is ast.LtE and c >= 0))) or (neg and ((op is ast.GtE and c >= 1) or (op is ast.Gt and c >= 0)))
                    if past_ge1:
                        return "%s changes by %s, which is >= 1 past the guard on line %d" % (st.target.id, step.id, g.lineno)
    return None


def check_progress(ctx, fi, cls, rule="C06.R8"):
    """Every loop on the parse side ends on every input: it runs over a finite collection, or every iteration reads at least one byte
    from the (finite) input through stream_read, or a numeric variant moves by a positive step.  A loop whose only progress is a call of
    an arbitrary sub-construct does not end when that construct consumes nothing."""
    n = 0
    loops = [x for x in ast.walk(fi.node) if isinstance(x, (ast.While, ast.For))]
    comps = [g for x in ast.walk(fi.node) if isinstance(x, (ast.ListComp, ast.GeneratorExp, ast.DictComp, ast.SetComp)) for g in x.generators]
    for g in comps:
        n += 1
        ctx.ob(rule, fi, loop_kind(g) == "bounded", "comprehension over %s is bounded" % ast.unparse(g.iter)[:60], key="comprehension over %s" % norm_text(g.iter)[:80], node=g.iter)
    if not loops:
        return n
    paths = paths_of(ctx, fi, cls)
    unb = 0
    for lp in loops:
        n += 1
        what = "for %s" % ast.unparse(lp.iter)[:50] if isinstance(lp, ast.For) else "while %s" % ast.unparse(lp.test)[:50]
        key = "loop " + (norm_text(lp.iter) if isinstance(lp, ast.For) else norm_text(lp.test))[:80]
        # `while True` and `for i in itertools.count()` are the same loop: one key, so a recorded finding follows the loop through a respelling
        if (isinstance(lp, ast.While) and isinstance(lp.test, ast.Constant) and lp.test.value is True) or \
                (isinstance(lp, ast.For) and isinstance(lp.iter, ast.Call) and not lp.iter.args and ast.unparse(lp.iter.func) in ("itertools.count", "count")):
            unb += 1
            key = "loop <unbounded>" + (" #%d" % unb if unb > 1 else "")
        if loop_kind(lp) == "bounded":
            ctx.ob(rule, fi, True, "%s iterates a finite collection" % what, key=key, node=lp)
            continue
        nv = numeric_variant(fi.node, lp)
        if nv:
            ctx.ob(rule, fi, True, "%s has the numeric variant %s" % (what, nv), key=key, node=lp)
            continue
        # every iteration reads >= 1 byte of the input
        seen, good = 0, True
        for p in paths:
            conj = []
            for i, e in enumerate(p.events):
                if e.kind == "ASSUME":
                    c = e["cond"]
                    conj.extend(c[2] if c[0] == "bool" and c[1] == "and" else (c,))
                if e.kind == "ITER" and not e.depth:
                    lpev = next((x for x in p.events[:i] if x.kind == "LOOP" and x["lid"] == e["lid"]), None)
                    if lpev is None or lpev.node is not lp:
                        continue
                    seen += 1
                    seg = []
                    for x in p.events[i + 1:]:
                        if x.kind in ("ITER", "LOOPEND") and x["lid"] == e["lid"]:
                            break
                        seg.append(x)
                    rd = [x for x in seg if x.kind == "READ" and x["stream"] == STREAM and not x.depth]
                    good = good and any(nonzero(x["length"], conj) for x in rd)
        frozen = LOOP_FROZEN.get(fi.qual)
        ctx.ob(rule, fi, (good and seen > 0) or bool(frozen),
               "%s: every iteration reads at least one byte of the input (otherwise the loop does not end when the iterated sub-construct consumes nothing, e.g. a zero-width element)" % what,
               key=key, node=lp, detail=frozen)
    return n


import re as _re
_SPEC = _re.compile(r"%(?:\((\w+)\))?[#0\- +]*(\*|\d+)?(?:\.(\*|\d+))?[hlL]?([diouxXeEfFgGcrsab%])")


def format_arity(text):
    """number of positional values a %-format string consumes; None if it uses mapping keys or is malformed"""
    n = 0
    pos = 0
    while True:
        i = text.find("%", pos)
        if i < 0:
            return n
        m = _SPEC.match(text, i)
        if not m:
            return None
        if m.group(1):
            return None
        if m.group(4) != "%":
            n += 1 + (m.group(2) == "*") + (m.group(3) == "*")
        pos = m.end()


def check_formats(ctx, rule="C06.R10"):
    """`"literal" % (a, b)`: the literal consumes exactly as many values as the tuple supplies (otherwise building the message of an error
    raises TypeError, which escapes instead of the ConstructError that was about to be raised)."""
    M = ctx.model
    n = 0
    for fi in M.all_functions():
        if fi.relpath.endswith("debug.py"):
            continue
        for node in ast.walk(fi.node):
            if isinstance(node, ast.BinOp) and isinstance(node.op, ast.Mod) and isinstance(node.left, ast.BinOp) and isinstance(node.left.op, ast.Add) and \
                    any(isinstance(x, ast.Constant) and isinstance(x.value, str) and "%" in x.value for x in ast.walk(node.left)) and \
                    any(isinstance(x, (ast.Name, ast.Attribute, ast.Call)) for x in (node.left.left, node.left.right)):
                # ("literal %s" + text) % args: the text becomes part of the format string; any '%' in it (a message quoting data) makes the
                # formatting itself raise TypeError / ValueError in place of the error being reported
                n += 1
                ctx.ob(rule, fi, False, "the format string %s is assembled from a literal and run-time text before %% is applied: a '%%' in that text breaks the formatting" % ast.unparse(node.left)[:80],
                       key="format string from data", node=node)
                continue
            if not (isinstance(node, ast.BinOp) and isinstance(node.op, ast.Mod) and isinstance(node.left, ast.Constant) and isinstance(node.left.value, str)):
                continue
            owner = getattr(node, "_parent", None)
            inner = False
            while owner is not None and owner is not fi.node:
                if isinstance(owner, (ast.FunctionDef, ast.Lambda)):
                    inner = True
                    break
                owner = getattr(owner, "_parent", None)
            if inner:
                continue        # belongs to a nested function, which is visited on its own
            want = format_arity(node.left.value)
            r = node.right
            if isinstance(r, (ast.Name, ast.Attribute, ast.Subscript)) and any(isinstance(x, ast.Name) and x.id in ("obj", "data", "value", "item", "element") for x in ast.walk(r)):
                # the object being parsed/built is arbitrary user data: as a bare operand of %, a tuple would be unpacked into the format
                n += 1
                ctx.ob(rule, fi, False, "format string %r is applied to the bare object %s: if that object is a tuple the formatting itself raises TypeError -- wrap it as (%s,)" % (
                    node.left.value[:40], ast.unparse(r), ast.unparse(r)), key="format %s bare obj" % node.left.value[:60], node=node)
                continue
            if want is None or isinstance(r, (ast.Name, ast.Dict, ast.Starred)):
                continue
            have = len(r.elts) if isinstance(r, ast.Tuple) else 1
            if isinstance(r, ast.Tuple) and any(isinstance(e, ast.Starred) for e in r.elts):
                continue
            n += 1
            ctx.ob(rule, fi, want == have, "format string %r consumes %d value(s), %d supplied" % (node.left.value[:50], want, have), key="format %s" % node.left.value[:60], node=node)
    return n


SWALLOW_FROZEN = {
    "NullTerminated._parse": "documented: with require=False the end of the stream ends the string (the handler re-raises when require is set, C08.R2)",
    "GreedyRange._parse": "documented: the element loop ends on *any* failure inside an iteration; its own tell sits in that iteration, and the handler's seek back fails loudly on a stream that cannot tell/seek",
}


def check_stream_swallow(ctx, fi, cls, rule="C06.R11"):
    """A StreamError raised by a stream helper (failed or short read, failed seek/tell) is never swallowed: a failing stream must not be
    mistaken for the end of the data."""
    paths = paths_of(ctx, fi, cls)
    verdict = {}
    relabel = {}
    for p in paths:
        for i, e in enumerate(p.events):
            if e.kind not in ("READ", "READALL", "TELL", "SEEK", "WRITE") or not e.raised or e.depth:
                continue
            nxt = p.events[i + 1] if i + 1 < len(p.events) else None
            if nxt is None or nxt.kind != "CATCH":
                continue
            swallowed = any(x.kind == "ENDCATCH" and x["tid"] == nxt["tid"] and x["handler"] == nxt["handler"] for x in p.events[i + 2:])
            k = id(e.node)
            verdict[k] = (verdict.get(k, (True,))[0] and (not swallowed or fi.qual in SWALLOW_FROZEN), e)
            # ... nor re-labelled: the handler that catches the helper's StreamError must not raise an error of another class in its place
            rr = next((x for x in p.events[i + 2:] if x.kind == "RAISE"), None)
            if rr is not None and not swallowed and not rr.a.get("reraised"):
                k2 = (id(e.node), "relabel")
                good = rr["cls"] in ("StreamError",) or (rr["cls"] is not None and ctx.model.is_subclass(rr["cls"], "StreamError")) if rr["cls"] in ctx.model.classes else rr["cls"] == "StreamError"
                relabel[k2] = (relabel.get(k2, (True,))[0] and good, e, rr["cls"])
    for ok, e in verdict.values():
        ctx.ob(rule, fi, ok, "the handler around %s does not end normally: a failing stream is reported, not taken for the end of the data" % e.kind, node=e.node, key="swallowed %s" % e.kind, detail=SWALLOW_FROZEN.get(fi.qual))
    for ok, e, cls_ in relabel.values():
        ctx.ob(rule, fi, ok, "the handler around %s reports the stream failure as StreamError (it raises %s instead: the failing stream is blamed on the value)" % (e.kind, cls_), node=e.node, key="relabelled %s" % e.kind)
    return len(verdict) + len(relabel)


def check_wrappers(ctx, rule="C06.R9"):
    """The stream wrappers pass failures of the stream they wrap on: no handler around a call on the wrapped stream ends normally
    (a swallowed read error would turn into end-of-data and a silently truncated value)."""
    M = ctx.model
    n = 0
    for cname in ("RestreamedBytesIO", "BytesIOWithOffsets"):
        ci = M.classes.get(cname)
        if ci is None:
            raise AnalysisError("anchor vanished: class %s" % cname)
        for mname in sorted(ci.methods):
            fi = M.method(cname, mname)
            bad = []
            for t in ast.walk(fi.node):
                if not isinstance(t, ast.Try):
                    continue
                touches = any(isinstance(c, ast.Call) and isinstance(c.func, ast.Attribute) and (ast.unparse(c.func.value) in ("self.substream", "super()"))
                              for st in t.body for c in ast.walk(st))
                if not touches:
                    continue
                for h in t.handlers:
                    if not (h.body and isinstance(h.body[-1], ast.Raise)):
                        bad.append(h)
            n += 1
            ctx.ob(rule, fi, not bad, "%s.%s lets every failure of the wrapped stream propagate (no handler around it ends normally)" % (cname, mname), key="propagates", node=bad[0] if bad else fi.node)
    return n


def run(ctx):
    M = ctx.model
    S = summariser(ctx)
    # ---------------------------------------------------------------- R1
    n1 = 0
    for fi in M.all_functions():
        if fi.relpath.endswith("debug.py"):
            continue
        cls = fi.cls.name if fi.cls else None
        top = fi.qual.split(".")[0]
        if top in WRAPPER_CLASSES and (fi.node.args.args[:1] and fi.node.args.args[0].arg == "self"):
            continue        # instance methods of a wrapper act on the wrapper itself; its static helpers receive the outer stream and are checked
        if fi.qual in R1_EXCLUDED:
            continue
        n1 += check_rawio(ctx, fi, cls)
    ctx.extra["raw_io_sites"] = n1
    ctx.floor("C06.R1", 5)
    helper_checks(ctx)

    # ---------------------------------------------------------------- R3
    esc = escaping(ctx, S)
    ctx.extra["escaping_foreign_exceptions"] = {k: sorted(v) for k, v in esc.items() if v}
    n3 = 0
    for fi, cls in protocol_functions(M, PARSE_SIDE):
        n3 += check_foreign(ctx, fi, cls, esc)
        n3 += check_tables(ctx, fi, cls)
    # lookups in the package's own byte tables raise KeyError / IndexError for a byte the table leaves out: the tables over byte values cover
    # 0..255 (shared with C20.R4 / C10.R5) and the single-byte rotation table covers amounts 1..7 (shared with C15.R6)
    from . import C20 as _C20, C15 as _C15
    _C20.byte_tables(ctx, "C06.R3", ("lib/binary.py", "lib/hex.py"))
    from ..core import Ctx as _Ctx15
    sub15 = _Ctx15("C15", ctx.tier, ctx.root, model=ctx.model)
    sub15._summ = summariser(ctx)
    _C15.run(sub15)
    for e in sub15.errors:
        ctx.error("shared C15 rules: " + e)
    for o in sub15.obligations:
        if o.rule == "C15.R6" and o.key == "table direction":
            ctx.ob("C06.R3", o.where, o.ok, o.what, key=o.key, loc=o.loc, detail=o.detail)
    ctx.floor("C06.R3", 14)
    # ---------------------------------------------------------------- R6
    for fi, cls in protocol_functions(M, PARSE_SIDE):
        check_seeks(ctx, fi, cls)
    ctx.floor("C06.R6", 10)
    # ---------------------------------------------------------------- R7
    for fi, cls in protocol_functions(M, PARSE_SIDE):
        check_divisors(ctx, fi, cls)
    ctx.floor("C06.R7", 4)
    # ---------------------------------------------------------------- R8 termination: loop progress
    for fi, cls in protocol_functions(M, PARSE_SIDE):
        check_progress(ctx, fi, cls)
    for name in ("stream_read", "stream_read_entire", "stream_seek", "stream_tell", "stream_size", "stream_iseof", "bytes2bits", "bits2bytes", "bits2integer", "bytes2integer",
                 "swapbytes", "swapbytesinbits", "swapbitsinbytes"):
        f = M.functions.get(name)
        if f is not None:
            check_progress(ctx, f, None)
    ctx.floor("C06.R8", 20)
    # ---------------------------------------------------------------- R9 / R10
    from . import C15
    C15.rot_length_guard(ctx, "C06.R3")         # group indexing of parsed data is dominated by the multiple-of-group guard (else IndexError escapes)
    check_wrappers(ctx)
    # the wrapper a bit-level / transformed region parses through is created for this call over the incoming stream and closed afterwards:
    # units left in a wrapper that outlives the call would let a later, truncated input produce a value (shared with C10.R6)
    from . import C10 as _C10
    _C10.machinery(ctx, "C06.R9")
    ctx.floor("C06.R9", 14)
    n11 = sum(check_stream_swallow(ctx, fi, cls) for fi, cls in protocol_functions(M, PARSE_SIDE + ("_build",)))
    ctl11 = control_model(
        "class StreamError(Exception):\n    pass\n"
        "def stream_read(stream, length, path):\n    return stream.read(length)\n"
        "class Construct(object):\n    pass\n"
        "class T(Construct):\n"
        "    def _parse(self, stream, context, path):\n"
        "        try:\n            stream_read(stream, 1, path)\n"
        "        except StreamError:\n            return None\n"
        "        raise ValueError('x')\n")
    from ..core import Ctx as _Ctx11
    c11 = _Ctx11("C06", ctx.tier, ctl11.root, model=ctl11)
    check_stream_swallow(c11, ctl11.method("T", "_parse"), "T")
    ctx.control("C06.R11", any(not o.ok for o in c11.obligations))
    check_formats(ctx)
    ctx.floor("C06.R10", 20)
    # a terminator narrower than the code unit accepts strict prefixes of canonical encodings (shared with C03.R2)
    from . import C03
    C03.unit_table_check(ctx, "C06.R2")
    C03.string_macro_expansions(ctx, "C06.R2")      # CString keeps require=True: a string cut before its terminator is a StreamError, not a value
    # ---------------------------------------------------------------- R4 (shared with C13.R5)
    C13.check_swallow(ctx, M, S, rule="C06.R4")
    ctx.floor("C06.R4", 4)
    # ---------------------------------------------------------------- R5
    n5 = 0
    for fi, cls in protocol_functions(M, ("_parse", "_build", "_sizeof", "_actualsize", "_decode", "_encode")):
        if any(isinstance(x, ast.Try) for x in ast.walk(fi.node)):
            n5 += check_undef(ctx, fi, cls)
    attributes_defined(ctx, "C06.R5")
    no_undefined_names(ctx, "C06.R5")
    free_names_defined(ctx, "C06.R5")
    ctx.floor("C06.R5", 10 + 300)

    # ---------------------------------------------------------------- positive controls
    from ..core import Ctx
    ctl = control_model(
        "import struct\n"
        "class ConstructError(Exception):\n    pass\nclass StreamError(ConstructError):\n    pass\n"
        "def helper(x):\n    if not x: raise ValueError('no')\n    return x\n"
        "class Construct(object):\n    pass\n"
        "class X(Construct):\n"
        "    def _parse(self, stream, context, path):\n"
        "        d = stream.read(2)\n"
        "        v = helper(d)\n"
        "        try:\n            w = struct.unpack('>H', d)\n        except KeyError:\n            w = later\n"
        "        later = 1\n"
        "        return v\n")
    c2 = Ctx("C06", ctx.tier, ctl.root, model=ctl)
    fi = ctl.method("X", "_parse")
    check_rawio(c2, fi, "X")
    esc2 = escaping(c2, summariser(c2))
    check_foreign(c2, fi, "X", esc2)
    check_undef(c2, fi, "X")
    bad = [o.rule for o in c2.obligations if not o.ok]
    ctx.control("C06.R1", "C06.R1" in bad)
    ctx.control("C06.R3", bad.count("C06.R3") == 2, str(bad))
    ctx.control("C06.R5", "C06.R5" in bad)
    ctl8 = control_model(
        "import itertools\n"
        "def stream_read(stream, length, path):\n    return stream.read(length)\n"
        "class Construct(object):\n    pass\n"
        "class Y(Construct):\n"
        "    def _parse(self, stream, context, path):\n"
        "        out = []\n"
        "        for i in itertools.count():\n"
        "            out.append(self.subcon._parsereport(stream, context, path))\n"
        "        return out\n"
        "class Z(Construct):\n"
        "    def _parse(self, stream, context, path):\n"
        "        while True:\n"
        "            b = stream_read(stream, 1, path)\n"
        "            if b == b'\\x00':\n                break\n"
        "        return b\n")
    c8 = Ctx("C06", ctx.tier, ctl8.root, model=ctl8)
    check_progress(c8, ctl8.method("Y", "_parse"), "Y")
    check_progress(c8, ctl8.method("Z", "_parse"), "Z")
    ctx.control("C06.R8", [o.ok for o in c8.obligations] == [False, True])
