"""C19 -- KSY export describes the same byte layout the construct parses."""
import ast

from .. import norm as N
from ..tables import KAITAI_ATTR_KEYS, KAITAI_REPEAT
from .common import *

META = {
    "level": "other",
    "explanation": "Wiring check of the KSY generator (export_ksy itself cannot run here: ruamel.yaml is absent) -- each rule is necessary for the schema to describe the layout the construct parses: (R1) every key of every dict the _emitseq/_emitfulltype/_emitprimitivetype definitions (class level and macro closures) return is, after hyphenation, in the Kaitai attribute vocabulary or the private _construct_render; (R2) the layout parameter that _parse consumes in a role flows to the key carrying that role: Bytes/Padded/FixedSized/Padding/PaddedString length -> size, Array count -> repeat-expr with repeat: expr, GreedyRange repeat: eos, RepeatUntil repeat: until, GreedyBytes/GreedyString size-eos, NullTerminated term/include/consume/require -> terminator/include/consume/eos-error (single-byte terminators only, longer ones refuse), NullStripped pad -> pad-right, Const contents = the built constant, Enum mapping -> enums, Pointer offset -> pos, strings encoding; integer type strings {s|u}{length}{le|be} with signedness and byte-order polarity matching what _parse does -- for FormatField: signed iff lower-case code, little-endian iff '<' or ('=' and host is little-endian); for BytesInteger: self.signed / self.swapped; BitsInteger b{length}; (R3) Struct/Sequence/FocusedSeq emit members by iterating self.subcons forwards, Renamed sets id = self.name, and intra-list references (size: lengthfield, repeat-expr: countfield) name an id emitted earlier in the same list; (R4) the three _compile* fallbacks catch exactly NotImplementedError, hand `bitwise` on unchanged, recurse with recursion+1 and stop at 3. R2 also: ksymapping and decmapping are taken after the last entry went into the mapping; (R5) KsyGen.allocateId returns a counter it has just advanced, and every entry stored in the shared tables ksy.types/enums/instances is keyed by a name built from a fresh allocateId() and that same name is returned. (R6) expressions are exported as text: the operator spelling table and the parse-faithful rendering (shared with C11.R3/R4).",
    "undecided": "Interpreting the schema on encodings (extent and value of every field) needs a Kaitai interpreter; not decided.",
    "trusted_base": ["python ast (3.12)", "sa.summ summariser", "sa/tables.py Kaitai attribute vocabulary (KSY reference)", "struct byte-order characters (library reference)"],
    "assumptions": [],
}

KSY_METHODS = ("_emitseq", "_emitfulltype", "_emitprimitivetype")


def hyphen(k):
    return k.replace("_", "-").rstrip("-")


def ksy_functions(M):
    out = []
    for ci in M.construct_classes():
        for n in KSY_METHODS:
            if n in ci.methods:
                out.append((FuncInfo(ci.methods[n], ci.relpath, cls=ci, qual="%s.%s" % (ci.name, n)), ci.name))
    for name, mf in M.macros().items():
        for cl in M.closures(mf):
            if cl.name in KSY_METHODS:
                out.append((cl, None))
    return out


def dict_keys(fnode):
    """keyword names of dict(...) / .update(...) calls and keys of dict literals in a function."""
    out = []
    for n in ast.walk(fnode):
        if isinstance(n, ast.Call) and ((isinstance(n.func, ast.Name) and n.func.id == "dict") or (isinstance(n.func, ast.Attribute) and n.func.attr == "update")):
            for k in n.keywords:
                if k.arg is not None:
                    out.append((k.arg, n))
        if isinstance(n, ast.Dict):
            for k in n.keys:
                if isinstance(k, ast.Constant) and isinstance(k.value, str):
                    out.append((k.value, n))
    return out


def retdict(paths):
    """keyword dicts of returned dict(...) terms (list elements too)."""
    out = []
    for p in paths:
        if not p.returns:
            continue
        r = p.retval
        items = r[1] if r[0] == "list" else (r,)
        for it in items:
            if it[0] == "call" and it[1] == ("free", "dict"):
                out.append((p, dict(it[3])))
    return out


def run(ctx):
    M = ctx.model
    funs = ksy_functions(M)
    ctx.extra["ksy_emitters"] = len(funs)
    # ---------------------------------------------------------------- R1
    nk = 0
    for fi, cls in funs:
        for k, node in dict_keys(fi.node):
            nk += 1
            h = hyphen(k)
            ctx.ob("C19.R1", fi, h in KAITAI_ATTR_KEYS or k == "_construct_render", "key %r (-> %r) is not a Kaitai attribute" % (k, h), key="key %s" % k, node=node)
    for fi, cls in funs:
        for p in paths_of(ctx, fi, cls):
            for pp, d in retdict([p]):
                rep = d.get("repeat")
                if rep is not None:
                    ctx.ob("C19.R1", fi, N.is_const(rep) and rep[2] in KAITAI_REPEAT, "repeat: %s is a Kaitai repeat kind" % N.show(rep), key="repeat kind")
    # textual rewrites of a rendered expression: `this.` may be stripped anywhere (Kaitai names fields without it); `obj_` -> `_` is the
    # element placeholder of a repeat-until condition and is applied to RepeatUntil's predicate only -- applied to a size or an if-condition it
    # rewrites every field whose *name* contains `obj_` (obj_size -> _size) and the schema refers to a field that does not exist
    nrw = 0
    for fi, cls in funs:
        for p in paths_of(ctx, fi, cls):
            terms = [v for e in p.events for v in e.a.values() if isinstance(v, tuple)] + ([p.retval] if p.returns and p.retval is not None else [])
            seen_rw = set()
            for v in terms:
                for x in N.walk(v):
                    if x[0] == "call" and x[1][0] == "attr" and x[1][2] == "replace" and len(x[2]) == 2 and all(N.is_const(a_) for a_ in x[2]) and x not in seen_rw:
                        seen_rw.add(x)
                        a_, b_ = x[2][0][2], x[2][1][2]
                        src = [y for y in N.walk(x[1][1]) if y[0] == "call" and y[1] == ("free", "repr")]
                        if not src:
                            continue
                        nrw += 1
                        what = src[0][2][0] if src[0][2] else None
                        is_pred = what is not None and any(y == N.selfattr("predicate") for y in N.walk(what))
                        ok_ = (a_, b_) == ("this.", "") or ((a_, b_) == ("obj_", "_") and is_pred)
                        ctx.ob("C19.R6", fi, ok_, "the rendered expression %s is rewritten %r -> %r: only `this.` may be dropped, and `obj_` -> `_` only in a repeat-until predicate (anything else renames fields the expression refers to)" % (
                            N.show(what)[:60] if what else "?", a_, b_), key="rewrite %s %r" % (N.show(what)[:60] if what else "?", a_))
    if nrw < 5:
        ctx.error("C19.R6: only %d textual rewrites of rendered expressions found in the KSY emitters, floor 5" % nrw)
    fi = M.function("hyphenatedict")
    ps = paths_of(ctx, fi)
    r = N.canon_lids(ps[0].retval) if len(ps) == 1 else None
    k = ("key", ("param", "d"), 0)
    want = ("call", ("attr", ("call", ("attr", k, "replace"), (N.const("_"), N.const("-")), ()), "rstrip"), (N.const("-"),), ())
    ctx.ob("C19.R1", fi, r is not None and r[0] == "comp" and r[2] == ("kv", want, ("val", ("param", "d"), 0)), "hyphenatedict maps key_ -> key and a_b -> a-b, values unchanged", key="hyphenate")
    ctx.floor("C19.R1", 40)

    # ---------------------------------------------------------------- R2
    def one(cls, meth, macro=None):
        if macro:
            mf = M.function(macro)
            cl = [c for c in M.closures(mf) if c.name == meth]
            if not cl:
                raise AnalysisError("anchor vanished: %s.%s" % (macro, meth))
            return cl[0], paths_of(ctx, cl[0], None)
        return own_method_paths(ctx, cls, meth)

    def expect(where, meth, want, macro=None, label=None):
        fi, paths = one(where, meth, macro)
        ds = retdict(paths)
        if not ds:
            helper = [p.retval[1][1] for p in paths if p.returns and p.retval is not None and p.retval[0] == "call" and p.retval[1][0] == "free" and p.retval[1][1] in M.functions]
            if helper:
                # the schema fragment is assembled by a package-level helper the rule cannot see through: undecided, not a violation
                ctx.error("C19.R2 undecided: %s.%s returns through the helper %s(); the role rule needs the dict it builds" % (macro or where, meth, helper[0]))
                return fi, paths
        ok = bool(ds)
        detail = []
        for p, d in ds:
            for k, v in want.items():
                got = d.get(k)
                good = v(got) if callable(v) else got == v
                ok = ok and good
                if not good:
                    detail.append("%s=%s" % (k, N.show(got) if got is not None else "missing"))
        ctx.ob("C19.R2", fi, ok, "%s.%s carries %s%s" % (macro or where, meth, label or sorted(want), (" (found " + ", ".join(detail) + ")") if detail else ""), key="%s.%s roles" % (macro or where, meth))
        return fi, paths

    prim = lambda t: ("call", ("attr", t, "_compileprimitivetype"), (("param", "ksy"), ("param", "bitwise")), ())
    full = lambda t: ("call", ("attr", t, "_compilefulltype"), (("param", "ksy"), ("param", "bitwise")), ())
    subcon = N.selfattr("subcon")
    expect("Bytes", "_emitfulltype", {"size": N.selfattr("length")})
    expect("GreedyBytes", "_emitfulltype", {"size_eos": N.TRUE})
    expect("Array", "_emitfulltype", {"repeat": N.const("expr"), "repeat_expr": N.selfattr("count"), "type": prim(subcon)})
    expect("GreedyRange", "_emitfulltype", {"repeat": N.const("eos"), "type": prim(subcon)})
    expect("RepeatUntil", "_emitfulltype", {"repeat": N.const("until"), "type": prim(subcon), "repeat_until": lambda v: v is not None and N.contains(v, N.selfattr("predicate"))})
    expect("Padded", "_emitfulltype", {"size": N.selfattr("length"), "type": prim(subcon)})
    expect("FixedSized", "_emitfulltype", {"size": lambda v: v is not None and N.contains(v, N.selfattr("length")), "**": full(subcon)})
    expect("NullStripped", "_emitfulltype", {"pad_right": ("call", ("free", "byte2int"), (N.selfattr("pad"),), ()), "**": full(subcon)})
    fi, paths = expect("NullTerminated", "_emitfulltype", {"terminator": ("call", ("free", "byte2int"), (N.selfattr("term"),), ()), "include": N.selfattr("include"),
                                                           "consume": N.selfattr("consume"), "eos_error": N.selfattr("require"), "**": full(subcon)})
    for cls, attr in (("NullTerminated", "term"), ("NullStripped", "pad")):
        fi, paths = own_method_paths(ctx, cls, "_emitfulltype")
        ln = ("call", ("free", "len"), (N.selfattr(attr),), ())
        rets = [p for p in paths if p.returns]
        ok = bool(rets) and all(N.mk_cmp("<=", ln, N.const(1)) in p.guards() or N.mk_cmp("==", ln, N.const(1)) in p.guards() for p in rets) and \
            any(p.outcome[0] == "raise" and p.outcome[1].get("cls") == "NotImplementedError" and N.mk_cmp(">", ln, N.const(1)) in p.guards() for p in paths)
        ctx.ob("C19.R2", fi, ok, "%s exports its first byte as the %s only when the %s is a single byte, and refuses longer ones" % (cls, attr, attr), key="%s single byte" % cls)
    # every run of a schema emitter ends in an explicit return or a refusal: falling off the end hands `None` to the schema (type: null)
    for f, fcls in funs:
        ps = paths_of(ctx, f, fcls)
        falls = [p for p in ps if p.outcome[0] == "fall" or (p.returns and (p.retval is None or p.retval == N.NONE))]
        ctx.ob("C19.R2", f, not falls, "%s returns a schema fragment or refuses (NotImplementedError) on every path; %d path(s) end without a value, e.g. under %s" % (
            f.qual, len(falls), " and ".join(N.show(c) for c in falls[0].guards()[-2:]) if falls else "-"), key="no implicit None", node=f.node)
    # every constructor parameter that _parse consults is consulted by the class's schema emitters too (or is listed with the reason why it
    # cannot change the layout): a flag that moves bytes between fields and that the schema ignores describes a different layout
    LAYOUT_FROZEN = {
        ("Array", "discard"): "changes only the returned list", ("GreedyRange", "discard"): "changes only the returned list", ("RepeatUntil", "discard"): "changes only the returned list",
        ("FocusedSeq", "parsebuildfrom"): "selects which member's value is returned; all members are parsed and listed",
        ("FocusedSeq", "_subcons"): "context bookkeeping", ("Struct", "_subcons"): "context bookkeeping", ("Sequence", "_subcons"): "context bookkeeping",
        ("Pointer", "stream"): "an alternative stream is a run-time callable; the schema describes the default (same stream) case",
    }
    def _self_attrs(node):
        return {n.attr for n in ast.walk(node) if isinstance(n, ast.Attribute) and isinstance(n.value, ast.Name) and n.value.id == "self"}
    by_cls = {}
    for f, fcls in funs:
        if fcls and fcls != "Construct":
            by_cls.setdefault(fcls, set()).update(_self_attrs(f.node))
    npar = 0
    for cname, kattrs in sorted(by_cls.items()):
        ci = M.classes[cname]
        if "_parse" not in ci.methods:
            continue
        fpi = FuncInfo(ci.methods["_parse"], ci.relpath, cls=ci, qual="%s._parse" % cname)
        for a in sorted(_self_attrs(ci.methods["_parse"]) - kattrs):
            if M.resolve(cname, a) is not None:
                continue          # a helper method of the class, not a constructor parameter
            npar += 1
            fro = LAYOUT_FROZEN.get((cname, a))
            ctx.ob("C19.R2", fpi, bool(fro), "%s._parse consults self.%s but none of the class's schema emitters does: the exported layout cannot depend on it" % (cname, a), key="layout parameter %s" % a, detail=fro)
    if npar < 6:
        ctx.error("C19.R2: %d parse-only parameters examined, floor 6" % npar)
    # Kaitai's strz stops at a single zero *byte*: a construct whose terminator / pad is a whole code unit of the encoding (2 or 4 zero bytes
    # for UTF-16/32) may be described as strz only when that unit is one byte -- the discipline NullTerminated follows above
    nz = 0
    for f, fcls in funs:
        for p, d in retdict(paths_of(ctx, f, fcls)):
            if d.get("type") != N.const("strz"):
                continue
            nz += 1
            single = any(c[0] == "cmp" and c[1] in ("<=", "==", "<") and c[2][0] == "call" and c[2][1] == ("free", "len") and N.is_const(c[3]) and c[3][2] in (1, 2) for c in p.guards())
            ctx.ob("C19.R2", f, single, "%s describes the string as strz (terminated by one zero byte) without restricting the encoding to single-byte code units; with UTF-16/32 the construct ends the string at a 2/4-byte zero unit" % f.qual,
                   key="strz single-byte unit", node=f.node)
    if nz < 2:
        ctx.error("C19.R2: %d strz exports found, floor 2 (CString, PaddedString)" % nz)
    fi, paths = own_method_paths(ctx, "Const", "_emitfulltype")
    ds = retdict(paths)
    ok = bool(ds) and all(d.get("contents") == ("call", ("free", "list"), (("subres", "build", subcon, 0),), ()) for p, d in ds) and \
        all(e["obj"] == N.selfattr("value") for p in paths for e in p.events if e.kind == "SUB" and e["m"] == "build")
    ctx.ob("C19.R2", fi, ok, "Const exports contents = the bytes the wrapped construct builds from the constant", key="Const contents")
    fi, paths = own_method_paths(ctx, "Enum", "_emitprimitivetype")
    st = [e for p in paths for e in p.events if e.kind == "STORE" and e["base"] == ("attr", ("param", "ksy"), "enums")]
    ok = bool(st) and all(e["value"] == N.selfattr("ksymapping") and all(p.retval == e["key"] for p in paths if p.returns) for e in st)
    ctx.ob("C19.R2", fi, ok, "Enum registers its value->name mapping in ksy.enums under the name it returns", key="Enum enums")
    fi, paths = own_method_paths(ctx, "Enum", "__init__")
    w = [N.canon_lids(e["value"]) for p in paths for e in p.events if e.kind == "SELFWRITE" and e["attr"] == "ksymapping"]
    src = ("param", "**mapping")
    ok = bool(w) and all(v[0] == "comp" and v[2] == ("kv", ("val", src, 0), ("key", src, 0)) for v in w)
    ctx.ob("C19.R2", fi, ok, "ksymapping is {value: name} of the same mapping that drives parsing", key="Enum ksymapping")
    late = []
    for p in paths:
        firstw = min([i for i, e in enumerate(p.events) if e.kind == "SELFWRITE" and e["attr"] in ("ksymapping", "decmapping")], default=None)
        late += [e for i, e in enumerate(p.events) if firstw is not None and i > firstw and e.kind in ("STORE", "MUT") and e["base"] == src]
    ctx.ob("C19.R2", fi, not late, "ksymapping and decmapping are both taken after the last entry (merged enum classes included) went into the mapping", key="Enum ksymapping complete")
    fi, paths = own_method_paths(ctx, "Pointer", "_emitprimitivetype")
    st = [e for p in paths for e in p.events if e.kind == "STORE" and e["base"] == ("attr", ("param", "ksy"), "instances")]
    off = N.selfattr("offset")
    ok = bool(st) and all(dict(e["value"][3]).get("pos") in (off, ("call", ("attr", off, "__getfield__"), (), ()), N.mk_ite(("call", ("free", "callable"), (off,), ()), ("call", ("attr", off, "__getfield__"), (), ()), off)) for e in st)
    ctx.ob("C19.R2", fi, ok, "Pointer exports an instance whose pos is the pointer's offset", key="Pointer pos")
    fv = lambda name: (lambda v: v in (("param", name), ("free", name)))     # macro parameter captured by the closure
    enc = fv("encoding")
    expect(None, "_emitfulltype", {"size": fv("length"), "type": N.const("strz"), "encoding": enc}, macro="PaddedString")
    expect(None, "_emitfulltype", {"type": N.const("strz"), "encoding": enc}, macro="CString")
    expect(None, "_emitfulltype", {"size_eos": N.TRUE, "type": N.const("str"), "encoding": enc}, macro="GreedyString")
    expect(None, "_emitfulltype", {"size": fv("length")}, macro="Padding")
    # integer type strings
    fi, paths = own_method_paths(ctx, "BytesInteger", "_emitprimitivetype")
    want = ("fmt", N.const("%s%s%s"), ("tuple", (N.mk_ite(N.selfattr("signed"), N.const("s"), N.const("u")), N.selfattr("length"), N.mk_ite(N.selfattr("swapped"), N.const("le"), N.const("be")))))
    rets = [p for p in paths if p.returns and N.mk_not(("param", "bitwise")) in p.guards()]
    def matches(p, want_):
        sp = specialise(want_, p)
        got_ = format_parts(p.retval)
        return got_ == format_parts(want_) or (got_ == format_parts(sp) and not any(x[0] == "ite" for x in N.walk(sp)))
    def same_text(a_, b_):
        return format_parts(a_) == format_parts(b_)
    ctx.ob("C19.R2", fi, len(rets) in (1, 4) and all(matches(p, want) for p in rets), "BytesInteger exports {s|u}{length}{le|be} with s iff signed and le iff swapped (what _parse does)", key="BytesInteger type")
    bits = [p for p in paths if p.returns and ("param", "bitwise") in p.guards()]
    ctx.ob("C19.R2", fi, len(bits) == 1 and same_text(bits[0].retval, ("fmt", N.const("b%s"), ("tuple", (N.mk_mul(N.const(8), N.selfattr("length")),)))), "in a bitwise context BytesInteger exports b{8*length}", key="BytesInteger bit type")
    fi, paths = own_method_paths(ctx, "FormatField", "_emitprimitivetype")
    order, code = ("unpack", N.selfattr("fmtstr"), 0), ("unpack", N.selfattr("fmtstr"), 1)
    little = N.mk_bool("or", [N.mk_cmp("==", order, N.const("<")), N.mk_bool("and", [N.mk_cmp("==", order, N.const("=")), N.mk_cmp("==", ("attr", ("free", "sys"), "byteorder"), N.const("little"))])])
    signed = ("call", ("attr", code, "islower"), (), ())
    want_i = ("fmt", N.const("%s%s%s"), ("tuple", (N.mk_ite(signed, N.const("s"), N.const("u")), N.selfattr("length"), N.mk_ite(little, N.const("le"), N.const("be")))))
    want_f = ("fmt", N.const("f%s%s"), ("tuple", (N.selfattr("length"), N.mk_ite(little, N.const("le"), N.const("be")))))
    ints = [p for p in paths if p.returns and N.mk_not(("param", "bitwise")) in p.guards() and any(c[0] == "cmp" and c[1] == "in" and c[3] == N.const("bhlqBHLQ") for c in p.guards())]
    flts = [p for p in paths if p.returns and any(c[0] == "cmp" and c[1] == "in" and c[3] == N.const("fd") for c in p.guards())]
    ctx.ob("C19.R2", fi, len(ints) >= 1 and all(matches(p, want_i) for p in ints), "FormatField integers export {s|u}{length}{le|be}: signed iff lower-case code, little-endian iff '<' or native on a little-endian host (struct semantics)", key="FormatField int type")
    fbits = [p for p in paths if p.returns and ("param", "bitwise") in p.guards()]
    ctx.ob("C19.R2", fi, len(fbits) >= 1 and all(same_text(p.retval, ("fmt", N.const("b%s"), ("tuple", (N.mk_mul(N.const(8), N.selfattr("length")),)))) for p in fbits), "in a bitwise context FormatField integers export b{8*length}", key="FormatField bit type")
    ctx.ob("C19.R2", fi, len(flts) >= 1 and all(matches(p, want_f) for p in flts), "FormatField floats export f{length}{le|be} with the same byte-order rule", key="FormatField float type")
    fi, paths = own_method_paths(ctx, "BitsInteger", "_emitprimitivetype")
    ok = all(same_text(p.retval, ("fmt", N.const("b%s"), ("tuple", (N.selfattr("length"),)))) for p in paths if p.returns) and any(p.returns for p in paths)
    ctx.ob("C19.R2", fi, ok, "BitsInteger exports b{length}", key="BitsInteger type")
    # Bitwise switches its contents to bit context, Bytewise back to byte context: the three export closures pass bitwise=True / False on
    for macro, flag in (("Bitwise", N.TRUE), ("Bytewise", N.FALSE)):
        for meth, sub_m in (("_emitseq", "_compileseq"), ("_emitprimitivetype", "_compileprimitivetype"), ("_emitfulltype", "_compilefulltype")):
            fi, paths = one(None, meth, macro)
            want = ("call", ("attr", ("free", "subcon"), sub_m), (("param", "ksy"),), (("bitwise", flag),))
            alt = ("call", ("attr", ("param", "subcon"), sub_m), (("param", "ksy"),), (("bitwise", flag),))
            ok = bool(paths) and all(p.retval in (want, alt) for p in paths if p.returns)
            ctx.ob("C19.R2", fi, ok, "%s.%s exports the wrapped construct in %s context (bitwise=%s)" % (macro, meth, "bit" if flag == N.TRUE else "byte", N.show(flag)), key="%s %s context" % (macro, meth))
    # bit-sized types (b<n>) are emitted for byte-level constructs only in a bitwise context
    nb = 0
    for f, fcls in funs:
        owner = f.qual.split(".")[0]
        if owner == "BitsInteger":
            continue
        ps = paths_of(ctx, f, fcls)
        bits = [p for p in ps if p.returns and p.retval is not None and p.retval[0] == "fmt" and N.is_const(p.retval[1]) and str(p.retval[1][2]).startswith("b%")]
        if not bits:
            continue
        nb += 1
        bwp = [("param", "bitwise"), ("free", "bitwise")]
        ok = all(any(g in bwp for g in p.guards()) for p in bits)
        ctx.ob("C19.R2", f, ok, "%s exports a bit-sized type b<n> only when it sits in a bitwise context (in byte context the same number would be read as bits, not bytes)" % f.qual, key="%s bit type guard" % f.qual)
    # FlagsEnum: one b1 entry per bit of the underlying field, named after the flag with mask 1<<i, listed from the most significant bit down
    # (Kaitai reads consecutive b1 fields most-significant-bit first; listing bit 0 first names the top bit after the flag with mask 1)
    fi, paths = own_method_paths(ctx, "FlagsEnum", "_emitseq")
    size = None
    ok, seen = True, 0
    for p in paths:
        comps = [x for v in ([p.retval] if p.returns and p.retval is not None else []) for x in N.walk(v) if x[0] == "comp" and len(x[3]) == 1 and not x[3][0][1]]
        entries = [(e["args"][0], bool(e.loops)) for e in p.of("MUT") if e["method"] == "append" and e["args"]] + [(c[2], True) for c in comps]
        for it in [lp["iter"] for lp in p.of("LOOP")] + [c[3][0][0] for c in comps]:
            rng = it[2][0] if it[0] == "call" and it[1] == ("free", "reversed") and len(it[2]) == 1 else None
            desc = rng is not None and rng[0] == "call" and rng[1] == ("free", "range") and len(rng[2]) == 1
            if not desc and it[0] == "call" and it[1] == ("free", "range") and len(it[2]) == 3:
                a, b, c = it[2]
                desc = b == N.const(-1) and c == N.const(-1) and N.mk_add(a, N.const(1)) is not None
                rng = ("call", ("free", "range"), (N.mk_add(a, N.const(1)),), ()) if desc else None
            ok = ok and desc
            if desc:
                n = rng[2][0]
                ok = ok and n[0] == "lin" and len(n[1]) == 1 and n[1][0][1] == 8 and n[2] == 0 and n[1][0][0][:3] == ("subres", "sizeof", N.selfattr("subcon"))
        for entry, in_loop in entries:
            if entry[0] != "call" or entry[1] != ("free", "dict"):
                continue
            seen += 1
            d = dict(entry[3])
            ident = d.get("id")
            good = d.get("type") == N.const("b1") and ident is not None and ident[0] == "call" and ident[1] == ("attr", N.selfattr("reverseflags"), "get") and len(ident[2]) == 2
            if good:
                mask = ident[2][0]
                good = mask[0] == "bin" and mask[1] == "<<" and mask[2] == N.const(1) and mask[3][0] in ("idx", "elem") and in_loop
            ok = ok and good
    ctx.ob("C19.R2", fi, ok and seen >= 1, "FlagsEnum._emitseq lists one b1 per bit of the field, each named after the flag with mask 1<<i, from the most significant bit down", key="FlagsEnum bit order")
    ctx.floor("C19.R2", 23 + 6 + 55 + 6)

    # ---------------------------------------------------------------- R5: shared tables are keyed by fresh names
    fi, paths = own_method_paths(ctx, "KsyGen", "allocateId")
    nid = N.mk_add(N.selfattr("nextid"), N.const(1))
    ok = len(paths) == 1 and paths[0].retval == nid and any(e.kind == "SELFWRITE" and e["attr"] == "nextid" and e["value"] == nid for e in paths[0].events)
    ctx.ob("C19.R5", fi, ok, "KsyGen.allocateId returns a counter it has just advanced (no two calls return the same id)", key="allocateId")
    alloc = ("call", ("attr", ("param", "ksy"), "allocateId"), (), ())
    nst = 0
    for f in M.all_functions():
        in_gen = f.cls is not None and f.cls.name == "KsyGen" and f.name != "__init__"
        if "ksy" not in [a.arg for a in f.node.args.args] and not in_gen:
            continue
        ps = paths_of(ctx, f, f.cls.name if f.cls else None)
        holder = SELF if in_gen else ("param", "ksy")
        alloc_here = ("selfcall", "allocateId", (), ()) if in_gen else alloc
        for st in uniq_events(ps, "STORE", "SELFWRITE"):
            b = st["base"]
            if not (isinstance(b, tuple) and b and b[0] == "attr" and b[1] == holder) or st["key"] is None:
                continue
            if in_gen:
                # a registering method of the generator itself: every call registers a new entry (returning an existing name for an
                # "equal" entry compares schema fragments that may hold expression objects, whose == is always truthy)
                rets_ = [p for p in ps if p.returns]
                ctx.ob("C19.R5", f, bool(rets_) and all(any(e.kind in ("STORE", "SELFWRITE") and e.node is st.node for e in p.events) for p in rets_),
                       "KsyGen.%s stores a new entry on every returning path (no reuse of an existing entry)" % f.name, key="KsyGen.%s always registers" % f.name)
            nst += 1
            k = st["key"]
            formatted = (k[0] == "fmt" and N.is_const(k[1])) or (k[0] == "fstr" and any(N.is_const(x) for x in k[1]))       # "enum_%s" % id  /  f"enum_{id}"
            via_method = False
            if not formatted and not in_gen and k[0] == "call" and k[1][0] == "attr" and k[1][1] == ("param", "ksy") and k[1][2] in M.cls("KsyGen").methods:
                # a naming method of the generator (ksy.allocateName("enum")): fresh if every path of that method returns a text formatted with a
                # counter value it has just taken
                gp = [p_ for p_ in own_method_paths(ctx, "KsyGen", k[1][2])[1] if p_.returns]
                def fresh_(r_):
                    fm_ = (r_[0] == "fmt" and N.is_const(r_[1])) or (r_[0] == "fstr" and any(N.is_const(x) for x in r_[1]))
                    return fm_ and (N.contains(r_, ("selfcall", "allocateId", (), ())) or N.contains(r_, nid))
                if gp and all(fresh_(p_.retval) for p_ in gp):
                    formatted = True
                    via_method = True
            ok = formatted and (via_method or N.contains(k, alloc) or N.contains(k, alloc_here) or (in_gen and N.contains(k, nid)))
            ctx.ob("C19.R5", f, ok, "entries of the shared table ksy.%s are stored under a name built from a fresh ksy.allocateId() (an entry keyed any other way can overwrite an earlier one; got %s)" % (b[2], N.show(k)), key="ksy.%s key" % b[2])
            rets = [p for p in ps if p.returns and any(e.kind in ("STORE", "SELFWRITE") and e.node is st.node for e in p.events)]
            ctx.ob("C19.R5", f, bool(rets) and all(p.retval == k for p in rets), "the name returned is the name the entry was stored under", key="ksy.%s returned name" % b[2])
    ctx.floor("C19.R5", 7)
    # ---------------------------------------------------------------- R6 conditions, sizes and counts given as expressions are exported as their text: operator spellings and rendering (shared with C11.R3/R4)
    from ..core import Ctx as _Ctx
    from . import C11
    sub = shared_run(ctx, C11, prop="C11")
    for e in sub.errors:
        ctx.error("shared C11 rules: " + e)
    for o in sub.obligations:
        if o.rule in ("C11.R1", "C11.R3", "C11.R4"):        # R1: the operators an exported condition was built with (IfThenElse exports ~condfunc) mean what they print
            ctx.ob("C19.R6", o.where, o.ok, o.what, key=o.key, loc=o.loc, detail=o.detail)
    ctx.floor("C19.R6", 26)

    # ---------------------------------------------------------------- R3
    subs = N.selfattr("subcons")
    for cls in ("Struct", "Sequence", "FocusedSeq"):
        fi, paths = own_method_paths(ctx, cls, "_emitseq")
        r = N.canon_lids(paths[0].retval) if len(paths) == 1 else None
        want = ("comp", "list", ("call", ("attr", ("elem", subs, 0), "_compilefulltype"), (("param", "ksy"), ("param", "bitwise")), ()), ((subs, ()),), (0,))
        ctx.ob("C19.R3", fi, r == want, "%s._emitseq lists every member's full type in declaration order" % cls, key="%s order" % cls)
    fi, paths = own_method_paths(ctx, "Renamed", "_emitfulltype")
    named = [p for p in paths if N.selfattr("name") in p.guards()]
    def id_entry(p):
        # the `id` the returned record holds: given to dict(...) at construction or put in by update(id=...), the later one wins
        got = None
        r = p.retval
        if r is not None and r[0] == "call" and r[1] == ("free", "dict") and not r[2]:
            got = dict(r[3]).get("id", got)
        for e in p.events:
            if e.kind == "MUT" and e["method"] == "update" and "id" in dict(e["kw"]):
                got = dict(e["kw"])["id"]
        return got
    ok = bool(named) and all(p.returns and id_entry(p) == N.selfattr("name") for p in named if p.returns) and any(p.returns for p in named)
    ctx.ob("C19.R3", fi, ok, "Renamed exports id = its own name", key="Renamed id")
    for where, meth, macro in (("Prefixed", "_emitseq", None), (None, "_emitseq", "PascalString"), (None, "_emitseq", "PrefixedArray")):
        fi, paths = one(where, meth, macro)
        ds = [d for p, d in retdict(paths)]
        ids = [d.get("id") for d in ds]
        # identifiers mentioned by a size / repeat-expr given as text (a plain name, or an expression such as "lengthfield - 1")
        import re as _re
        refs = []
        for i, d in enumerate(ds):
            for k in ("size", "repeat_expr"):
                v = d.get(k)
                if v is None:
                    continue
                for x in N.walk(v):
                    if N.is_const(x) and isinstance(x[2], str):
                        refs.extend((i, N.const(w)) for w in _re.findall(r"[A-Za-z_][A-Za-z_0-9]*", x[2].replace("%s", " ").replace("%d", " ")))
        ok = bool(refs) and all(r in ids[:i] for i, r in refs)
        opaque = [N.show(v)[:80] for d in ds for k, v in d.items() if k == "**" and v[0] == "call" and v[1][0] == "free" and v[1][1] in M.functions]
        if not refs and opaque:
            # the entry that carries the reference is assembled by a package-level helper the rule cannot see through: undecided, not a violation
            ctx.error("C19.R3 undecided: %s builds a schema entry through the helper %s; the reference rule needs the dict it returns" % (macro or where, opaque[0]))
            continue
        ctx.ob("C19.R3", fi, ok, "%s: intra-list references name an id emitted earlier in the same list (ids %s, refs %s)" % (macro or where, [N.show(i) for i in ids], [N.show(r) for _, r in refs]), key="%s refs" % (macro or where))
    # Prefixed: the payload's size is the length field, minus the length field's own size exactly when includelength is set (what _parse does)
    fi, paths = own_method_paths(ctx, "Prefixed", "_emitseq")
    inc = N.selfattr("includelength")
    ok, nsz = True, 0
    for p, d in retdict(paths):
        v = d.get("size")
        if v is None:
            continue
        nsz += 1
        def minus(t):
            return t is not None and t[0] == "fmt" and N.is_const(t[1]) and _re.fullmatch(r"lengthfield\s*-\s*%[sd]", str(t[1][2])) is not None \
                and any(x[:3] == ("subres", "sizeof", N.selfattr("lengthfield")) for x in N.walk(t))
        plain = lambda t: t == N.const("lengthfield")
        if v[0] == "ite":
            ok = ok and ((v[1] == inc and minus(v[2]) and plain(v[3])) or (v[1] == N.mk_not(inc) and plain(v[2]) and minus(v[3])))
        elif inc in p.guards():
            ok = ok and minus(v)
        elif N.mk_not(inc) in p.guards():
            ok = ok and plain(v)
        else:
            ok = False
    ctx.ob("C19.R3", fi, ok and nsz >= 1, "Prefixed exports size = lengthfield, minus sizeof(lengthfield) exactly when includelength is set", key="Prefixed includelength")
    # a size-delimited payload is one attribute: id / size / type only -- the payload's own repeat / if / contents live inside that type
    for where, macro in (("Prefixed", None), (None, "PascalString")):
        fi, paths = one(where, "_emitseq", macro)
        ds = [d for p, d in retdict(paths)]
        sized = [d for d in ds if "size" in d]
        ok = bool(sized) and all(set(d) <= {"id", "size", "type", "encoding"} for d in sized)
        ctx.ob("C19.R3", fi, ok, "%s: the sized payload entry carries only id/size/type (a repeat or condition spread onto it would escape the length prefix); keys %s" % (macro or where, [sorted(d) for d in sized]), key="%s sized entry" % (macro or where))
    ctx.floor("C19.R3", 10)

    # ---------------------------------------------------------------- R4
    ksy, bw, rec = ("param", "ksy"), ("param", "bitwise"), ("param", "recursion")
    rec1 = N.mk_add(rec, N.const(1))
    for meth, primary, fallback in (("_compileseq", "_emitseq", "_compilefulltype"), ("_compileprimitivetype", "_emitprimitivetype", "_compileseq"), ("_compilefulltype", "_emitfulltype", "_compileprimitivetype")):
        fi, paths = own_method_paths(ctx, "Construct", meth)
        trs = uniq_events(paths, "TRY")
        ctx.ob("C19.R4", fi, len(trs) == 1 and trs[0]["handlers"] == (("NotImplementedError",),), "%s catches exactly NotImplementedError" % meth, key="%s handler" % meth)
        prim_calls = [e for p in paths for e in p.events if e.kind == "SELFCALL" and e["method"] == primary]
        ctx.ob("C19.R4", fi, bool(prim_calls) and all(e["args"] == (ksy, bw) for e in prim_calls), "%s asks %s(ksy, bitwise) first" % (meth, primary), key="%s primary" % meth)
        fb = [e for p in paths for e in p.events if e.kind == "SELFCALL" and e["method"] == fallback]
        ctx.ob("C19.R4", fi, bool(fb) and all(e["args"] == (ksy, bw, rec1) and any(x.kind == "CATCH" for x in p.events) for p in paths for e in p.events if e.kind == "SELFCALL" and e["method"] == fallback),
               "%s falls back to %s(ksy, bitwise, recursion+1) only inside the handler, handing bitwise on unchanged" % (meth, fallback), key="%s fallback" % meth)
        stop = [p for p in paths if N.mk_cmp(">=", rec, N.const(3)) in p.guards()]
        ctx.ob("C19.R4", fi, bool(stop) and all(p.outcome[0] == "raise" for p in stop), "%s stops at recursion depth 3" % meth, key="%s stop" % meth)
    # the hyphenation the vocabulary rule (R1) presupposes is actually applied on both emitting fallbacks
    fi, paths = own_method_paths(ctx, "Construct", "_compileseq")
    prim = [p for p in paths if p.returns and not any(x.kind == "CATCH" for x in p.events)]
    ctx.ob("C19.R4", fi, bool(prim) and all(p.retval == ("call", ("free", "hyphenatelist"), (("selfcall", "_emitseq", (ksy, bw), ()),), ()) for p in prim),
           "_compileseq returns hyphenatelist(_emitseq(...)): python-style keys (repeat_expr, if_) become Kaitai keys", key="_compileseq hyphenates")
    fi, paths = own_method_paths(ctx, "Construct", "_compilefulltype")
    prim = [p for p in paths if p.returns and not any(x.kind == "CATCH" for x in p.events)]
    ctx.ob("C19.R4", fi, bool(prim) and all(p.retval == ("call", ("free", "hyphenatedict"), (("selfcall", "_emitfulltype", (ksy, bw), ()),), ()) for p in prim),
           "_compilefulltype returns hyphenatedict(_emitfulltype(...))", key="_compilefulltype hyphenates")
    fi = M.function("hyphenatedict")
    ps = paths_of(ctx, fi)
    d = ("param", "d")
    k = ("key", d, 0)
    want = ("comp", "dict", ("kv", ("call", ("attr", ("call", ("attr", k, "replace"), (N.const("_"), N.const("-")), ()), "rstrip"), (N.const("-"),), ()), ("val", d, 0)), ((("call", ("attr", d, "items"), (), ()), ()),), (0,))
    ctx.ob("C19.R4", fi, len(ps) == 1 and N.canon_lids(ps[0].retval) == want, "hyphenatedict maps every key k to k.replace('_','-').rstrip('-') and keeps the values", key="hyphenatedict")
    fi = M.function("hyphenatelist")
    ps = paths_of(ctx, fi)
    l = ("param", "l")
    want = ("comp", "list", ("call", ("free", "hyphenatedict"), (("elem", l, 0),), ()), ((l, ()),), (0,))
    ctx.ob("C19.R4", fi, len(ps) == 1 and N.canon_lids(ps[0].retval) == want, "hyphenatelist hyphenates every entry, in order", key="hyphenatelist")
    # the ladder asks the emitters in a fixed order and falls back only on NotImplementedError: an emitter inherited from a *more general* class
    # than the one that describes this construct answers first and describes something else (e.g. an `_emitseq` hoisted into Adapter pre-empts
    # the `_emitfulltype` a string macro patches onto its StringEncoded instance: the string is exported as raw bytes)
    nspec = 0
    for ci in M.construct_classes():
        mro = [c.name for c in ci.mro]
        lev = {}
        for m_ in KSY_METHODS:
            f_ = M.resolve(ci.name, m_)
            if f_ is not None and f_.cls is not None and f_.cls.name != "Construct":
                lev[m_] = mro.index(f_.cls.name)
        if not lev:
            continue
        nspec += 1
        ctx.ob("C19.R4", ci.name, len(set(lev.values())) == 1, "%s: its schema emitters come from one class (%s); a mix lets the more general one pre-empt the more specific one in the fallback ladder" % (
            ci.name, {m_: mro[i_] for m_, i_ in lev.items()}), key="%s emitter specificity" % ci.name, loc=ci.relpath)
    for mname, mf in sorted(M.macros().items()):
        patched = {c.name for c in M.closures(mf) if c.name in KSY_METHODS}
        if not patched:
            continue
        rets = [p.retval for p in paths_of(ctx, mf) if p.returns and p.retval is not None and p.retval[0] == "ctor"]
        for rcls in sorted({r[1] for r in rets if r[1] in M.classes}):
            nspec += 1
            bad = []
            for m_ in KSY_METHODS:
                if m_ in patched:
                    continue
                f_ = M.resolve(rcls, m_)
                if f_ is not None and f_.cls is not None and f_.cls.name not in ("Construct", rcls):
                    bad.append("%s from %s" % (m_, f_.cls.name))
            ctx.ob("C19.R4", mf, not bad, "%s patches %s onto a %s: no other schema emitter is inherited from a base class of %s (%s)" % (mname, sorted(patched), rcls, rcls, bad or "none"), key="%s emitter specificity" % mname)
    if nspec < 20:
        ctx.error("C19.R4: %d emitter-specificity instances, floor 20" % nspec)
    ctx.floor("C19.R4", 16)
    ctx.control("C19.R1", hyphen("if_") == "if" and hyphen("repeat_expr") == "repeat-expr" and hyphen("bogus_key") not in KAITAI_ATTR_KEYS)
