"""C07 -- context expressions resolve identically when parsing, building and sizing."""
import ast

from .. import norm as N
from .common import *
from ..summ import Summariser as _S
S_POSITIONAL = _S.POSITIONAL

META = {
    "level": "other",
    "explanation": "Structural check of everything that creates, fills or hands on a context: (R1) every nested-context construction in the package (Struct, Sequence, FocusedSeq, LazyStruct x parse/build/sizeof, Union x parse/build) has exactly the shape the statement describes: `_` is the incoming context, `_params` and the three direction flags are copied from it, `_index` is inherited, `_subcons` is the structure's own table, `_io` is the stream (None when sizing), and the next write to the new context sets `_root` to the parent's `_root` or else to the new context itself; exactly one such construction per method call; (R2) at every sub-construct call and every evaluate() in a function with a context in scope the context argument is the method's own context (the incoming one, or the nested one once it has been created); (R3) the three entry points create a fresh Container from the keyword arguments, set exactly the flag of their API true, set `_params` to that container and pass it on; (R4) parse stores each named member in the nested context after parsing it, build pre-loads the supplied siblings and stores the member before and the build result after each member; (R5) repeaters set `_index` to the 0-based iteration index before each element; (R6) evaluate() and Path.__call__/__getattr__/__getitem__ are the resolution primitives the statement assumes. (R7) the scopes generated code builds have the interpreter's keys, the direction flags of the emitter's direction, the _root fix-up and update parity (shared with C04.R2).",
    "undecided": "The value-level consequence (a length computed from other fields selects the same layout in both directions) follows only together with C01/C05 amount agreement; user lambdas are opaque.",
    "trusted_base": ["python ast (3.12)", "sa.summ summariser", "CHA over protocol method names"],
    "assumptions": ["constructs defined outside the package are not analysed", "generated code is covered by C04.R2, not here"],
}

R2_FROZEN = {
    ("Tunnel._parse", "parse"): "re-enters through the public API with **context (re-roots _params); outside the property's shape list",
    ("Select._build", "build"): "builds each alternative through the public API with **context; outside the property's shape list",
}
NESTING = ("Struct", "Sequence", "FocusedSeq", "LazyStruct", "Union")


def kwdict(e):
    return dict(e["kw"])


def check_newctx(ctx, fi, paths, rule="C07.R1"):
    """Shape of every NEWCTX event in `paths`."""
    n = 0
    sizing = fi.name == "_sizeof"
    for e in uniq_events(paths, "NEWCTX"):
        n += 1
        kw = kwdict(e)
        new = e["res"]
        inc = kw.get("_")
        want = {
            "_": CTX,
            "_params": ("attr", CTX, "_params"),
            "_parsing": ("attr", CTX, "_parsing"),
            "_building": ("attr", CTX, "_building"),
            "_sizing": ("attr", CTX, "_sizing"),
            "_subcons": N.selfattr("_subcons"),
            "_io": N.NONE if sizing else STREAM,
            "_index": ("ctxget", CTX, (N.const("_index"), N.NONE)),
        }
        alt = {k: (("sub", CTX, N.const(k)),) for k in ("_params", "_parsing", "_building", "_sizing")}
        for k, v in want.items():
            got = kw.get(k)
            ok = got == v or got in alt.get(k, ())
            ctx.ob(rule, fi, ok, "nested context key %s must be %s (got %s)" % (k, N.show(v), N.show(got) if got is not None else "missing"),
                   key="newctx %s" % k, node=e.node)
        extra = set(kw) - set(want) - {"_root"}
        ctx.ob(rule, fi, not extra, "nested context has no undeclared keys (%s)" % sorted(extra), key="newctx extra", node=e.node)
    # _root fix-up immediately after, on every path
    for p in paths:
        evs = p.events
        for i, e in enumerate(evs):
            if e.kind != "NEWCTX":
                continue
            new = e["res"]
            nxt = None
            for f in evs[i + 1:]:
                if f.kind in ("CTXSET", "CTXUPDATE", "SUB", "EVAL") :
                    nxt = f
                    break
            v1 = ("call", ("attr", ("attr", new, "_"), "get"), (N.const("_root"), new), ())
            v2 = ("ctxget", CTX, (N.const("_root"), new))
            ok = nxt is not None and nxt.kind == "CTXSET" and nxt["ctx"] == new and nxt["key"] == N.const("_root") and nxt["value"] in (v1, v2)
            ctx.ob(rule, fi, ok, "first use of the nested context sets _root := parent.get('_root', new)", key="newctx _root fixup", node=e.node)
        cnt = sum(1 for e in evs if e.kind == "NEWCTX")
        if cnt > 1:
            ctx.ob(rule, fi, False, "more than one nested context is created on one path (one `_` step must be one structure)", key="newctx count", node=fi.node)
    return n


def current_ctx_ok(path, ev):
    """The context in force at `ev`: the newest NEWCTX created before it on this path, else the incoming one."""
    cur = CTX
    for e in path.events:
        if e is ev:
            break
        if e.kind == "NEWCTX":
            cur = e["res"]
    return cur


def check_passthrough(ctx, fi, self_cls, stats, rule="C07.R2"):
    paths = paths_of(ctx, fi, self_cls)
    inscope = has_param(fi, "context") or (fi.outer is not None and has_param(fi.outer, "context"))
    if not inscope:
        return
    done = set()
    for p in paths:
        for e in p.events:
            if e.kind == "SUB" and e["m"] in PROTO_SUB:
                cur = current_ctx_ok(p, e)
                good = e["ctx"] == cur or (cur == CTX and e["ctx"] == ("free", "context"))
                k = (id(e.node), good)
                if k in done:
                    continue
                done.add(k)
                stats["sub"] += 1
                ctx.ob(rule, fi, good, "sub-construct %s receives %s, expected the context in force %s" % (e["m"], N.show(e["ctx"]) if e["ctx"] else "nothing", N.show(cur)), node=e.node)
            elif e.kind == "SUB" and e["m"] in ("parse", "build", "parse_stream", "build_stream", "sizeof"):
                k = (id(e.node), "pub")
                if k in done:
                    continue
                done.add(k)
                stats["sub"] += 1
                fro = (fi.qual, e["m"]) in R2_FROZEN and dict(e["kw"] or ()).get("**") == current_ctx_ok(p, e)
                ctx.ob(rule, fi, fro, "public %s() inside a protocol method re-roots the context" % e["m"], node=e.node, detail=R2_FROZEN.get((fi.qual, e["m"])))
            elif e.kind == "EVAL":
                cur = current_ctx_ok(p, e)
                good = e["ctx"] == cur or (cur == CTX and e["ctx"] == ("free", "context"))
                k = (id(e.node), good)
                if k in done:
                    continue
                done.add(k)
                stats["eval"] += 1
                ctx.ob(rule, fi, good, "parameter %s is evaluated against %s, expected the context in force %s" % (N.show(e["param"]), N.show(e["ctx"]), N.show(cur)), node=e.node)


def member_store_checks(ctx, rule="C07.R4"):
    M = ctx.model
    # the key a member is stored under is the name it was given with `"name" / construct` (shared with C18.R3)
    from . import C18 as _C18
    _C18.renamed_init(ctx, rule)
    for cls in ("Struct", "Sequence", "FocusedSeq", "LazyStruct", "Union"):
        # ---- parse: named member stored in the nested context after its SUB
        fi, paths = method_paths(ctx, cls, "_parse")
        found = 0
        for p in paths:
            evs = p.events
            for i, e in enumerate(evs):
                if e.kind == "SUB" and e["m"] == "_parsereport" and not e.raised and e.loops:
                    sc = e["target"]
                    nm = ("attr", sc, "name")
                    # path continues with ASSUME(sc.name) -> must CTXSET(name, result) before the iteration ends
                    rest = evs[i + 1:]
                    named = any(x.kind == "ASSUME" and x["cond"] == nm for x in rest if x.loops == e.loops)
                    if not named:
                        continue
                    found += 1
                    st = [x for x in rest if x.kind == "CTXSET" and x["key"] == nm and x["value"] == e["res"] and x["ctx"] == e["ctx"]]
                    ctx.ob(rule, fi, bool(st), "%s._parse stores the parsed member under its name in the nested context" % cls, key="parse store", node=e.node)
        if found == 0:
            ctx.ob(rule, fi, False, "%s._parse: no named-member path found" % cls, key="parse store", node=fi.node)
        # ---- build
        fi, paths = method_paths(ctx, cls, "_build")
        found = 0
        for p in paths:
            evs = p.events
            new = [e for e in evs if e.kind == "NEWCTX"]
            if not new:
                continue
            nctx = new[0]["res"]
            if cls in ("Struct", "LazyStruct", "Union"):
                upd = [e for e in evs if e.kind == "CTXUPDATE" and e["ctx"] == nctx]
                first_loop = next((i for i, e in enumerate(evs) if e.kind == "LOOP"), len(evs))
                ok = bool(upd) and p.index(upd[0]) < first_loop
                objt = upd[0]["src"] if upd else None
                okobj = objt is not None and (objt == OBJ or objt[0] == "new")
                ctx.ob(rule, fi, ok and okobj, "%s._build pre-loads all supplied siblings (context.update(obj)) before the member loop" % cls, key="build update", node=fi.node)
            if cls == "FocusedSeq":
                first_loop = next((i for i, e in enumerate(evs) if e.kind == "LOOP"), len(evs))
                pre = [e for e in evs[:first_loop] if e.kind == "CTXSET" and e["ctx"] == nctx and e["value"] == OBJ and e["key"][0] == "eval" and e["key"][1] == N.selfattr("parsebuildfrom")]
                ctx.ob(rule, fi, bool(pre), "FocusedSeq._build pre-stores obj under parsebuildfrom before the member loop", key="build prestore", node=fi.node)
            for i, e in enumerate(evs):
                if e.kind == "SUB" and e["m"] == "_build" and not e.raised and (e.loops or any(x[0] == "elem" for x in N.walk(e["target"]))):
                    # (a member chosen by a search loop and built after it is still a member: its term is an element of the member table)
                    sc = e["target"]
                    nm = ("attr", sc, "name")
                    rest = [x for x in evs[i + 1:]]
                    anonymous = any(x.kind == "ASSUME" and x["cond"] == N.mk_not(nm) for x in evs)
                    named_after = not anonymous and any(x.kind == "ASSUME" and (x["cond"] == nm or (x["cond"][0] == "cmp" and x["cond"][1] == "==" and nm in x["cond"][2:])) for x in evs)
                    if not named_after:
                        continue
                    found += 1
                    after = [x for x in rest if x.kind == "CTXSET" and x["key"] == nm and x["value"] == e["res"] and x["ctx"] == nctx]
                    ctx.ob(rule, fi, bool(after), "%s._build stores the member's build result under its name after building it" % cls, key="build store after", node=e.node)
                    if cls != "FocusedSeq":
                        before = [x for x in evs[:i] if x.kind == "CTXSET" and x["key"] == nm and x["value"] == e["obj"] and x["ctx"] == nctx and x.loops == e.loops]
                        ctx.ob(rule, fi, bool(before), "%s._build stores the member's value under its name before building it" % cls, key="build store before", node=e.node)
        if found == 0:
            ctx.ob(rule, fi, False, "%s._build: no named-member path found" % cls, key="build store", node=fi.node)
    # Union: the selector sees the union's own members -- it is evaluated in the union's scope after all members were parsed
    fi, paths = method_paths(ctx, "Union", "_parse")
    pf = N.selfattr("parsefrom")
    ok, seen = True, 0
    for p in paths:
        evs = p.events
        ev = [i for i, e in enumerate(evs) if e.kind == "EVAL" and e["param"] == pf and not e.depth]
        le = [i for i, e in enumerate(evs) if e.kind == "LOOPEND" and not e.loops]
        new = [e for e in evs if e.kind == "NEWCTX"]
        for i in ev:
            seen += 1
            ok = ok and bool(le) and i > max(le) and bool(new) and evs[i]["ctx"] == new[0]["res"]
    ctx.ob(rule, fi, ok and seen > 0, "Union._parse evaluates parsefrom in the union's own scope after the member loop (a selector may refer to the members just parsed)", key="Union selector after members", node=fi.node)


def element_index(ctx, rule, sites):
    """Each element of a repeater is processed with context._index set to its 0-based ordinal (an element that reads this._index sees its own position)."""
    for cls, meth in sites:
        fi, paths = method_paths(ctx, cls, meth)
        seen = 0
        for p in paths:
            evs = p.events
            for i, e in enumerate(evs):
                if e.kind == "SUB" and e["m"] in ("_parsereport", "_build") and e.loops and e["target"] == N.selfattr("subcon"):
                    lid = e.loops[-1]
                    # events of this iteration before the SUB
                    start = max(j for j, x in enumerate(evs[:i]) if x.kind == "ITER" and x["lid"] == lid)
                    sets = [x for x in evs[start:i] if x.kind == "CTXSET" and x["key"] == N.const("_index") and x["ctx"] == e["ctx"]]
                    ok = bool(sets) and sets[-1]["value"] == ("idx", lid)
                    seen += 1
                    ctx.ob(rule, fi, ok, "%s.%s sets context._index to the 0-based iteration index before each element" % (cls, meth), key="_index before element", node=e.node,
                           detail=N.show(sets[-1]["value"]) if sets else "no _index store before the element")
        if not seen:
            ctx.ob(rule, fi, False, "%s.%s: element call inside a loop not found" % (cls, meth), key="_index before element", node=fi.node)


def index_checks(ctx):
    rule = "C07.R5"
    element_index(ctx, rule, [("Array", "_parse"), ("Array", "_build"), ("GreedyRange", "_parse"), ("GreedyRange", "_build"),
                              ("RepeatUntil", "_parse"), ("RepeatUntil", "_build"), ("LazyArray", "_build")])
    # what a repeater leaves in the scope after its loop is the same in both directions: the shape of its context writes
    # (key, inside / outside the element loop) agrees between _parse and _build, so this._index read after the repeater resolves the same way
    def shape(cls, meth):
        fi, paths = method_paths(ctx, cls, meth)
        out = set()
        for p in paths:
            for e in p.events:
                if e.kind in ("CTXSET", "CTXUPDATE") and not e.depth and e.a.get("ctx") == CTX:
                    key = e["key"] if e.kind == "CTXSET" else ("update",)
                    val = "index" if (e.kind == "CTXSET" and e["value"][0] == "idx") else ("other" if e.kind == "CTXSET" else "")
                    out.add((N.show(key), "in loop" if e.loops else "outside loop", val))
        return fi, out
    for cls in ("Array", "GreedyRange", "RepeatUntil"):
        fp, sp = shape(cls, "_parse")
        fb, sb = shape(cls, "_build")
        ctx.ob(rule, fb, sp == sb, "%s writes the same context entries in the same places when parsing %s and when building %s" % (cls, sorted(sp), sorted(sb)), key="%s context writes agree" % cls)
    # what a context-reading construct yields (the repetition index, a computed value, a check's verdict) is the same in both directions (shared with C01.R5)
    from . import C01 as _C01
    _C01.identical_directions(ctx, rule, ("Index", "Computed", "Check", "StopIf"))
    ctx.floor(rule, 14)


def entry_checks(ctx):
    rule = "C07.R3"
    for meth, flag, sub in (("parse_stream", "_parsing", "_parsereport"), ("build_stream", "_building", "_build"), ("sizeof", "_sizing", "_sizeof")):
        fi, paths = own_method_paths(ctx, "Construct", meth)
        for p in paths[:1]:
            news = [e for e in p.events if e.kind == "NEW" and e["cls"] == "Container"]
            ok = len(news) == 1 and not news[0]["args"] and tuple(news[0]["kw"]) == (("**", ("param", "**contextkw")),)
            ctx.ob(rule, fi, ok, "%s creates one fresh Container(**contextkw)" % meth, key="fresh", node=fi.node)
            if not news:
                continue
            c = news[0]["res"]
            sets = {}
            for e in p.events:
                if e.kind in ("ATTRSET", "STORE") and e["base"] == c:
                    k = e["attr"] if e.kind == "ATTRSET" else (e["key"][2] if N.is_const(e["key"]) else None)
                    sets[k] = e["value"]
                if e.kind == "SUB":
                    break
            for f in ("_parsing", "_building", "_sizing"):
                ctx.ob(rule, fi, sets.get(f) == N.const(f == flag), "%s sets %s to %s" % (meth, f, f == flag), key="flag " + f, node=fi.node)
            ctx.ob(rule, fi, sets.get("_params") == c, "%s sets _params to the call's own context" % meth, key="_params", node=fi.node)
            subs = [e for e in p.events if e.kind == "SUB" and e["m"] == sub and e["target"] == SELF]
            ctx.ob(rule, fi, len(subs) == 1 and subs[0]["ctx"] == c, "%s hands that context to %s" % (meth, sub), key="handover", node=fi.node)
    ctx.floor(rule, 18)


def primitive_checks(ctx):
    rule = "C07.R6"
    M = ctx.model
    fi = M.function("evaluate")
    paths = paths_of(ctx, fi)
    ok = len(paths) == 1 and paths[0].retval == ("eval", ("param", "param"), CTX)
    ctx.ob(rule, fi, ok, "evaluate(param, context) is param(context) if callable(param) else param", key="evaluate", node=fi.node)
    fi, paths = own_method_paths(ctx, "Path", "__call__")
    par, fld = N.selfattr("__parent"), N.selfattr("__field")
    root = [p for p in paths if ("cmp", "is", par, N.NONE) in p.guards()]
    child = [p for p in paths if ("cmp", "is not", par, N.NONE) in p.guards()]
    ctx.ob(rule, fi, len(root) == 1 and root[0].retval == OBJ, "Path.__call__ returns the context itself at the root", key="root", node=fi.node)
    want = ("sub", ("call", par, (OBJ,), ()), fld)
    ctx.ob(rule, fi, len(child) == 1 and child[0].retval == want, "Path.__call__ returns parent(obj)[field] otherwise", key="child", node=fi.node)
    for m in ("__getattr__", "__getitem__"):
        fi, paths = own_method_paths(ctx, "Path", m)
        ok = len(paths) == 1 and paths[0].retval is not None and paths[0].retval[0] == "new" and paths[0].retval[1] == "Path" \
            and paths[0].retval[3] == (N.selfattr("__name"), ("param", "name"), SELF)
        ctx.ob(rule, fi, ok, "Path.%s builds a child Path(name, field, parent=self)" % m, key=m, node=fi.node)
    ctx.floor(rule, 5)



def wrapper_build_result(ctx, rule):
    """A wrapper whose _parse hands on the inner parse result unchanged hands on the inner *build* result unchanged as well: what the inner
    construct derived while building (defaults, rebuilt lengths, constants, RawCopy records) is what the enclosing structure stores under the
    member's name, so later members see the same record whichever wrapper sits in between (e.g. the sized and the streaming form of Bitwise)."""
    M = ctx.model
    n = 0
    sc = N.selfattr("subcon")
    for ci in M.construct_classes():
        if ci.relpath.endswith("debug.py") or "_build" not in ci.methods or "_parse" not in ci.methods:
            continue
        fp, pp = own_method_paths(ctx, ci.name, "_parse")
        through = False
        for p in pp:
            subs = [e for e in p.events if e.kind == "SUB" and e["m"] in ("_parsereport", "_parse") and e["target"] == sc and not e.depth]
            if p.returns and len(subs) == 1 and p.retval == subs[0]["res"]:
                through = True
        if not through:
            continue
        fb, pb = own_method_paths(ctx, ci.name, "_build")
        ok, seen = True, 0
        for p in pb:
            subs = [e for e in p.events if e.kind == "SUB" and e["m"] == "_build" and e["target"] == sc]
            if p.returns and len(subs) == 1:
                seen += 1
                ok = ok and p.retval == subs[0]["res"]
        if not seen:
            continue
        n += 1
        ctx.ob(rule, fb, ok, "%s._build returns the inner construct's build result (its _parse returns the inner parse result)" % ci.name, key="%s build result handed on" % ci.name)
    return n

def run(ctx):
    M = ctx.model
    # R1: every NEWCTX in the package
    total = 0
    for fi in M.all_functions():
        self_cls = fi.cls.name if fi.cls else None
        paths = paths_of(ctx, fi, self_cls)
        if any(e.kind == "NEWCTX" for p in paths for e in p.events):
            if fi.cls is None and getattr(fi, "outer", None) is None and not any(isinstance(pp, ast.FunctionDef) for pp in parents(fi.node)):
                # a package-level scope factory is judged where it is used: S inlines it into the protocol methods that call it, and a
                # method whose call could not be inlined is reported below ("returns without creating its nested context")
                continue
            if fi.cls is not None and fi.name not in S_POSITIONAL and not fi.name.startswith("_emit") and getattr(fi, "outer", None) is None \
                    and fi.name not in ("parse_stream", "build_stream", "sizeof", "parse", "build"):
                # likewise a scope factory that is a helper method of the class (`self._childcontext(context, stream)`): inlined into its callers
                continue
            n = check_newctx(ctx, fi, paths)
            total += n
    ctx.extra["newctx_sites"] = total
    for cls in NESTING:
        for meth in ("_parse", "_build", "_sizeof"):
            if cls == "Union" and meth == "_sizeof":
                continue
            fi, paths = method_paths(ctx, cls, meth)
            for p in paths:
                if p.returns and not any(e.kind == "NEWCTX" for e in p.events):
                    ctx.ob("C07.R1", fi, False, "%s.%s returns without creating its nested context" % (cls, meth), key="no newctx", node=fi.node)
                    break
    if total < 14:
        ctx.error("C07.R1 found %d nested-context constructions, floor is 14" % total)
    ctx.floor("C07.R1", 14 * 10)

    # R2
    stats = {"sub": 0, "eval": 0}
    for fi in M.all_functions():
        if fi.relpath.endswith("debug.py"):
            continue
        par = getattr(fi.node, "_parent", None)
        while par is not None and not isinstance(par, ast.FunctionDef):
            par = getattr(par, "_parent", None)
        if par is not None:
            fi.outer = FuncInfo(par, fi.relpath)
        check_passthrough(ctx, fi, fi.cls.name if fi.cls else None, stats)
    ctx.extra["passthrough_sites"] = stats
    ctx.call_sites += stats["sub"] + stats["eval"]
    # sizes that depend on context expressions are evaluated against the context of the call: nothing is remembered on the object (shared with C17.R1)
    from . import C17 as _C17
    _C17.stateless_methods(ctx, "C07.R2", ("_sizeof", "_actualsize"))
    ctx.floor("C07.R2", 150 + 45)

    entry_checks(ctx)
    from . import C17
    C17.entry_delegation(ctx, "C07.R3")
    unused_parameters(ctx, "C07.R3", lambda f: f.cls is not None and f.cls.name in ("Construct", "Compiled") and not f.name.startswith("_"))      # the byte/file entry points hand the same keyword arguments (_params) on as the stream entry points
    member_store_checks(ctx)
    wrapper_build_result(ctx, "C07.R4")
    ctx.floor("C07.R4", 15 + 12)
    index_checks(ctx)
    primitive_checks(ctx)

    # ---------------------------------------------------------------- R7 the scopes that generated code builds (shared with C04.R2)
    from ..core import Ctx
    from . import C04
    sub = Ctx("C04", ctx.tier, ctx.root, model=ctx.model)
    sub._summ = summariser(ctx)
    C04.run(sub)
    for e in sub.errors:
        ctx.error("shared C04 rules: " + e)
    for o in sub.obligations:
        if o.rule in ("C04.R2", "C04.R6"):     # the scopes generated code builds, and the text of the expressions it evaluates in them
            ctx.ob("C07.R7", o.where, o.ok, o.what, key=o.key, loc=o.loc, detail=o.detail)
    ctx.floor("C07.R7", 80)

    # positive controls
    ctl = control_model(
        "class Container(dict):\n    pass\n"
        "class Construct(object):\n    pass\n"
        "class X(Construct):\n"
        "    def _parse(self, stream, context, path):\n"
        "        context = Container(_ = context, _params = context, _root = None, _parsing = context._parsing, _building = context._building, _sizing = context._sizing, _subcons = self._subcons, _io = stream, _index = context.get('_index', None))\n"
        "        context._root = context\n"
        "        return self.subcon._parsereport(stream, Container(), path)\n")
    c2 = Ctx("C07", ctx.tier, ctl.root, model=ctl)
    fi = ctl.method("X", "_parse")
    ps = paths_of(c2, fi, "X")
    check_newctx(c2, fi, ps)
    check_passthrough(c2, fi, "X", {"sub": 0, "eval": 0})
    bad = {(o.rule, o.key) for o in c2.obligations if not o.ok}
    ctx.control("C07.R1", ("C07.R1", "newctx _params") in bad and ("C07.R1", "newctx _root fixup") in bad)
    ctx.control("C07.R2", any(r == "C07.R2" for r, _ in bad))
