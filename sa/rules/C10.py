"""C10 -- bit-level fields are packed MSB-first across byte boundaries on both code paths."""
import ast
from fractions import Fraction

from .. import norm as N
from ..tables import HELPER_UNITS, INVERSE_PAIRS, MACRO_DECODER
from .common import *

META = {
    "level": "other",
    "explanation": "(R7) who may seek: only the frozen set of position-moving classes seeks the stream it is handed (RestreamedBytesIO refuses seeks). Wiring check of the two implementations of a bit-level region (necessary: any mismatch mis-packs some layout): (R1) at the 7 sites where Bitwise, Bytewise, BitsSwapped and ByteSwapped instantiate Transformed/Restreamed, decoder and encoder are an inverse pair of the independent helper table, the decoder is the one that produces the representation the inner construct works on, and the sized and the streaming branch of a macro use the same pair in the same roles; (R2) unit arithmetic with exact rationals: Transformed(sub, dec, da, enc, ea) needs da * ratio(dec) = sizeof(sub) = ea / ratio(enc)... i.e. da = ea = size / ratio(dec); Restreamed(sub, dec, du, enc, eu, sc) needs du = input granule of dec, eu = input granule of enc and sc(n) = n / ratio(dec); (R3) BitsInteger._parse/_build are duals (same parameters consulted the same way, same guards, mutually inverse helper chain with the swap step guarded by the same evaluated flag and placed on the stream side) and the lookup tables of lib/binary.py are inverse by construction; (R4) BitStruct is Bitwise(Struct(...)); the streaming branch is reached only through the SizeofError handler; RestreamedBytesIO.read feeds the decoder chunks of exactly decoderunit and hands out exactly `count` units from the front of its buffer, write appends to its buffer and flushes slices of exactly encoderunit from the front (FIFO), close refuses leftovers. R4 also: a sized read that meets the end of the substream returns b'' and leaves buffer and tell() untouched, a successful read advances tell() by the units handed out; (R5) reference forms of lib/binary.py decided on path summaries with bound terms constant-folded for widths 1..72: integer2bits accepts exactly the two's-complement / unsigned range, encodes negatives as number + 2^width and fills the buffer backwards with number & 1 / number >>= 1; bits2integer accumulates (number << 1) | bit in order and subtracts 2^len exactly when signed and the leading bit is set (first-bit test or magnitude >= 2^(len-1)); integer2bytes/bytes2integer are int.to_bytes/from_bytes(..., 'big', signed=signed); swapbytes reverses, swapbytesinbits reverses 8-bit groups keeping each group's bit order, swapbitsinbytes maps through the bit-reversal table; the three lookup tables are the documented comprehensions (as terms, not text).",
    "undecided": "Widths above 72 in the constant-folded bound checks; helpers rewritten in a form none of the R5 rules recognises are reported as undecided (exit 2), not decided.",
    "trusted_base": ["python ast (3.12)", "sa.summ summariser", "sa/tables.py HELPER_UNITS/INVERSE_PAIRS (semantic facts from the property statement)"],
    "assumptions": ["sub-construct size is a multiple of the unit (documented precondition of Bitwise/Bytewise)"],
}

MACROS = ("Bitwise", "Bytewise", "BitsSwapped", "ByteSwapped")


def fname(t):
    return t[1] if t and t[0] == "free" else None


def size_ratio(term, size):
    """term == size * r  for a rational r?  supports size, size//k, k*size."""
    if term == size:
        return Fraction(1)
    if term[0] == "bin" and term[1] == "//" and term[2] == size and N.is_int(term[3]):
        return Fraction(1, term[3][2])
    if term[0] == "lin" and term[2] == 0 and len(term[1]) == 1 and term[1][0][0] == size:
        return Fraction(term[1][0][1])
    return None


def lam_ratio(t):
    """lambda n: n*r -> r."""
    if not (t and t[0] == "lam" and t[1] == 1):
        return None
    return size_ratio(t[2], ("bv", 0))


# who may seek: the classes whose _parse/_build/_actualsize move the position of the stream they are handed (confirmed by reading; each is
# documented not to work on a streamed bit-level region, where RestreamedBytesIO.seek refuses everything but a no-op)
SEEKERS = {"GreedyRange": {"_parse"}, "Lazy": {"_parse"}, "LazyArray": {"_parse"}, "LazyStruct": {"_parse"}, "NullTerminated": {"_parse"},
           "OffsettedEnd": {"_parse"}, "Peek": {"_parse"}, "Pointer": {"_parse", "_build"}, "RawCopy": {"_parse", "_build"}, "Seek": {"_parse", "_build"},
           "Select": {"_parse"}, "Union": {"_parse"}}


def seekers(ctx, rule):
    """A construct that did not seek before must not start to: Bitwise / Bytewise / BitsSwapped over a construct without a fixed size hand it a
    RestreamedBytesIO, whose seek() accepts only the current position -- a seek that replaces a read (skipping padding, jumping over a
    payload) works on the pre-read path and raises on the streamed one, so the same layout parses or not depending on which path the macro took."""
    M = ctx.model
    n = 0
    for ci in M.construct_classes():
        if ci.relpath.endswith("debug.py"):
            continue
        for meth in ("_parse", "_build", "_actualsize"):
            if meth not in ci.methods:
                continue
            fi = M.method(ci.name, meth)
            paths = paths_of(ctx, fi, ci.name)
            n += 1
            sk = [e for p in paths for e in p.events if e.kind == "SEEK" and e["stream"] in (STREAM, ("param", "stream"))]
            allowed = meth in SEEKERS.get(ci.name, ())
            if sk and not allowed:
                ctx.ob(rule, fi, False, "%s.%s seeks the stream it is handed; it did not before, and inside a streamed bit-level region (RestreamedBytesIO) every seek but a no-op raises" % (ci.name, meth),
                       key="%s.%s seeks" % (ci.name, meth), node=sk[0].node)
            else:
                ctx.ob(rule, fi, True, "%s.%s %s" % (ci.name, meth, "is one of the position-moving classes" if sk else "does not seek"), key="%s.%s seeks" % (ci.name, meth))
    ctx.floor(rule, 100)


def run(ctx):
    M = ctx.model
    S = summariser(ctx)
    sites = check_macros(ctx, MACROS, "C10.R1", "C10.R2", "C10.R4")
    ctx.extra["instantiation_sites"] = sites
    if sites < 7:
        ctx.error("C10.R1: %d instantiation sites found, floor 7" % sites)
    ctx.floor("C10.R1", 7 * 3)
    ctx.floor("C10.R2", 14)
    rest(ctx)


def machinery(ctx, rule):
    """Restreamed: on every path the inner construct runs on a RestreamedBytesIO(stream, decoder, decoderunit, encoder, encoderunit) made in this
    call, which is closed afterwards (close refuses leftovers, R4); nothing touches the outer stream or the wrapper's internals directly.
    Transformed: parse reads decodeamount (or everything), decodes once and parses the result; build builds into a scratch stream,
    encodes its whole content once and writes it."""
    sub = N.selfattr("subcon")
    want_args = (STREAM, N.selfattr("decoder"), N.selfattr("decoderunit"), N.selfattr("encoder"), N.selfattr("encoderunit"))
    for meth, m in (("_parse", "_parsereport"), ("_build", "_build")):
        fi, paths = own_method_paths(ctx, "Restreamed", meth)
        ok = bool(paths)
        for p in paths:
            new = [e for e in p.events if e.kind == "NEWSTREAM"]
            subs = [e for e in p.events if e.kind == "SUB"]
            ok = ok and len(new) == 1 and new[0]["cls"] == "RestreamedBytesIO" and tuple(new[0]["args"]) == want_args \
                and len(subs) == 1 and subs[0]["m"] == m and subs[0]["target"] == sub and subs[0]["stream"] == new[0]["res"] \
                and not any(e.kind in ("READ", "WRITE", "SEEK", "TELL", "READALL") for e in p.events) \
                and not any(e.kind in ("ATTRSET", "STORE", "MUT", "SETATTR") for e in p.events)
            if p.returns:
                cl = [e for e in p.events if e.kind == "RAWIO" and e["method"] == "close" and e["stream"] == new[0]["res"]] if new else []
                ok = ok and len(cl) == 1 and p.events.index(cl[0]) > p.events.index(subs[0])
        ctx.ob(rule, fi, ok, "Restreamed.%s runs the inner construct on a fresh RestreamedBytesIO over the incoming stream on every path, closes it afterwards, and touches nothing else" % meth, key="Restreamed %s" % meth)
        ctx.ob(rule, fi, len([p for p in paths if p.returns]) == 1, "Restreamed.%s has a single successful path (no fast path around the wrapper)" % meth, key="Restreamed %s single path" % meth)
    fi, paths = own_method_paths(ctx, "Transformed", "_parse")
    ok = bool(paths)
    for p in paths:
        if not p.returns or p.of("UNDEF"):
            continue
        subs = [e for e in p.events if e.kind == "SUB"]
        new = [e for e in p.events if e.kind == "NEWSTREAM"]
        dec = [e for e in p.events if e.kind == "CALL" and e["func"] == N.selfattr("decodefunc")]
        ok = ok and len(subs) == 1 and len(new) == 1 and len(dec) == 1 and subs[0]["stream"] == new[0]["res"] and tuple(new[0]["args"]) == (dec[0]["res"],) \
            and dec[0]["args"][0][0] in ("read", "readall")
    ctx.ob(rule, fi, ok, "Transformed._parse decodes what it read once and parses exactly the decoded bytes", key="Transformed _parse")
    rd = [e for p in paths for e in p.events if e.kind == "READ"]
    ctx.ob(rule, fi, bool(rd) and all(e["length"] == N.selfattr("decodeamount") for e in rd), "Transformed._parse reads decodeamount bytes when an amount is given", key="Transformed _parse amount")
    da = N.selfattr("decodeamount")
    none_tests = (("call", ("free", "isinstance"), (da, ("call", ("free", "type"), (N.NONE,), ())), ()), N.mk_cmp("is", da, N.NONE))
    ok = True
    nall = 0
    for p in paths:
        for e in p.events:
            if e.kind == "READALL" and not e.depth:
                nall += 1
                before = p.guards(e)
                ok = ok and any(t in before for t in none_tests) and da not in before and N.mk_not(da) not in before
    ctx.ob(rule, fi, ok and nall >= 1, "Transformed._parse reads to the end of the stream only when decodeamount is None (tested as None, not by truthiness: an amount of 0 reads nothing)", key="Transformed _parse read-all guard")
    fi, paths = own_method_paths(ctx, "Transformed", "_build")
    ok = bool(paths)
    for p in paths:
        if not p.returns:
            continue
        subs = [e for e in p.events if e.kind == "SUB"]
        wr = [e for e in p.events if e.kind == "WRITE"]
        enc = [e for e in p.events if e.kind == "CALL" and e["func"] == N.selfattr("encodefunc")]
        ok = ok and len(subs) == 1 and len(wr) == 1 and len(enc) == 1 and subs[0]["stream"][0] == "newstream" and enc[0]["args"] == (("getvalue", subs[0]["stream"]),) \
            and wr[0]["data"] == enc[0]["res"] and wr[0]["stream"] == STREAM
    ctx.ob(rule, fi, ok, "Transformed._build encodes the whole scratch output once and writes exactly that", key="Transformed _build")
    amt = [p for p in paths if p.outcome[0] == "raise" and any(N.contains(c, N.selfattr("encodeamount")) for c in p.guards())]
    ctx.ob(rule, fi, bool(amt), "Transformed._build rejects output whose length differs from encodeamount", key="Transformed _build amount")


def restreamed_sizeof(ctx, rule):
    fi, paths = own_method_paths(ctx, "Restreamed", "_sizeof")
    sc = N.selfattr("sizecomputer")
    none = [p for p in paths if N.mk_cmp("is", sc, N.NONE) in p.guards()]
    some = [p for p in paths if N.mk_cmp("is not", sc, N.NONE) in p.guards()]
    ok = bool(none) and all(p.outcome[0] == "raise" and p.outcome[1].get("cls") == "SizeofError" for p in none) and bool(some)
    for p in some:
        if p.returns:
            subs = [e for e in p.events if e.kind == "SUB" and e["m"] == "_sizeof" and e["target"] == N.selfattr("subcon")]
            ok = ok and len(subs) == 1 and p.retval == ("call", sc, (subs[0]["res"],), ())
    ctx.ob(rule, fi, ok, "Restreamed._sizeof is sizecomputer(subcon size) when a size computer was given and SizeofError when none was", key="Restreamed sizeof")


def check_macros(ctx, names, R1, R2, R4):
    M = ctx.model
    sites = 0
    for name in names:
        fi = M.function(name)
        paths = paths_of(ctx, fi)
        rets = [p for p in paths if p.returns]
        ctors = []
        for p in rets:
            r = p.retval
            if r[0] == "ctor":
                ctors.append((p, r))
            else:
                # macro patches KSY emitters onto the instance and returns the local
                ctx.ob(R1, fi, False, "%s does not return a Transformed/Restreamed constructor term" % name, key="%s shape" % name)
        sub = ("param", "subcon")
        pairs = set()
        for p, r in ctors:
            sites += 1
            kind, args = r[1], r[2]
            size = next((e["res"] for e in p.events if e.kind == "SUB" and e["m"] == "sizeof" and e["target"] == sub and not e.raised), None)
            if kind == "Transformed":
                ok = len(args) == 5 and args[0] == sub
                dec, da, enc, ea = (args + (None,) * 5)[1:5]
            elif kind == "Restreamed":
                ok = len(args) == 6 and args[0] == sub
                dec, du, enc, eu, sc = (args + (None,) * 6)[1:6]
            else:
                ok = False
                dec = enc = None
            ctx.ob(R1, fi, ok, "%s instantiates %s over its sub-construct with the expected arity" % (name, kind), key="%s %s arity" % (name, kind))
            if not ok:
                continue
            d, e = fname(dec), fname(enc)
            pairs.add((d, e))
            ctx.ob(R1, fi, frozenset((d, e)) in INVERSE_PAIRS, "%s/%s: decoder %s and encoder %s are an inverse pair" % (name, kind, d, e), key="%s %s inverse pair" % (name, kind))
            ctx.ob(R1, fi, d == MACRO_DECODER[name], "%s/%s: the decoder produces the representation the inner construct works on (%s)" % (name, kind, MACRO_DECODER[name]), key="%s %s direction" % (name, kind))
            if d not in HELPER_UNITS or e not in HELPER_UNITS:
                continue
            gd, rd = HELPER_UNITS[d]
            ge, re_ = HELPER_UNITS[e]
            if kind == "Transformed":
                ra, rb = size_ratio(da, size) if size else None, size_ratio(ea, size) if size else None
                ctx.ob(R2, fi, size is not None and ra is not None and ra * rd == 1, "%s/Transformed: decodeamount * ratio(%s) == sizeof(subcon) (decodeamount = %s)" % (name, d, N.show(da)), key="%s decodeamount" % name)
                ctx.ob(R2, fi, size is not None and rb is not None and rb == re_, "%s/Transformed: encodeamount == sizeof(subcon) * ratio(%s) (encodeamount = %s)" % (name, e, N.show(ea)), key="%s encodeamount" % name)
                reached_ok = not any(x.kind == "CATCH" for x in p.events)
                ctx.ob(R4, fi, reached_ok, "%s: the pre-read implementation is used when the size is known" % name, key="%s sized branch" % name)
            else:
                ctx.ob(R2, fi, gd is not None and du == N.const(gd), "%s/Restreamed: decoderunit is the input granule of %s (%s)" % (name, d, N.show(du)), key="%s decoderunit" % name)
                ctx.ob(R2, fi, ge is not None and eu == N.const(ge), "%s/Restreamed: encoderunit is the input granule of %s (%s)" % (name, e, N.show(eu)), key="%s encoderunit" % name)
                lr = lam_ratio(sc)
                ctx.ob(R2, fi, lr is not None and lr * rd == 1, "%s/Restreamed: sizecomputer(n) == n / ratio(%s)" % (name, d), key="%s sizecomputer" % name)
                reached_ok = any(x.kind == "CATCH" and x["types"] == ("SizeofError",) for x in p.events)
                ctx.ob(R4, fi, reached_ok, "%s: the streaming implementation is reached only through the SizeofError handler" % name, key="%s streaming branch" % name)
        ctx.ob(R1, fi, len(pairs) == 1, "%s: both implementations use the same (decoder, encoder) pair in the same roles (%s)" % (name, sorted(pairs)), key="%s same pair" % name)
    return sites


def rest(ctx):
    M = ctx.model
    S = summariser(ctx)
    # ---- R4: BitStruct
    fi = M.function("BitStruct")
    paths = paths_of(ctx, fi)
    r = paths[0].retval if len(paths) == 1 else None
    ok = r is not None and r[0] == "ctor" and r[1] == "Bitwise" and len(r[2]) == 1 and r[2][0][0] == "ctor" and r[2][0][1] == "Struct" \
        and r[2][0][2] == (("star", ("param", "*subcons")),) and r[2][0][3] == (("**", ("param", "**subconskw")),)
    ctx.ob("C10.R4", fi, ok, "BitStruct(*subcons, **kw) is Bitwise(Struct(*subcons, **kw))", key="BitStruct")

    # ---- R4: RestreamedBytesIO
    rb, wb = N.selfattr("rbuffer"), N.selfattr("wbuffer")
    sub, du, eu = N.selfattr("substream"), N.selfattr("decoderunit"), N.selfattr("encoderunit")
    fi, paths = own_method_paths(ctx, "RestreamedBytesIO", "read")
    raws = [e for p in paths for e in p.events if e.kind == "RAWIO"]
    ctx.ob("C10.R4", fi, bool(raws) and all(e["stream"] == sub and e["method"] == "read" and e["args"] == (du,) for e in raws), "read() pulls chunks of exactly decoderunit from the substream", key="read chunk")
    decs = [e for p in paths for e in p.events if e.kind == "CALL" and e["func"] == N.selfattr("decoder")]
    ctx.ob("C10.R4", fi, bool(decs) and all(len(e["args"]) == 1 and e["args"][0][0] == "rawio" for e in decs), "every chunk goes through the decoder exactly as read", key="read decode")
    app = [e for p in paths for e in p.events if e.kind == "SELFWRITE" and e["attr"] == "rbuffer" and e["value"][0] in ("uconcat", "concat")]
    ctx.ob("C10.R4", fi, bool(app) and all(e["value"][2][0] == "call" and e["value"][2][1] == N.selfattr("decoder") and (e["value"][1] == rb or e["value"][1][0] == "lv") for e in app),
           "decoded chunks are appended at the end of the read buffer", key="read append")
    cnt = ("param", "count")
    good = True
    n = 0
    for p in paths:
        if p.returns and N.mk_cmp("is not", cnt, N.NONE) in p.guards() and p.retval != N.const(b""):
            n += 1
            w = [e for e in p.events if e.kind == "SELFWRITE" and e["attr"] == "rbuffer"]
            last = w[-1]["value"] if w else None
            good = good and p.retval[0] == "sub" and p.retval[2] == ("slice", N.NONE, cnt, N.NONE) and last is not None and last[0] == "sub" \
                and last[2] == ("slice", cnt, N.NONE, N.NONE) and last[1] == p.retval[1]
    ctx.ob("C10.R4", fi, good and n >= 1, "read(count) hands out the first `count` units of the buffer and keeps the rest", key="read fifo")
    # a sized read that meets the end of the substream with fewer than `count` units buffered: nothing is handed out, nothing is consumed, tell() stands
    eof, adv = [], True
    for p in paths:
        if not (p.returns and N.mk_cmp("is not", cnt, N.NONE) in p.guards()):
            continue
        short = any(c[0] == "bool" and c[1] == "or" and any(x[0] == "cmp" and x[1] == "is" and x[2][0] == "rawio" and x[3] == N.NONE for x in c[2]) for c in p.guards())
        w = [e for e in p.events if e.kind == "SELFWRITE" and e["attr"] in ("rbuffer", "sincereadwritten")]
        if short:
            eof.append(p.retval == N.const(b"") and not any(e["attr"] == "sincereadwritten" or (e["attr"] == "rbuffer" and e["value"][0] == "sub") for e in w))
        else:
            sw = [e["value"] for e in w if e["attr"] == "sincereadwritten"]
            adv = adv and len(sw) == 1 and sw[0] in (N.mk_add(N.selfattr("sincereadwritten"), cnt), N.mk_add(N.selfattr("sincereadwritten"), ("call", ("free", "len"), (p.retval,), ())))
    ctx.ob("C10.R4", fi, bool(eof) and all(eof), "read(count) at the end of the substream returns b'' and leaves the pending units and tell() untouched (the caller reports the short read; a later region member must not see a shifted buffer)", key="read eof")
    ctx.ob("C10.R4", fi, adv, "a successful read(count) advances tell() by exactly the units handed out", key="read tell")
    # the refill loop of a sized read runs exactly while fewer than `count` units are pending (one more round would meet the end of an exactly
    # fitting substream and report a short read; one fewer would hand out less than asked)
    refill = [e for p in paths if N.mk_cmp("is not", cnt, N.NONE) in p.guards() for e in p.events if e.kind == "LOOP"]
    ctx.ob("C10.R4", fi, bool(refill) and all(e["iter"] == N.mk_cmp("<", ("call", ("free", "len"), (rb,), ()), cnt) for e in refill),
           "read(count) refills exactly while len(rbuffer) < count", key="read refill guard")
    # read() to the end: the units already pending come first, then every decoded chunk in order; the buffer is emptied
    alls = [p for p in paths if p.returns and N.mk_cmp("is", cnt, N.NONE) in p.guards()]
    good = bool(alls)
    # two accumulation idioms: the buffer itself grows (rbuffer += chunk), or the chunks are collected in a list that starts with the pending
    # units and is joined at the end (b"".join([rbuffer, chunk, ...]))
    joined = None
    for p in alls:
        r = p.retval
        if r[0] == "call" and r[1] == ("attr", N.const(b""), "join") and len(r[2]) == 1 and r[2][0][0] == "list" and r[2][0][1][:1] == (rb,):
            joined = r[2][0]
    for p in alls:
        r = p.retval
        w = [e for e in p.events if e.kind == "SELFWRITE" and e["attr"] == "rbuffer"]
        if joined is not None:
            good = good and r == ("call", ("attr", N.const(b""), "join"), (joined,), ()) and len(joined[1]) == 1 and bool(w) and w[-1]["value"] == N.const(b"") and not any(e.loops for e in w)
            sw = [e["value"] for e in p.events if e.kind == "SELFWRITE" and e["attr"] == "sincereadwritten"]
            good = good and len(sw) == 1 and sw[0] == N.mk_add(N.selfattr("sincereadwritten"), ("call", ("free", "len"), (r,), ()))
            continue
        good = good and (r == rb or (r[0] == "lv" and r[3] == rb)) and bool(w) and w[-1]["value"] == N.const(b"")
        inloop = [e for e in w if e.loops]
        good = good and all(e["value"][0] in ("uconcat", "concat") and e["value"][1] in (rb, r) or e["value"][1][0] == "lv" for e in inloop)
        if any(e.kind == "ITER" for e in p.events) and any(c[0] == "bool" and c[1] == "and" and any(x[0] == "cmp" and x[1] == "is not" and x[2][0] == "rawio" for x in c[2]) for c in p.guards()):
            good = good and bool(inloop) and any(e.kind == "CALL" and e["func"] == N.selfattr("decoder") for e in p.events)          # a chunk that was read is decoded and appended
        sw = [e["value"] for e in p.events if e.kind == "SELFWRITE" and e["attr"] == "sincereadwritten"]
        good = good and len(sw) == 1 and sw[0] == N.mk_add(N.selfattr("sincereadwritten"), ("call", ("free", "len"), (r,), ()))
    # the iteration that goes on (a chunk was read): exactly that chunk is decoded and appended at the end of the buffer
    steps = [evs for p in paths[:1] for lid, evs, env_ in p.loop_steps]
    cont = [evs for evs in steps if any(e.kind == "RAWIO" for e in evs) and any(e.kind == "ASSUME" and e["cond"][0] == "bool" and e["cond"][1] == "and" for e in evs)
            and not any(e.kind == "ASSUME" and e["cond"][0] == "cmp" and cnt in e["cond"][2:] for e in evs)]
    okc = bool(cont)
    for evs in cont:
        raw = [e for e in evs if e.kind == "RAWIO"]
        wr = [e for e in evs if e.kind == "SELFWRITE" and e["attr"] == "rbuffer"]
        if joined is not None:
            app = [e for e in evs if e.kind == "MUT" and e["base"] == joined and e["method"] in ("append", "extend", "insert")]
            okc = okc and len(raw) == 1 and not wr and len(app) == 1 and app[0]["method"] == "append" and app[0]["args"] == (("call", N.selfattr("decoder"), (raw[0]["res"],), ()),)
            continue
        okc = okc and len(raw) == 1 and len(wr) == 1 and wr[0]["value"][0] in ("uconcat", "concat") and wr[0]["value"][2] == ("call", N.selfattr("decoder"), (raw[0]["res"],), ())
    good = good and okc
    ctx.ob("C10.R4", fi, good, "read() to the end returns the pending units followed by every decoded chunk in order, empties the buffer and advances tell() by what it returned", key="read all")
    # the guards of read(): only a negative count is refused; the substream is at its end when it returns None or nothing
    neg = [p for p in paths if p.outcome[0] == "raise" and N.mk_cmp("is not", cnt, N.NONE) in p.guards()]
    ctx.ob("C10.R4", fi, bool(neg) and all(N.mk_cmp("<", cnt, N.const(0)) in p.guards() for p in neg), "read(count) refuses exactly the negative counts (read(0) is legal)", key="read negative")
    eofs = {c for p in paths for c in p.guards() if c[0] == "bool" and c[1] == "or" and any(x[0] == "cmp" and x[1] == "is" and x[2][0] == "rawio" for x in c[2])}
    ok_eof = bool(eofs) and all(len(c[2]) == 2 and any(x[0] == "cmp" and x[1] == "==" and x[2][0] == "call" and x[2][1] == ("free", "len") and x[3] == N.const(0) for x in c[2]) for c in eofs)
    ctx.ob("C10.R4", fi, ok_eof, "the end of the substream is `data is None or len(data) == 0`", key="read eof test")
    fi0, p0s = own_method_paths(ctx, "RestreamedBytesIO", "__init__")
    w0 = {e["attr"]: e["value"] for p in p0s for e in p.events if e.kind == "SELFWRITE"}
    ctx.ob("C10.R4", fi0, w0.get("rbuffer") == N.const(b"") and w0.get("wbuffer") == N.const(b"") and w0.get("sincereadwritten") == N.const(0)
           and all(w0.get(a) == ("param", a) for a in ("substream", "decoder", "decoderunit", "encoder", "encoderunit")),
           "a new RestreamedBytesIO starts with empty buffers, position 0, and the stream / functions / units it was given", key="init state")
    fi, paths = own_method_paths(ctx, "RestreamedBytesIO", "write")
    data = ("param", "data")
    first = [p.events[0] for p in paths if p.events]
    ctx.ob("C10.R4", fi, all(e.kind == "SELFWRITE" and e["attr"] == "wbuffer" and e["value"] == ("uconcat", wb, data) for e in first) and bool(first),
           "write() appends the new data at the end of the pending buffer", key="write append")
    good, n = True, 0
    for p in paths:
        for i, e in enumerate(p.events):
            if e.kind == "RAWIO" and e["method"] == "write":
                n += 1
                arg = e["args"][0] if e["args"] else None
                chunk = arg[2][0] if arg and arg[0] == "call" and arg[1] == N.selfattr("encoder") and arg[2] else None
                ws = [x for x in p.events[:i] if x.kind == "SELFWRITE" and x["attr"] == "wbuffer" and x.loops == e.loops]
                rest = ws[-1]["value"] if ws else None
                good = good and chunk is not None and chunk[0] == "sub" and chunk[2] == ("slice", N.NONE, eu, N.NONE) and e["stream"] == sub \
                    and rest is not None and rest[0] == "sub" and rest[2] == ("slice", eu, N.NONE, N.NONE) and rest[1] == chunk[1] and chunk[1][0] == "lv"
                guard = N.mk_cmp(">=", ("call", ("free", "len"), (chunk[1],), ()), eu) if chunk else None
                good = good and guard in p.guards()
    ctx.ob("C10.R4", fi, good and n >= 1, "write() flushes slices of exactly encoderunit from the front of the pending buffer while at least one unit is pending, keeping the rest", key="write fifo")
    ctx.ob("C10.R4", fi, all(p.retval == ("call", ("free", "len"), (data,), ()) for p in paths if p.returns), "write() reports the length of the data it was given", key="write result")
    fi, paths = own_method_paths(ctx, "RestreamedBytesIO", "close")
    for buf in (rb, wb):
        g = ("call", ("free", "len"), (buf,), ())
        bad = [p for p in paths if g in p.guards()]
        ctx.ob("C10.R4", fi, bool(bad) and all(p.outcome[0] == "raise" for p in bad), "close() refuses a non-empty %s" % buf[2], key="close %s" % buf[2])
    # the region's stream cannot move: seek() succeeds only for the no-op (absolute, to where the stream stands) and fails otherwise, so that
    # stream_seek reports a StreamError instead of a Pointer/Peek silently working at the wrong place
    fi, paths = own_method_paths(ctx, "RestreamedBytesIO", "seek")

    def flat(p):
        out = set()
        for g in p.guards():
            out |= set(g[2]) if g[0] == "bool" and g[1] == "and" else {g}
        return out
    quiet = [p for p in paths if p.outcome[0] != "raise"]
    need = {N.mk_cmp("==", ("param", "whence"), N.const(0)), N.mk_cmp("==", ("param", "at"), N.selfattr("sincereadwritten"))}
    ctx.ob("C10.R4", fi, bool(quiet) and all(need <= flat(p) for p in quiet) and any(p.outcome[0] == "raise" for p in paths),
           "seek() of a restreamed region succeeds only when it is absolute and targets the current position, and raises otherwise", key="seek no-op only")
    fi, paths = own_method_paths(ctx, "RestreamedBytesIO", "tell")
    ctx.ob("C10.R4", fi, len(paths) == 1 and paths[0].retval == N.selfattr("sincereadwritten"), "tell() of a restreamed region is the count of units read or written so far", key="tell")
    # the filler of bit-level layouts: Padding(n, pattern) = Padded(n, Pass, pattern) emits its own pattern, once per unit (shared with C03.R5)
    from . import C03 as _C03
    _C03.pad_content(ctx, "C10.R4")
    ctx.floor("C10.R4", 25)

    # ---- R3: lookup tables inverse by construction
    rel = [r for r in M.modules if r.endswith("binary.py")][0]
    assigns = M.module_assigns[rel]
    def comp_src(name):
        v = assigns.get(name)
        return ast.unparse(v) if v is not None else None
    fi_b = M.function("bytes2bits")
    paths = paths_of(ctx, fi_b)
    r = N.canon_lids(paths[0].retval) if len(paths) == 1 else None
    ok = r is not None and r[0] == "call" and r[1] == ("attr", N.const(b""), "join") and r[2][0][0] == "comp" and \
        r[2][0][2] == ("sub", ("free", "BYTES2BITS_CACHE"), ("elem", ("param", "data"), 0)) and r[2][0][3] == ((("param", "data"), ()),)
    ctx.ob("C10.R3", fi_b, ok, "bytes2bits concatenates the table entries of the bytes in order", key="bytes2bits")
    fi_c = M.function("bits2bytes")
    paths = paths_of(ctx, fi_c)
    rets = [p for p in paths if p.returns]
    ok = len(rets) == 1
    if ok:
        r = N.canon_lids(rets[0].retval)
        d = ("param", "data")
        i = ("rangeelem", (N.const(0), ("call", ("free", "len"), (d,), ()), N.const(8)), 0)
        want_elt = ("sub", ("free", "BITS2BYTES_CACHE"), ("sub", d, ("slice", i, N.mk_add(i, N.const(8)), N.NONE)))
        ok = r[0] == "call" and r[1] == ("free", "bytes") and r[2][0][0] == "comp" and r[2][0][2] == want_elt
    ctx.ob("C10.R3", fi_c, ok, "bits2bytes looks up consecutive groups of 8 bit-bytes in order", key="bits2bytes")
    # BitsInteger duality is C01's instance; here: chain positions
    from . import C01
    C01.check_integer_duality(ctx, "BitsInteger", rule="C10.R3")
    # ---- R5: the helpers themselves (MSB-first two's complement, byte groups)
    from . import C10_helpers
    C10_helpers.run(ctx, "C10.R5")
    unused_parameters(ctx, "C10.R5", lambda f: f.relpath.endswith(("lib/binary.py", "lib/bitstream.py")))      # e.g. a `signed` or `swapped` flag accepted and ignored
    # ---- R6: the two machines the macros instantiate: the inner construct only ever sees the decoded view
    machinery(ctx, "C10.R6")
    restreamed_sizeof(ctx, "C10.R6")
    # the sized and the streaming form of a bit-level region hand the enclosing structure the same thing: the inner build result (shared with C07.R4)
    from . import C07 as _C07
    _C07.wrapper_build_result(ctx, "C10.R6")
    # BitStruct is Bitwise(Struct(...)): the scope its bit fields evaluate their widths in (this.x, this._index, this._) is the nested context
    # Struct / Sequence set up, with the same keys in parse, build and sizeof (shared with C07.R1)
    from ..core import Ctx as _Ctx7
    sub7 = _Ctx7("C07", ctx.tier, ctx.root, model=ctx.model)
    sub7._summ = summariser(ctx)
    _C07.run(sub7)
    for e in sub7.errors:
        ctx.error("shared C07 rules: " + e)
    for o in sub7.obligations:
        if o.rule == "C07.R1" and str(o.where).split(".")[0] in ("Struct", "Sequence"):
            ctx.ob("C10.R6", o.where, o.ok, o.what, key=o.key, loc=o.loc, detail=o.detail)
    ctx.floor("C10.R6", 10)
    seekers(ctx, "C10.R7")
    # which of the two region implementations runs is decided by subcon.sizeof(): the sizing methods are side-effect free and translate a
    # missing key (e.g. this._index in an element width) into SizeofError instead of inventing a value (shared with C05.R1)
    from . import C05
    for fi5 in M.own_methods("_sizeof"):
        if fi5.cls is not None and fi5.cls.name in ("Array", "GreedyRange", "RepeatUntil", "Struct", "Sequence", "BitsInteger", "BytesInteger", "Bytes", "Padded", "IfThenElse", "Switch", "FocusedSeq", "Restreamed", "Transformed"):
            C05.check_sizeof_def(ctx, fi5, fi5.cls.name, rule="C10.R7")
    ctx.floor("C10.R7", 14)
    ctx.floor("C10.R3", 6)

    # positive control: swapped roles in the streaming branch
    ctl = control_model(
        "class SizeofError(Exception):\n    pass\n"
        "def Bitwise(subcon):\n"
        "    try:\n        size = subcon.sizeof()\n        macro = Transformed(subcon, bytes2bits, size//8, bits2bytes, size//8)\n"
        "    except SizeofError:\n        macro = Restreamed(subcon, bits2bytes, 1, bytes2bits, 8, lambda n: n//8)\n"
        "    return macro\n"
        "class Construct(object):\n    pass\nclass Transformed(Construct):\n    pass\nclass Restreamed(Construct):\n    pass\n")
    from ..core import Ctx
    c2 = Ctx("C10", ctx.tier, ctl.root, model=ctl)
    ps = paths_of(c2, ctl.function("Bitwise"))
    decs = {fname(p.retval[2][1]) for p in ps if p.returns and p.retval[0] == "ctor"}
    ctx.control("C10.R1", decs == {"bytes2bits", "bits2bytes"})
