"""C13 -- constants, validators and label mappings are enforced in both directions."""
import ast

from .. import norm as N
from .common import *

META = {
    "level": "other",
    "explanation": "Polarity and sibling-agreement check of the enforcing classes: (R1) Const._parse raises ConstError exactly on the paths where the parsed value differs from the constant and returns the parsed value otherwise; Const._build refuses any obj outside (None, value) and always builds self.value, never obj; (R2) Adapter wraps _decode around the sub-parse and _encode before the sub-build, SymmetricAdapter._encode is _decode, Validator._decode raises ValidationError exactly when _validate is falsy and returns obj unchanged, ExprValidator installs the user predicate, OneOf/NoneOf are `in`/`not in`; (R3) Check and StopIf have identical parse and build summaries (evaluate, test polarity, exception class); (R4) every label-table lookup of Enum/FlagsEnum/Mapping sits in a handler that turns KeyError into MappingError(path) (or, Enum parse, falls back to EnumInteger(obj) so unmapped integers of any size survive), ints pass Enum/FlagsEnum build unchanged, FlagsEnum refuses other types, and the decode table is built in __init__ as the inversion of the very mapping that feeds the encode table; (R5) every handler in the package that can swallow ExplicitError is preceded in the same try by `except ExplicitError: raise`, and Error._parse/_build raise ExplicitError unconditionally. R4 also: FlagsEnum._encode combines labels with bitwise or in the string and the dict form; R5 also scans every try statement of every generated template variant for the same discipline. (R6) the generated parse/build code of Const, Enum, FlagsEnum, Mapping, Check, Error, Select, Peek agrees with the interpreter methods (shared with C04.R3/R8).",
    "undecided": "That user predicates and sub-construct equality behave sensibly; exhaustive value-level agreement of Enum tables for a given mapping (follows from the inversion shape only if the mapping is injective).",
    "trusted_base": ["python ast (3.12)", "sa.summ summariser", "exception class hierarchy from the source model"],
    "assumptions": ["generated code: parse_const/parse_check polarity is checked by C04"],
}


def guard_set(p, upto=None):
    return set(p.guards(upto))


def flag_test(ctx, rule):
    # FlagsEnum decode test: a label is set exactly when ALL bits of its mask are present (what _encode ORs back in)
    fi, paths = own_method_paths(ctx, "FlagsEnum", "_decode")
    stores = [e for p in paths for e in p.events if e.kind == "STORE" and e.loops]
    good = bool(stores)
    for e in stores:
        v = N.canon_lids(e["value"])
        val = ("val", N.selfattr("flags"), 0)
        want = N.mk_cmp("==", N.mk_bin("&", OBJ, val), val)
        good = good and v == want and N.canon_lids(e["key"]) == ("new", "BitwisableString", 0, (("key", N.selfattr("flags"), 0),), ())
    ctx.ob(rule, fi, good, "FlagsEnum._decode reports a label as set exactly when obj & mask == mask, for every (name, mask) of self.flags", key="flag test")
    fi, paths = own_method_paths(ctx, "FlagsEnum", "_encode")
    ors = [e for p in paths for e in p.events if e.kind == "GETITEM" and e["base"] == N.selfattr("flags")]
    ctx.ob(rule, fi, len({id(e.node) for e in ors}) == 2, "FlagsEnum._encode ORs self.flags[name] for both the string and the dict spelling", key="flag or")


def run(ctx):
    M = ctx.model
    S = summariser(ctx)
    value = N.selfattr("value")
    subcon = N.selfattr("subcon")

    # ---------------------------------------------------------------- R1 Const
    fi, paths = own_method_paths(ctx, "Const", "_parse")
    subs = uniq_events(paths, "SUB")
    ok_sub = len(subs) == 1 and subs[0]["m"] == "_parsereport" and subs[0]["target"] == subcon and subs[0]["stream"] == STREAM
    ctx.ob("C13.R1", fi, ok_sub, "Const._parse parses the wrapped construct once from the incoming stream", key="parse sub")
    if ok_sub:
        res = subs[0]["res"]
        ne = N.mk_cmp("!=", res, value)
        eq = N.mk_cmp("==", res, value)
        rais = [p for p in paths if p.outcome[0] == "raise" and p.outcome[1].get("cls") == "ConstError"]
        rets = [p for p in paths if p.returns]
        ctx.ob("C13.R1", fi, len(rais) >= 1 and all(ne in guard_set(p) for p in rais), "ConstError is raised exactly when parsed != value", key="parse raise polarity")
        ctx.ob("C13.R1", fi, len(rets) >= 1 and all(eq in guard_set(p) and p.retval == res for p in rets), "the parsed value is returned only when it equals the constant", key="parse return polarity")
    fi, paths = own_method_paths(ctx, "Const", "_build")
    allowed = ("tuple", (N.NONE, value))
    notin = N.mk_cmp("not in", OBJ, allowed)
    isin = N.mk_cmp("in", OBJ, allowed)
    rais = [p for p in paths if p.outcome[0] == "raise" and p.outcome[1].get("cls") == "ConstError"]
    rets = [p for p in paths if p.returns]
    # whatever the spelling (`obj not in (None, value)`, nested ifs, a shared helper): the raising paths are feasible only for an object that
    # is neither None nor equal to the constant, the returning paths only for one that is
    ctx.ob("C13.R1", fi, len(rais) >= 1 and all(none_or_equal_cases(p.guards(), OBJ, value) == {(False, False)} for p in rais) and all(not p.of("SUB", "WRITE") for p in rais),
           "Const._build refuses any supplied value outside (None, value) before writing anything", key="build raise polarity")
    good = bool(rets)
    for p in rets:
        subs = p.of("SUB")
        cases = none_or_equal_cases(p.guards(), OBJ, value)
        good = good and bool(cases) and (False, False) not in cases and len(subs) == 1 and subs[0]["m"] == "_build" and subs[0]["target"] == subcon \
            and subs[0]["obj"] == value and p.retval == subs[0]["res"]
    ctx.ob("C13.R1", fi, good, "Const._build always emits the encoding of self.value (never of obj) and returns the sub-build result", key="build value")
    fi, paths = own_method_paths(ctx, "Const", "__init__")
    val, sc = ("param", "value"), ("param", "subcon")
    dflt = [p for p in paths if p.outcome[0] != "raise" and N.mk_cmp("is", sc, N.NONE) in p.guards()]
    given = [p for p in paths if p.outcome[0] != "raise" and N.mk_cmp("is not", sc, N.NONE) in p.guards()]
    def sup(p):
        s_ = [e for e in p.events if e.kind == "SUPERCALL" and e["method"] == "__init__"]
        return tuple(s_[0]["args"]) if len(s_) == 1 else None
    want = (("ctor", "Bytes", (("call", ("free", "len"), (val,), ()),), ()),)
    ok = bool(dflt) and all(sup(p) == want for p in dflt) and bool(given) and all(sup(p) == (sc,) for p in given) \
        and all(any(e.kind == "SELFWRITE" and e["attr"] == "value" and e["value"] == val for e in p.events) for p in dflt + given)
    ctx.ob("C13.R1", fi, ok, "Const(value) without a sub-construct wraps Bytes(len(value)); with one it wraps that; the constant is stored as given", key="Const init")
    bad = [p for p in paths if p.outcome[0] == "raise"]
    ctx.ob("C13.R1", fi, all(("call", ("free", "isinstance"), (val, ("free", "bytes")), ()) not in p.guards() for p in bad) and bool(bad), "a non-bytes constant without a sub-construct is refused at construction", key="Const init guard")
    ctx.floor("C13.R1", 7)

    # ---------------------------------------------------------------- R2 validators
    fi, paths = own_method_paths(ctx, "Adapter", "_parse")
    p = paths[0]
    subs = p.of("SUB")
    ok = len(paths) == 1 and len(subs) == 1 and subs[0]["m"] == "_parsereport" and subs[0]["target"] == subcon \
        and p.retval == ("selfcall", "_decode", (subs[0]["res"], CTX, PATH), ())
    ctx.ob("C13.R2", fi, ok, "Adapter._parse returns _decode(sub-parse result, context, path)", key="adapter parse")
    fi, paths = own_method_paths(ctx, "Adapter", "_build")
    p = paths[0]
    subs = p.of("SUB")
    enc = ("selfcall", "_encode", (OBJ, CTX, PATH), ())
    ok = len(paths) == 1 and len(subs) == 1 and subs[0]["m"] == "_build" and subs[0]["target"] == subcon and subs[0]["obj"] == enc
    ctx.ob("C13.R2", fi, ok, "Adapter._build builds _encode(obj, context, path) with the wrapped construct", key="adapter build")
    fi, paths = own_method_paths(ctx, "SymmetricAdapter", "_encode")
    ok = len(paths) == 1 and paths[0].retval == ("selfcall", "_decode", (OBJ, CTX, PATH), ())
    ctx.ob("C13.R2", fi, ok, "SymmetricAdapter._encode is _decode (same predicate both ways)", key="symmetric")
    fi, paths = own_method_paths(ctx, "Validator", "_decode")
    val = ("selfcall", "_validate", (OBJ, CTX, PATH), ())
    rais = [p for p in paths if p.outcome[0] == "raise"]
    rets = [p for p in paths if p.returns]
    ctx.ob("C13.R2", fi, len(rais) == 1 and rais[0].outcome[1].get("cls") == "ValidationError" and N.mk_not(val) in guard_set(rais[0]),
           "ValidationError is raised exactly when _validate(obj, context, path) is falsy", key="validator raise")
    ctx.ob("C13.R2", fi, len(rets) == 1 and val in guard_set(rets[0]) and rets[0].retval == OBJ, "a valid object is returned unchanged", key="validator return")
    ctx.ob("C13.R2", "Validator", M.is_subclass("Validator", "SymmetricAdapter") and "_encode" not in M.cls("Validator").methods,
           "Validator inherits SymmetricAdapter._encode (build validates with the same predicate)", key="validator inherits", loc=fi.loc)
    ctx.ob("C13.R2", "ExprValidator", M.is_subclass("ExprValidator", "Validator") and not ({"_decode", "_encode", "_parse", "_build"} & set(M.cls("ExprValidator").methods)),
           "ExprValidator does not override the Validator protocol", key="exprvalidator inherits", loc=fi.loc)
    fi, paths = own_method_paths(ctx, "ExprValidator", "__init__")
    w = [e for p in paths for e in p.events if e.kind == "SELFWRITE" and e["attr"] == "_validate"]
    want = ("call", ("param", "validator"), (("bv", 0), ("bv", 1)), ())
    ok = len(w) >= 1 and all(e["value"][0] == "lam" and e["value"][1] == 3 and e["value"][2] == want for e in w)
    ctx.ob("C13.R2", fi, ok, "ExprValidator installs validator(obj, ctx) as _validate", key="exprvalidator install")
    for name, op, par in (("OneOf", "in", "valids"), ("NoneOf", "not in", "invalids")):
        fi = M.function(name)
        paths = paths_of(ctx, fi)
        r = paths[0].retval if len(paths) == 1 else None
        ok = r is not None and r[0] == "ctor" and r[1] == "ExprValidator" and len(r[2]) == 2 and r[2][0] == ("param", "subcon") \
            and r[2][1][0] == "lam" and r[2][1][2] == ("cmp", op, ("bv", 0), ("param", par))
        ctx.ob("C13.R2", fi, ok, "%s is ExprValidator(subcon, obj %s %s)" % (name, op, par), key=name)
    ctx.floor("C13.R2", 10)

    # ---------------------------------------------------------------- R3 Check / StopIf
    for cls, exc in (("Check", "CheckError"), ("StopIf", "StopFieldError")):
        fp, pp = own_method_paths(ctx, cls, "_parse")
        fb, pb = own_method_paths(ctx, cls, "_build")
        sp = sorted(tuple(e.sig() for e in p.events if e.kind in ("EVAL", "ASSUME", "RAISE")) + (p.outcome[0],) for p in pp)
        sb = sorted(tuple(e.sig() for e in p.events if e.kind in ("EVAL", "ASSUME", "RAISE")) + (p.outcome[0],) for p in pb)
        # messages differ ("parsing"/"building"): compare without the exception argument terms
        def strip(sigs):
            out = []
            for s in sigs:
                row = []
                for x in s:
                    if isinstance(x, tuple) and x and x[0] == "RAISE":
                        d = dict(x[1])
                        row.append(("RAISE", d.get("cls"), d.get("path")))
                    else:
                        row.append(x)
                out.append(tuple(row))
            return out
        ctx.ob("C13.R3", fp, strip(sp) == strip(sb), "%s._parse and %s._build evaluate and test the condition identically" % (cls, cls), key="same summary")
        func = N.selfattr("func" if cls == "Check" else "condfunc")
        ev = ("eval", func, CTX)
        for f, ps in ((fp, pp), (fb, pb)):
            rais = [p for p in ps if p.outcome[0] == "raise" and p.outcome[1].get("kind") == "explicit"]
            cond = N.mk_not(ev) if cls == "Check" else ev
            ok = len(rais) == 1 and rais[0].outcome[1].get("cls") == exc and cond in guard_set(rais[0])
            ctx.ob("C13.R3", f, ok, "%s raises %s exactly when the condition is %s" % (f.qual, exc, "falsy" if cls == "Check" else "truthy"), key="polarity")
            nor = [p for p in ps if p.returns]
            ctx.ob("C13.R3", f, len(nor) == 1 and N.mk_not(cond) in guard_set(nor[0]), "%s passes otherwise" % f.qual, key="pass")
    ctx.floor("C13.R3", 10)

    # ---------------------------------------------------------------- R4 label tables
    tables = {"Enum": ("encmapping", "decmapping"), "FlagsEnum": ("flags", None), "Mapping": ("encmapping", "decmapping")}
    for cls, (enc, dec) in tables.items():
        for meth in ("_encode", "_decode"):
            fi, paths = own_method_paths(ctx, cls, meth)
            tabs = {N.selfattr(t) for t in (enc, dec) if t}
            hit = 0
            for p in paths:
                for e in p.events:
                    if e.kind == "GETITEM" and e["base"] in tabs and e.raised:
                        hit += 1
                        i = p.index(e)
                        nxt = p.events[i + 1] if i + 1 < len(p.events) else None
                        if nxt is None or nxt.kind != "CATCH":
                            # propagating path exists only if no handler is total for KeyError
                            tr = [t for t in p.events[:i] if t.kind == "TRY" and t["tid"] in e.trys]
                            covered = any(S.catches(h, "KeyError") for t in tr for h in t["handlers"])
                            if not covered:
                                ctx.ob("C13.R4", fi, False, "label lookup is not protected against KeyError", node=e.node, key="lookup unprotected")
                            continue
                        if not S.catches(nxt["types"], "KeyError"):
                            continue
                        out = p.outcome
                        if cls == "Enum" and meth == "_decode":
                            ok = p.returns and p.retval[0] == "new" and p.retval[1] == "EnumInteger" and p.retval[3] == (OBJ,)
                            ctx.ob("C13.R4", fi, ok, "Enum._decode keeps an unmapped integer as EnumInteger(obj)", node=e.node, key="fallback")
                        else:
                            ok = out[0] == "raise" and out[1].get("cls") == "MappingError" and out[1].get("path") == PATH
                            ctx.ob("C13.R4", fi, ok, "%s.%s turns an unknown label into MappingError(path)" % (cls, meth), node=e.node, key="KeyError -> MappingError")
            if (cls, meth) != ("FlagsEnum", "_decode"):
                if hit == 0:
                    ctx.ob("C13.R4", fi, False, "%s.%s: no guarded table lookup found" % (cls, meth), key="lookup missing")
    for cls in ("Enum", "FlagsEnum"):
        fi, paths = own_method_paths(ctx, cls, "_encode")
        isint = ("call", ("free", "isinstance"), (OBJ, ("free", "int")), ())
        rets = [p for p in paths if p.returns and isint in guard_set(p)]
        ctx.ob("C13.R4", fi, bool(rets) and all(p.retval == OBJ and not p.of("GETITEM") for p in rets), "%s._encode passes integers through unchanged" % cls, key="int passthrough")
    fi, paths = own_method_paths(ctx, "FlagsEnum", "_encode")
    neg = [p for p in paths if all(N.mk_not(("call", ("free", "isinstance"), (OBJ, ("free", t)), ())) in guard_set(p) for t in ("int", "str", "dict"))]
    ctx.ob("C13.R4", fi, bool(neg) and all(p.outcome[0] == "raise" and p.outcome[1].get("cls") == "MappingError" for p in neg),
           "FlagsEnum._encode refuses objects that are neither int, str nor dict", key="type refusal")
    acc = [(p, g) for p in paths if p.returns for g in p.of("GETITEM") if g["base"] == N.selfattr("flags") and not g.raised]
    ok = len(acc) >= 2 and all(p.retval[0] == "bin" and p.retval[1] == "|" and g["res"] in p.retval[2:] and any(x[0] == "lv" and x[3] == N.const(0) for x in p.retval[2:]) for p, g in acc)
    zero = [p for p in paths if p.returns and any(e.kind == "LOOPEND" and e["how"] == "zero" for e in p.events)]
    ok = ok and bool(zero) and all(p.retval == N.const(0) for p in zero)
    ctx.ob("C13.R4", fi, ok, "FlagsEnum._encode starts from 0 and combines the labels of the string form and of the dict form with bitwise or (labels that share bits, or are repeated, give the union of the bits; no label gives 0)", key="label union")
    flag_test(ctx, "C13.R4")
    from . import C12 as _C12
    for _cls in ("Enum", "FlagsEnum"):
        _C12.enum_merge(ctx, "C13.R4", _cls)          # labels taken from an enum class: canonical members only (shared with C12.R2)
    # table construction
    fi, paths = own_method_paths(ctx, "Enum", "__init__")
    w = {}
    for p in paths:
        for e in p.events:
            if e.kind == "SELFWRITE" and e["base"] == SELF:
                w.setdefault(e["attr"], set()).add(N.canon_lids(e["value"]))
    def comp_parts(t):
        if t and t[0] == "comp" and t[1] == "dict" and len(t[3]) == 1:
            t = N.canon_lids(("comp", t[1], t[3], t[2], t[4]))
            return t[3], t[2][0][0]
        return None, None
    e_elt, e_src = comp_parts(next(iter(w.get("encmapping", {None})), None) or ())
    d_elt, d_src = comp_parts(next(iter(w.get("decmapping", {None})), None) or ())
    ok = e_elt is not None and d_elt is not None and e_src == d_src and len(w["encmapping"]) == 1 and len(w["decmapping"]) == 1 \
        and e_elt[0] == "kv" and d_elt[0] == "kv" and e_elt[1] == d_elt[2] and e_elt[2] == d_elt[1]
    ctx.ob("C13.R4", fi, ok, "Enum.__init__ derives decmapping as the inversion of encmapping over the same source mapping", key="enum tables inverse")
    src_ok = e_src is not None and e_src == ("call", ("attr", ("param", "**mapping"), "items"), (), ())
    ctx.ob("C13.R4", fi, src_ok, "both tables are derived from the (merged) keyword mapping", key="enum tables source")
    fi, paths = own_method_paths(ctx, "Mapping", "__init__")
    w = {}
    for p in paths:
        for e in p.events:
            if e.kind == "SELFWRITE" and e["base"] == SELF:
                w.setdefault(e["attr"], set()).add(N.canon_lids(e["value"]))
    d_elt, d_src = comp_parts(next(iter(w.get("decmapping", {None})), None) or ())
    mp = ("param", "mapping")
    ok = w.get("encmapping") == {mp} and d_elt is not None and d_src == ("call", ("attr", mp, "items"), (), ()) \
        and d_elt[0] == "kv" and d_elt[1][0] == "val" and d_elt[2][0] == "key"
    ctx.ob("C13.R4", fi, ok, "Mapping.__init__: encmapping is the given mapping and decmapping its inversion {v: k}", key="mapping tables inverse")
    ctx.floor("C13.R4", 15)

    # ---------------------------------------------------------------- R5 ExplicitError never swallowed
    n5 = check_swallow(ctx, M, S)
    from . import C01
    C01.buildnone_flags(ctx, "C13.R5", only={"Error", "Check", "StopIf"})      # an unsupplied Error/Check member is reached inside Struct (not pre-empted by a KeyError)
    nt = check_template_swallow(ctx, M, S)
    ctx.floor("C13.R5", 11)
    # ---------------------------------------------------------------- R6 the compiled forms of the validating / mapping classes (shared with C04.R3)
    from . import C04
    C04.shared_obligations(ctx, "C13.R6", {"Const", "Enum", "FlagsEnum", "Mapping", "Check", "Error", "Select", "Peek", "Flag"}, with_expressions=True)
    ctx.floor("C13.R6", 10)
    for meth in ("_parse", "_build"):
        fi, paths = own_method_paths(ctx, "Error", meth)
        ok = len(paths) == 1 and paths[0].outcome[0] == "raise" and paths[0].outcome[1].get("cls") == "ExplicitError" and not paths[0].of("ASSUME")
        ctx.ob("C13.R5", fi, ok, "Error.%s raises ExplicitError unconditionally" % meth, key="unconditional")

    # positive control
    from ..core import Ctx
    ctl = control_model(
        "class ConstructError(Exception):\n    pass\nclass ExplicitError(ConstructError):\n    pass\n"
        "class Construct(object):\n    pass\n"
        "class X(Construct):\n"
        "    def _parse(self, stream, context, path):\n"
        "        try:\n            return self.subcon._parsereport(stream, context, path)\n"
        "        except Exception:\n            pass\n"
        "        except ExplicitError:\n            raise\n")
    c2 = Ctx("C13", ctx.tier, ctl.root, model=ctl)
    check_swallow(c2, ctl, summariser(c2))
    ctx.control("C13.R5", any(not o.ok for o in c2.obligations))


def handler_types(h):
    if h.type is None:
        return ("*",)
    return tuple(ast.unparse(x).split(".")[-1] for x in (h.type.elts if isinstance(h.type, ast.Tuple) else [h.type]))


def try_swallow_ok(S, node):
    """A try statement of generated code: every handler that can catch ExplicitError and does not re-raise is preceded by `except ExplicitError: raise`."""
    protected = False
    for h in node.handlers:
        ts = handler_types(h)
        reraises = bool(h.body) and isinstance(h.body[-1], ast.Raise) and h.body[-1].exc is None
        if ts == ("ExplicitError",) and reraises and len(h.body) == 1:
            protected = True
            continue
        if S.catches(ts, "ExplicitError") is not False and not reraises and not protected:
            return False
    return True


def check_template_swallow(ctx, M, S, rule="C13.R5"):
    """The same discipline in the code the compiler generates: every try statement in every template variant of every emitter."""
    from ..tmpl import TemplateEvaluator, render_variants, emitters
    T = TemplateEvaluator(M)
    n = 0
    for fi, owner in emitters(M):
        verdict = {}
        for em in T.evaluate(fi):
            if em.not_implemented:
                continue
            for r in render_variants(em):
                for text in list(r.text_blocks) + [r.text_ret or ""]:
                    if "try" not in text:
                        continue
                    try:
                        tree = ast.parse(text)
                    except SyntaxError:
                        continue        # C04.R0 reports unparseable templates
                    for node in ast.walk(tree):
                        if isinstance(node, ast.Try) and any(S.catches(handler_types(h), "ExplicitError") is not False for h in node.handlers):
                            key = "generated try " + "/".join("+".join(handler_types(h)) for h in node.handlers)
                            verdict[key] = verdict.get(key, True) and try_swallow_ok(S, node)
        for key, ok in verdict.items():
            n += 1
            ctx.ob(rule, fi, ok, "generated code: a handler that can swallow ExplicitError is preceded by `except ExplicitError: raise`", key=key)
    return n


def check_swallow(ctx, M, S, rule="C13.R5"):
    """Every try whose handler can catch ExplicitError and then continues normally must re-raise it first."""
    n = 0
    for fi in M.all_functions():
        if fi.relpath.endswith("debug.py"):
            continue
        if not any(isinstance(x, ast.Try) for x in ast.walk(fi.node)):
            continue
        if fi.cls is not None and not M.is_subclass(fi.cls.name, "Construct"):
            continue
        paths = paths_of(ctx, fi, fi.cls.name if fi.cls else None)
        verdict = {}
        for p in paths:
            for i, e in enumerate(p.events):
                if e.kind != "CATCH" or e.depth:
                    continue
                if S.catches(e["types"], "ExplicitError") is not True:
                    continue
                # what can this try body raise?  only tries around a sub-construct call / callback matter
                tr = next((t for t in p.events[:i] if t.kind == "TRY" and t["tid"] == e["tid"]), None)
                prev = p.events[i - 1] if i else None
                if prev is None or not prev.raised or prev.kind not in ("SUB", "SELFCALL"):
                    continue
                swallowed = any(x.kind == "ENDCATCH" and x["tid"] == e["tid"] and x["handler"] == e["handler"] for x in p.events[i + 1:])
                hs = tr["handlers"] if tr else ()
                earlier = hs[:e["handler"]]
                protected = any(h == ("ExplicitError",) for h in earlier)
                key = id(e.node)
                cur = verdict.get(key, (True, e))
                if e["types"] == ("ExplicitError",):
                    ok = not swallowed
                else:
                    ok = (not swallowed) or protected
                verdict[key] = (cur[0] and ok, e)
        for ok, e in verdict.values():
            n += 1
            ctx.ob(rule, fi, ok, "a handler that can swallow ExplicitError is preceded by `except ExplicitError: raise`", node=e.node,
                   key="handler %s" % "/".join(e["types"]))
        # a return / break / continue inside `finally:` discards whatever exception is in flight, ExplicitError included
        for t in ast.walk(fi.node):
            if isinstance(t, ast.Try) and t.finalbody:
                jumps = [x for st in t.finalbody for x in ast.walk(st) if isinstance(x, (ast.Return, ast.Break, ast.Continue))]
                n += 1
                ctx.ob(rule, fi, not jumps, "the finally block does not return/break/continue (that would discard an ExplicitError in flight)", node=t, key="finally jumps")
    return n
