"""C03 -- encodings match an independent executable specification of each wire format."""
import ast
import re

from .. import norm as N
from ..pos import Trace, P0
from ..tables import STRUCT_CODES, STRUCT_ORDER, SHORTHANDS, BIT_NAMES, INT_CODE, FLOAT_CODE, CODEC_UNITS
from .common import *

META = {
    "level": "other",
    "explanation": "Table and formula agreement against independent specification tables (sa/tables.py, each entry citing its source): (R1) each of the 49 public numeric names (Int8..64 u/s b/l/n, Int24*, Float16/32/64 b/l/n, Byte/Short/Int/Long/Half/Single/Double, Bit/Nibble/Octet) is bound to exactly the constructor term its name implies -- FormatField(order, code) per the struct format table, BytesInteger(3, signed, swapped in {False, True, native}) with native = (sys.byteorder == 'little'), BitsInteger(n) -- and is exported in __all__; (R2) the encoding-unit table equals the Unicode code-unit widths, encodingunit returns that many zero bytes, and CString/PaddedString/PascalString/GreedyString wrap exactly the documented delimiter constructs with that unit as terminator/pad and the caller's encoding; (R3) Struct/Sequence/FocusedSeq/Array touch the stream only through their members, in declaration order (with C01.R6); (R4) rejection guards exist with the right polarity: non-integers and negative VarInts are IntegerError, integer2bits has the two's-complement range check, integer2bytes delegates the range check to int.to_bytes(signed=signed) and converts OverflowError; (R5) pad/length formulas equal the reference normal forms: Padded pad = length - consumed with pad < 0 rejected, Aligned pad = (-consumed) mod modulus, Prefixed writes len(payload) [+ sizeof(lengthfield) iff includelength] into the length field, on both code paths; (R7) LEB128 canonicality and byte ranges of VarInt._build by interval analysis. R5 also carries NullTerminated's parse-side terminator rules (shared with C08.R2); R7 runs in both tiers. (R8) the generated code of the core-fragment classes agrees with the interpreter methods the other rules compare with the reference (shared with C04.R3/R7). R3 also: a + b / a >> b concatenate member lists without touching the operands (shared with C12.R1); (R9) label tables of Enum/FlagsEnum/Mapping (shared with C13.R4).",
    "undecided": "Numerical semantics: two's-complement arithmetic inside the helpers, IEEE-754 (delegated to struct), ZigZag algebra, consumed-byte counts on arbitrary byte strings.",
    "trusted_base": ["python ast (3.12)", "sa/tables.py (struct format characters, Unicode code units)", "sa.summ / sa.pos"],
    "assumptions": ["the struct module implements its documented format characters"],
}


def const_call(call, sig_names, defaults):
    """Evaluate a constructor ast.Call with literal / Name arguments into {param: ast-dump or value}."""
    out = dict(defaults)
    for n, a in zip(sig_names, call.args):
        out[n] = a
    for k in call.keywords:
        out[k.arg] = k.value
    res = {}
    for k, v in out.items():
        if isinstance(v, ast.AST):
            try:
                res[k] = ast.literal_eval(v)
            except Exception:
                res[k] = ("name", ast.unparse(v))
        else:
            res[k] = v
    return res


def fold(node, env=None):
    """Constant folding of literal expressions: constants, tuples/lists, % formatting, comprehensions over literal
    iterables.  Anything else raises ValueError (no repository code is executed)."""
    env = env or {}
    if isinstance(node, ast.Constant):
        return node.value
    if isinstance(node, (ast.Tuple, ast.List)):
        return [fold(e, env) for e in node.elts] if isinstance(node, ast.List) else tuple(fold(e, env) for e in node.elts)
    if isinstance(node, ast.Name) and node.id in env:
        return env[node.id]
    if isinstance(node, ast.BinOp) and isinstance(node.op, ast.Mod):
        return fold(node.left, env) % fold(node.right, env)
    if isinstance(node, ast.BinOp) and isinstance(node.op, ast.Add):
        return fold(node.left, env) + fold(node.right, env)
    if isinstance(node, ast.ListComp):
        out = []
        def rec(i, e):
            if i == len(node.generators):
                out.append(fold(node.elt, e))
                return
            g = node.generators[i]
            if g.ifs or not isinstance(g.target, ast.Name):
                raise ValueError("unsupported comprehension")
            for v in fold(g.iter, e):
                rec(i + 1, dict(e, **{g.target.id: v}))
        rec(0, env)
        return out
    raise ValueError("not a literal expression: %s" % ast.dump(node)[:80])


def exported_names(tree):
    names = []
    for st in tree.body:
        if isinstance(st, ast.Assign) and any(isinstance(t, ast.Name) and t.id == "__all__" for t in st.targets):
            names = list(fold(st.value))
        elif isinstance(st, ast.AugAssign) and isinstance(st.target, ast.Name) and st.target.id == "__all__" and isinstance(st.op, ast.Add):
            names += list(fold(st.value))
    return set(names)


def native_check(ctx, rule):
    M = ctx.model
    native = M.module_assigns[M.CORE].get("native")
    ok = isinstance(native, ast.Compare) and len(native.ops) == 1 and isinstance(native.ops[0], ast.Eq) and \
        sorted(ast.unparse(x) for x in (native.left, native.comparators[0])) == ["'little'", "sys.byteorder"]
    ctx.ob(rule, "native", ok, "native means little-endian host: native = (sys.byteorder == 'little'), so Int24*n follow the struct-based Int*n aliases", key="native",
           loc="%s:%d" % (M.CORE, native.lineno) if native is not None else M.CORE)


def helper_range_checks(ctx, rule):
    """Range/conversion discipline of the integer helpers: both representations accept exactly the two's-complement range."""
    M = ctx.model
    fi = M.function("integer2bits")
    paths = paths_of(ctx, fi)
    number, width = ("param", "number"), ("param", "width")
    half = ("bin", "//", ("bin", "**", N.const(2), width), N.const(2))
    smin, smax = N.mk_neg(half), N.mk_add(half, N.const(1), -1)
    umax = N.mk_add(("bin", "**", N.const(2), width), N.const(1), -1)
    sgn = ("param", "signed")
    want_s = N.mk_not(N.mk_bool("and", [N.mk_cmp("<=", smin, number), N.mk_cmp("<=", number, smax)]))
    want_u = N.mk_not(N.mk_bool("and", [N.mk_cmp("<=", N.const(0), number), N.mk_cmp("<=", number, umax)]))
    rs = [p for p in paths if p.outcome[0] == "raise" and sgn in p.guards() and p.guards()[-1] == want_s]
    ru = [p for p in paths if p.outcome[0] == "raise" and N.mk_not(sgn) in p.guards() and p.guards()[-1] == want_u]
    ctx.ob(rule, fi, len(rs) == 1 and rs[0].outcome[1].get("cls") == "ValueError", "integer2bits rejects signed values outside [-(2**w // 2), 2**w // 2 - 1]", key="integer2bits signed range")
    ctx.ob(rule, fi, len(ru) == 1 and ru[0].outcome[1].get("cls") == "ValueError", "integer2bits rejects unsigned values outside [0, 2**w - 1]", key="integer2bits unsigned range")
    ok_rets = [p for p in paths if p.returns]
    ctx.ob(rule, fi, bool(ok_rets) and all((N.mk_not(want_s) in p.guards()) or (N.mk_not(want_u) in p.guards()) for p in ok_rets), "integer2bits returns only for in-range values", key="integer2bits returns in range")
    fi = M.function("integer2bytes")
    paths = paths_of(ctx, fi)
    calls = [e for p in paths for e in p.events if e.kind == "CALL" and e["func"] == ("attr", ("free", "int"), "to_bytes")]
    ok = bool(calls) and all(e["args"][:3] == (number, width, N.const("big")) and dict(e["kw"]).get("signed") == sgn for e in calls)
    ctx.ob(rule, fi, ok, "integer2bytes is int.to_bytes(number, width, 'big', signed=signed) (range check delegated to the interpreter)", key="integer2bytes conversion")
    conv = [p for p in paths if any(e.kind == "CATCH" and "OverflowError" in e["types"] for e in p.events)]
    ctx.ob(rule, fi, bool(conv) and all(p.outcome[0] == "raise" and p.outcome[1].get("cls") == "ValueError" for p in conv), "an out-of-range value becomes ValueError (then IntegerError in the construct)", key="integer2bytes overflow")
    fi = M.function("bytes2integer")
    paths = paths_of(ctx, fi)
    rets = [p for p in paths if p.returns]
    ok = len(rets) == 1 and rets[0].retval[0] == "call" and rets[0].retval[1] == ("attr", ("free", "int"), "from_bytes") and rets[0].retval[2] == (("param", "data"), N.const("big")) \
        and dict(rets[0].retval[3]).get("signed") == sgn
    ctx.ob(rule, fi, ok, "bytes2integer is int.from_bytes(data, 'big', signed=signed)", key="bytes2integer conversion")


def macro_param_flow(ctx, rule):
    """Every parameter of a factory function (macro) reaches the construct it returns -- through the constructor term, an attribute set on the
    result, or a closure patched onto it.  A parameter that is only validated and then dropped (e.g. a padding pattern) silently changes the format."""
    M = ctx.model
    n = 0
    for name, mf in sorted(M.macros().items()):
        ps = [p for p in paths_of(ctx, mf) if p.returns]
        a = mf.node.args
        params = [x.arg for x in a.posonlyargs + a.args + a.kwonlyargs] + ([a.vararg.arg] if a.vararg else []) + ([a.kwarg.arg] if a.kwarg else [])
        cl_names = {nd.id for cl in M.closures(mf) for nd in ast.walk(cl.node) if isinstance(nd, ast.Name)}
        for prm in params:
            is_p = lambda x: x[0] == "param" and x[1].lstrip("*") == prm
            in_ret = any(any(is_p(x) for x in N.walk(p.retval or ())) for p in ps)
            in_attr = any(e.kind in ("SETATTR", "ATTRSET") and any(isinstance(v, tuple) and any(is_p(x) for x in N.walk(v)) for v in e.a.values()) for p in ps for e in p.events)
            n += 1
            ctx.ob(rule, mf, bool(ps) and (in_ret or in_attr or prm in cl_names), "%s(..., %s, ...): the parameter reaches the construct the macro returns" % (name, prm), key="%s param %s" % (name, prm))
    return n


def ctor_with_defaults(M, t):
    """Constructor term with every parameter spelled out: positional arguments named, omitted ones filled from the __init__ defaults."""
    if not (isinstance(t, tuple) and t and t[0] == "ctor"):
        return t
    cls, args, kw = t[1], t[2], dict(t[3])
    args = tuple(ctor_with_defaults(M, a) for a in args)
    kw = {k: ctor_with_defaults(M, v) for k, v in kw.items()}
    try:
        sig = M.init_signature(cls)
    except Exception:
        sig = None
    if sig is None:
        return ("ctor", cls, args, tuple(sorted(kw.items())))
    names = [a.arg for a in sig.args][1:]
    full = dict(zip(names, args))
    full.update(kw)
    for nm, dv in zip(reversed(names), reversed(sig.defaults)):
        if nm not in full:
            try:
                full[nm] = N.const(ast.literal_eval(dv))
            except Exception:
                full[nm] = ("free", ast.unparse(dv))
    return ("ctor", cls, (), tuple(sorted(full.items())))


def string_macro_expansions(ctx, rule):
    """CString / PaddedString / PascalString / GreedyString wrap exactly the documented delimiter constructs (compared with all constructor
    parameters spelled out, so an explicit default is neutral and a changed flag -- e.g. require=False -- is not)."""
    M = ctx.model
    enc = ("param", "encoding")
    unit = ("call", ("free", "encodingunit"), (enc,), ())
    GB = ("free", "GreedyBytes")
    wants = {
        "CString": ("ctor", "StringEncoded", (("ctor", "NullTerminated", (GB,), (("term", unit),)), enc), ()),
        "PaddedString": ("ctor", "StringEncoded", (("ctor", "FixedSized", (("param", "length"), ("ctor", "NullStripped", (GB,), (("pad", unit),))), ()), enc), ()),
        "PascalString": ("ctor", "StringEncoded", (("ctor", "Prefixed", (("param", "lengthfield"), GB), ()), enc), ()),
        "GreedyString": ("ctor", "StringEncoded", (GB, enc), ()),
    }
    for name, want in wants.items():
        fi = M.function(name)
        paths = paths_of(ctx, fi)
        w = ctor_with_defaults(M, want)
        ok = all(ctor_with_defaults(M, p.retval) == w for p in paths if p.returns) and any(p.returns for p in paths)
        ctx.ob(rule, fi, ok, "%s expands to %s" % (name, N.show(want)), key="%s expansion" % name)


def unit_table_check(ctx, rule):
    """possiblestringencodings gives every supported encoding its code-unit width (the width of the terminator CString looks for)."""
    M = ctx.model
    tab = M.module_assigns[M.CORE].get("possiblestringencodings")
    if tab is None:
        raise AnalysisError("anchor vanished: possiblestringencodings")
    got = None
    if isinstance(tab, ast.Call) and isinstance(tab.func, ast.Name) and tab.func.id == "dict":
        got = {k.arg: ast.literal_eval(k.value) for k in tab.keywords}
    elif isinstance(tab, ast.Dict):
        got = ast.literal_eval(tab)
    ctx.ob(rule, "possiblestringencodings", got is not None and all(k in CODEC_UNITS and CODEC_UNITS[k] == v for k, v in got.items()) and len(got) >= 10,
           "every supported encoding has its Unicode code-unit width (found %s)" % got, key="unit table", loc="%s:%d" % (M.CORE, tab.lineno))



def pad_content(ctx, rule):
    """What Padded / Aligned write as padding is the construct's own pattern, repeated once per pad byte (Padding(n, pattern) is the documented
    filler of byte- and bit-level layouts; a default pattern written instead of self.pattern changes every padded format with a custom one)."""
    pat = N.selfattr("pattern")
    for cls in ("Padded", "Aligned"):
        fi, paths = own_method_paths(ctx, cls, "_build")
        rets = [p for p in paths if p.returns]
        good = bool(rets)
        for p in rets:
            w = [e for e in p.events if e.kind == "WRITE" and e["stream"] == STREAM]
            good = good and len(w) == 1 and w[0]["data"] is not None and w[0]["data"][0] == "mul" and pat in w[0]["data"][1:] and w[0]["length"] in w[0]["data"][1:]
        ctx.ob(rule, fi, good, "%s._build writes self.pattern repeated exactly pad times" % cls, key="%s pad content" % cls)

def numeric_names(ctx, rule):
    """The 49 public numeric names are bound to the constructor terms their names imply, and exported."""
    M = ctx.model
    core = M.modules[M.CORE]
    sing = M.singletons()
    fi_dummy = FuncInfo(core, M.CORE, qual="construct.core")
    init_rel = [r for r in M.modules if r.endswith("construct/__init__.py") or r == "construct/__init__.py"][0]
    try:
        exported = exported_names(M.modules[init_rel])
    except ValueError as e:
        raise AnalysisError("cannot fold construct.__all__: %s" % e)
    native = M.module_assigns[M.CORE].get("native")
    native_ok = native is not None and ast.unparse(native) in ("sys.byteorder == 'little'", "(sys.byteorder == 'little')")

    def loc_of(name):
        for st in core.body:
            if isinstance(st, (ast.FunctionDef, ast.ClassDef)) and st.name == name:
                return "%s:%d" % (M.CORE, st.lineno)
            if isinstance(st, ast.Assign) and any(isinstance(t, ast.Name) and t.id == name for t in st.targets):
                return "%s:%d" % (M.CORE, st.lineno)
        return M.CORE

    def resolved(name):
        r = M.singleton_ctor(name, sing)
        return r

    n = 0
    expected = {}
    for bits in (8, 16, 32, 64):
        for s in "us":
            for o in "bln":
                expected["Int%d%s%s" % (bits, s, o)] = ("FormatField", {"endianity": STRUCT_ORDER[o], "format": INT_CODE[(bits, s == "s")]})
    for s in "us":
        for o, sw in (("b", False), ("l", True), ("n", ("name", "native"))):
            expected["Int24%s%s" % (s, o)] = ("BytesInteger", {"length": 3, "signed": s == "s", "swapped": sw})
    for bits in (16, 32, 64):
        for o in "bln":
            expected["Float%d%s" % (bits, o)] = ("FormatField", {"endianity": STRUCT_ORDER[o], "format": FLOAT_CODE[bits]})
    for nm, k in BIT_NAMES.items():
        expected[nm] = ("BitsInteger", {"length": k, "signed": False, "swapped": False})
    sigs = {"FormatField": (["endianity", "format"], {}), "BytesInteger": (["length", "signed", "swapped"], {"signed": False, "swapped": False}),
            "BitsInteger": (["length", "signed", "swapped"], {"signed": False, "swapped": False})}
    # signatures are read from the tree, not assumed
    for cls, (names, dfl) in list(sigs.items()):
        a = M.init_signature(cls)
        got = [x.arg for x in a.args][1:]
        d = {}
        for x, dv in zip(reversed(got), reversed(a.defaults)):
            try:
                d[x] = ast.literal_eval(dv)
            except Exception:
                d[x] = ("name", ast.unparse(dv))
        sigs[cls] = (got, d)
    for name, (cls, want) in sorted(expected.items()):
        n += 1
        r = resolved(name)
        ok = r is not None and r[0] == "ctor" and isinstance(r[1].func, ast.Name) and r[1].func.id == cls
        got = None
        if ok:
            got = const_call(r[1], *sigs[cls])
            ok = got == want
        ctx.ob(rule, name, ok, "%s is %s(%s) (found %s)" % (name, cls, want, got), key="%s binding" % name, loc=loc_of(name))
        ctx.ob(rule, name, name in exported, "%s is exported by construct.__all__" % name, key="%s exported" % name, loc=init_rel)
    for alias, target in SHORTHANDS.items():
        n += 1
        r = sing.get(alias)
        ctx.ob(rule, alias, r == ("alias", target), "%s is an alias of %s" % (alias, target), key="%s alias" % alias, loc=loc_of(alias))
        ctx.ob(rule, alias, alias in exported, "%s is exported by construct.__all__" % alias, key="%s exported" % alias, loc=init_rel)
    native_check(ctx, rule)
    ctx.extra["public_numeric_names"] = n
    if n < 49:
        ctx.error(rule + " enumerated %d names, floor 49" % n)
    return n


def run(ctx):
    M = ctx.model
    core = M.modules[M.CORE]
    sing = M.singletons()
    fi_dummy = FuncInfo(core, M.CORE, qual="construct.core")
    numeric_names(ctx, "C03.R1")
    ctx.floor("C03.R1", 99)
    # FormatField consumes its two arguments as order + code
    fi, paths = own_method_paths(ctx, "FormatField", "__init__")
    w = {e["attr"]: e["value"] for p in paths for e in p.events if e.kind == "SELFWRITE"}
    ok = w.get("fmtstr") in (("uconcat", ("param", "endianity"), ("param", "format")), ("concat", ("param", "endianity"), ("param", "format")))
    ctx.ob("C03.R1", fi, ok, "FormatField's struct format is byte-order character followed by the format code", key="fmtstr")
    allowed = [p for p in paths if p.outcome[0] == "raise"]
    ctx.ob("C03.R1", fi, len(allowed) >= 2, "FormatField rejects unknown byte-order characters and format codes at construction", key="fmt validation")

    # ---------------------------------------------------------------- R2
    unit_table_check(ctx, "C03.R2")
    macro_param_flow(ctx, "C03.R2")
    fi = M.function("encodingunit")
    paths = paths_of(ctx, fi)
    rets = [p for p in paths if p.returns]
    def table_entry(t):
        # the unit size looked up in the table: possiblestringencodings[name] or .get(name) (a miss is refused before the value is used)
        return (t[0] == "sub" and t[1] == ("free", "possiblestringencodings")) or \
            (t[0] == "call" and t[1] == ("attr", ("free", "possiblestringencodings"), "get") and len(t[2]) == 1)
    def zeros(t):
        # that many zero bytes: bytes(n) or b"\x00" * n
        if t[0] == "call" and t[1] == ("free", "bytes") and len(t[2]) == 1 and not t[3]:
            return t[2][0]
        if t[0] == "mul" and N.const(b"\x00") in t[1:3]:
            return t[2] if t[1] == N.const(b"\x00") else t[1]
        if t[0] == "bin" and t[1] == "*" and N.const(b"\x00") in t[2:4]:
            return t[3] if t[2] == N.const(b"\x00") else t[2]
        return None
    ok = len(rets) == 1 and zeros(rets[0].retval) is not None and table_entry(zeros(rets[0].retval))
    ctx.ob("C03.R2", fi, ok, "encodingunit returns bytes(unit): that many zero bytes", key="encodingunit")
    rais = [p for p in paths if p.outcome[0] == "raise"]
    ctx.ob("C03.R2", fi, len(rais) == 1 and rais[0].outcome[1].get("cls") == "StringError", "an unsupported encoding is a StringError", key="encodingunit reject")
    string_macro_expansions(ctx, "C03.R2")
    ctx.floor("C03.R2", 7)

    # ---------------------------------------------------------------- R3
    for cls in ("Struct", "Sequence", "FocusedSeq", "Array"):
        for meth in ("_parse", "_build"):
            fi, paths = method_paths(ctx, cls, meth)
            bad = [e for p in paths for e in p.events if e.loops and e.kind in ("READ", "WRITE", "SEEK", "READALL", "RAWIO", "TELL") and e.a.get("stream") == STREAM]
            subs = [e for p in paths for e in p.events if e.loops and e.kind == "SUB" and e.a.get("stream") == STREAM]
            ctx.ob("C03.R3", fi, not bad and bool(subs), "%s.%s touches the stream only through its members (plain concatenation)" % (cls, meth), key="%s %s concat" % (cls, meth))
    # the member list itself is in declaration order: positional members first, then keyword members in the order given
    for cls in ("Struct", "Sequence", "FocusedSeq", "Union", "LazyStruct"):
        fi, paths = own_method_paths(ctx, cls, "__init__")
        w = {N.canon_lids(e["value"]) for p in paths for e in p.events if e.kind == "SELFWRITE" and e["attr"] == "subcons"}
        sc, kw = ("param", "*subcons"), ("param", "**subconskw")
        lst = lambda x: ("call", ("free", "list"), (x,), ())
        named = ("comp", "gen", ("bin", "/", ("key", kw, 0), ("val", kw, 0)), ((("call", ("attr", kw, "items"), (), ()), ()),), (0,))
        named_l = ("comp", "list", named[2], named[3], named[4])
        ok = len(w) == 1 and next(iter(w)) in (("concat", lst(sc), lst(named)), ("concat", lst(sc), named_l))
        ctx.ob("C03.R3", fi, ok, "%s keeps its members as list(positional) + [name/member for name, member in keywords]: declaration order" % cls, key="%s member list" % cls)
    # composites written with operators: a + b / a >> b concatenate the member lists in operand order and leave the operands alone (shared with C12.R1)
    from . import C12 as _C12
    _C12.composite_operators(ctx, "C03.R3")
    ctx.floor("C03.R3", 17)
    # label mappings: the table rules of Enum / FlagsEnum / Mapping (shared with C13.R4)
    from ..core import Ctx as _Ctx13
    from . import C13 as _C13
    sub13 = _Ctx13("C13", ctx.tier, ctx.root, model=ctx.model)
    sub13._summ = summariser(ctx)
    _C13.run(sub13)
    for e in sub13.errors:
        ctx.error("shared C13 rules: " + e)
    n13 = 0
    for o in sub13.obligations:
        if o.rule == "C13.R4":
            n13 += 1
            ctx.ob("C03.R9", o.where, o.ok, o.what, key=o.key, loc=o.loc, detail=o.detail)
    ctx.floor("C03.R9", 10)

    # ---------------------------------------------------------------- R4
    isint = ("call", ("free", "isinstance"), (OBJ, ("free", "int")), ())
    for cls in ("BytesInteger", "BitsInteger", "VarInt", "ZigZag"):
        fi, paths = own_method_paths(ctx, cls, "_build")
        bad = [p for p in paths if N.mk_not(isint) in p.guards()]
        ok = bool(bad) and all(p.outcome[0] == "raise" and p.outcome[1].get("cls") == "IntegerError" and not p.of("WRITE", "SUB") for p in bad) \
            and all(isint in p.guards() for p in paths if p.returns)
        ctx.ob("C03.R4", fi, ok, "%s._build rejects non-integers with IntegerError before writing" % cls, key="%s non-int" % cls)
    fi, paths = own_method_paths(ctx, "VarInt", "_build")
    neg = N.mk_cmp("<", OBJ, N.const(0))
    bad = [p for p in paths if neg in p.guards()]
    ok = bool(bad) and all(p.outcome[0] == "raise" and p.outcome[1].get("cls") == "IntegerError" for p in bad) and all(N.mk_not(neg) in p.guards() for p in paths if p.returns)
    ctx.ob("C03.R4", fi, ok, "VarInt._build rejects negative numbers with IntegerError", key="VarInt negative")
    helper_range_checks(ctx, "C03.R4")
    cnt = ("eval", N.selfattr("count"), CTX)
    for cls in ("Array", "LazyArray"):
        for meth in ("_parse", "_build"):
            fi, paths = own_method_paths(ctx, cls, meth)
            bad = [p for p in paths if N.mk_cmp("<", cnt, N.const(0)) in p.guards()]
            ok = bool(bad) and all(p.outcome[0] == "raise" and p.outcome[1].get("cls") == "RangeError" and not p.of("SUB", "READ", "WRITE") for p in bad) \
                and all(N.mk_cmp(">=", cnt, N.const(0)) in p.guards() for p in paths if p.returns)
            ctx.ob("C03.R4", fi, ok, "%s.%s rejects a negative count with RangeError before touching the stream" % (cls, meth), key="%s %s negative count" % (cls, meth))
    # values the reference rejects are rejected *as ConstructErrors* on the build side of the numeric classes: every foreign raiser
    # (struct.pack: struct.error and, for floats too large for e/f, OverflowError; the range ValueError of the integer helpers) is translated
    from . import C06
    esc = C06.escaping(ctx, summariser(ctx))
    for cls in ("FormatField", "BytesInteger", "BitsInteger", "VarInt", "ZigZag"):
        fi = M.method(cls, "_build")
        C06.check_foreign(ctx, fi, cls, esc, rule="C03.R4")
    ctx.floor("C03.R4", 18)
    # ---------------------------------------------------------------- R6 label tables (shared with C13.R4)
    from . import C13
    C13.flag_test(ctx, "C03.R6")
    ctx.floor("C03.R6", 2)

    # ---------------------------------------------------------------- R5
    length = ("eval", N.selfattr("length"), CTX)
    modulus = ("eval", N.selfattr("modulus"), CTX)
    for meth, kind in (("_parse", "READ"), ("_build", "WRITE")):
        fi, paths = own_method_paths(ctx, "Padded", meth)
        rets = [p for p in paths if p.returns]
        good = bool(rets)
        for p in rets:
            t = Trace(p, STREAM)
            D = next(iter(t.deltas), None)
            io_ = [e for e in p.events if e.kind == kind and e["stream"] == STREAM]
            good = good and D is not None and len(io_) == 1 and t.val(io_[0]["length"]) == N.mk_add(length, D, -1)
            good = good and N.mk_cmp(">=", io_[0]["length"], N.const(0)) in p.guards() if io_ else False
        ctx.ob("C03.R5", fi, good, "Padded.%s pads with length - consumed bytes" % meth, key="Padded %s pad" % meth)
        neg = [p for p in paths if p.outcome[0] == "raise" and p.outcome[1].get("cls") == "PaddingError" and p.of("SUB")]
        ctx.ob("C03.R5", fi, bool(neg) and all(any(c[0] == "cmp" and c[1] == "<" and c[3] == N.const(0) for c in p.guards()) for p in neg), "Padded.%s rejects an inner construct that exceeds the length" % meth, key="Padded %s overflow" % meth)
        fi, paths = own_method_paths(ctx, "Aligned", meth)
        rets = [p for p in paths if p.returns]
        good = bool(rets)
        for p in rets:
            t = Trace(p, STREAM)
            D = next(iter(t.deltas), None)
            io_ = [e for e in p.events if e.kind == kind and e["stream"] == STREAM]
            good = good and D is not None and len(io_) == 1 and t.val(io_[0]["length"]) == N.mk_mod(N.mk_neg(D), modulus)
        ctx.ob("C03.R5", fi, good, "Aligned.%s pads with (-consumed) mod modulus bytes" % meth, key="Aligned %s pad" % meth)
    pad_content(ctx, "C03.R5")
    # the transforming wrappers consume exactly the amount they declare (an amount of 0 reads nothing; only None reads to the end), shared with C10.R6
    from . import C10 as _C10
    _C10.machinery(ctx, "C03.R5")
    fi, paths = own_method_paths(ctx, "Prefixed", "_build")
    lf = N.selfattr("lengthfield")
    inc = N.selfattr("includelength")
    good = True
    n = 0
    for p in paths:
        if not p.returns:
            continue
        n += 1
        sb = [e for e in p.events if e.kind == "SUB" and e["target"] == lf and e["m"] == "_build"]
        inner = [e for e in p.events if e.kind == "SUB" and e["target"] == N.selfattr("subcon") and e["m"] == "_build"]
        good = good and len(sb) == 1 and len(inner) == 1
        if not good:
            break
        payload = ("call", ("free", "len"), (("getvalue", inner[0]["stream"]),), ())
        if inc in p.guards():
            sz = [e for e in p.events if e.kind == "SUB" and e["target"] == lf and e["m"] == "_sizeof"]
            good = good and len(sz) == 1 and sb[0]["obj"] == N.mk_add(payload, sz[0]["res"])
        else:
            good = good and N.mk_not(inc) in p.guards() and sb[0]["obj"] == payload
        wr = [e for e in p.events if e.kind == "WRITE" and e["stream"] == STREAM]
        good = good and len(wr) == 1 and wr[0]["data"] == ("getvalue", inner[0]["stream"]) and p.index(sb[0]) < p.index(wr[0]) and sb[0]["stream"] == STREAM
    ctx.ob("C03.R5", fi, good and n == 2, "Prefixed._build writes len(payload) (+ sizeof(lengthfield) iff includelength) into the length field, then the payload", key="Prefixed length")
    # terminator rules on the parse side: unit-wide reads, include/consume/require (shared with C08.R2)
    from . import C08
    fi, paths = own_method_paths(ctx, "NullTerminated", "_parse")
    C08.null_terminated(ctx, fi, paths, "C03.R5")
    fi, paths = own_method_paths(ctx, "NullStripped", "_parse")
    C08.null_stripped(ctx, fi, paths, "C03.R5")       # only bytes compared equal to the pad are stripped (multi-byte pads included)
    fi, paths = own_method_paths(ctx, "NullTerminated", "_build")
    ok = len(paths) == 1
    if ok:
        p = paths[0]
        sb = p.of("SUB")
        wr = p.of("WRITE")
        ok = len(sb) == 1 and len(wr) == 1 and sb[0]["stream"] == STREAM and wr[0]["data"] == N.selfattr("term") and p.index(sb[0]) < p.index(wr[0])
    ctx.ob("C03.R5", fi, ok, "NullTerminated._build writes the payload, then the terminator once", key="NullTerminated build")
    fi, paths = own_method_paths(ctx, "NullStripped", "_parse")
    pad = N.selfattr("pad")
    one = [p for p in paths if p.returns and N.mk_cmp("==", ("call", ("free", "len"), (pad,), ()), N.const(1)) in p.guards()]
    ok = bool(one) and all(any(e.kind == "NEWSTREAM" and e["args"] and e["args"][0][0] == "call" and e["args"][0][1][0] == "attr" and e["args"][0][1][2] == "rstrip" and e["args"][0][2] == (pad,) for e in p.events) for p in one)
    ctx.ob("C03.R5", fi, ok, "NullStripped strips the pad byte from the right only", key="NullStripped rstrip")
    # a payload that fits exactly is accepted: the over-length rejection of Padded and FixedSized is `pad < 0`, strictly
    for cls in ("Padded", "FixedSized"):
        for meth in ("_parse", "_build"):
            fi, paths = own_method_paths(ctx, cls, meth)
            over = [c for p in paths if p.outcome[0] == "raise" and p.outcome[1].get("cls") == "PaddingError" for c in p.guards()[-1:]]
            strict = [c for c in over if c[0] == "cmp" and c[1] in ("<", ">")]
            loose = [c for c in over if c[0] == "cmp" and c[1] in ("<=", ">=") and not (N.is_int(c[3]) and c[3][2] != 0)]
            if over:
                ctx.ob("C03.R5", fi, bool(strict) and not loose, "%s.%s rejects only a payload that is too long (strict comparison: an exact fit passes)" % (cls, meth), key="%s %s exact fit" % (cls, meth))
    ctx.floor("C03.R5", 17)
    from . import C04
    C04.shared_obligations(ctx, "C03.R8", {"FormatField", "BytesInteger", "BitsInteger", "VarInt", "ZigZag", "Flag", "Bytes", "GreedyBytes", "StringEncoded", "Padded", "Aligned", "Prefixed",
                                           "PrefixedArray", "Array", "GreedyRange", "Struct", "Sequence", "Enum", "Mapping", "FlagsEnum", "Const", "NullTerminated", "NullStripped", "FixedSized"}, with_expressions=True)     # lengths, counts and pad amounts are usually given as expressions: their operator semantics too
    ctx.floor("C03.R8", 20)

    from .. import interval
    interval.leb128_obligations(ctx, "C03.R7")
    from . import C10_helpers
    C10_helpers.zigzag(ctx, "C03.R7")
    C10_helpers.varint_parse_form(ctx, "C03.R7")

    # positive control
    ctl_src = "class FormatField(object):\n    def __init__(self, endianity, format):\n        pass\ndef singleton(f):\n    return f()\n@singleton\ndef Int16sl():\n    return FormatField('<', 'H')\n"
    ctl = control_model(ctl_src)
    r = ctl.singleton_ctor("Int16sl")
    got = const_call(r[1], ["endianity", "format"], {})
    ctx.control("C03.R1", got != {"endianity": STRUCT_ORDER["l"], "format": INT_CODE[(16, True)]})
