"""C04.R3 -- skeleton agreement between recovered templates and interpreter methods.

Both sides are reduced to *concrete skeletons*: for every truth assignment of the decision atoms (conditions that occur
as `under` marks, conditional terms, or guards of semantic raises) the ordered list of observable steps -- sub-construct
calls (direction, target, stream, context, value), read/write amounts and data, seeks, substreams, stores into the
result and into the context, loop structure, swallowing handlers -- and the outcome (result term or semantic exception).
The template's skeleton set must equal the interpreter's for the same assignment, modulo documented omissions:
no path, no _index, no input validation / error translation, compile-time sizeof, display wrappers.
"""
import ast
import itertools

from .. import norm as N
from ..pos import Trace
from .common import *

S_, C_, = ("S",), ("C",)
OMIT_CTX_KEYS = {"_index", "_root"}
# exceptions that are part of the construct's meaning (everything else is input validation, omitted by documentation)
SEMANTIC_RAISES = {"ConstError", "CheckError", "StopFieldError", "ExplicitError", "UnionError", "RepeatError", "SelectError"}

FROZEN = {
    ("Union", "parse"): "parse_union is specialised per constant parsefrom at compile time (compile-time sizeof decides the forward/fallback seeks); its position contract is C09.R6",
    ("Switch", "parse"): "cases are registered as lambdas in a generated module-level dict; covered by the dedicated Switch rule",
    ("Switch", "build"): "cases are registered as lambdas in a generated module-level dict; covered by the dedicated Switch rule",
    ("FlagsEnum", "parse"): "the per-flag expression is a join over self.flags; covered by the dedicated FlagsEnum rule",
    ("NamedTuple", "parse"): "the factory is created by a generated module-level statement; covered by the dedicated rule",
    ("RepeatUntil", "build"): "generated code pulls elements with next(iter(obj)) and ignores discard (documented as unsupported); element order covered by the dedicated rule",
    ("Array", "parse"): "generator expression over range(count): covered by the dedicated Array rule; _index is documented as unsupported",
    ("Array", "build"): "see parse",
    ("Hex", "parse"): "display-only wrapper (C12.R5): compiled code returns the plain value, equal by value",
    ("HexDump", "parse"): "display-only wrapper (C12.R5)",
    ("RestreamData", "parse"): "compiled code supports a bytes constant only (the interpreter also accepts BytesIO and Construct data sources)",
    ("Enum", "parse"): "table lookup with EnumInteger fallback is spelled dict.get in generated code; covered by the dedicated label-table rule",
    ("Mapping", "parse"): "table lookup; covered by the dedicated label-table rule",
    ("Enum", "build"): "table lookup; covered by the dedicated label-table rule (which also checks the returned value)",
    ("Mapping", "build"): "table lookup; covered by the dedicated label-table rule",
    ("FocusedSeq", "parse"): "result is read back from the context by name instead of a loop-carried local; member loop covered by the dedicated FocusedSeq rule",
    ("FocusedSeq", "build"): "see parse; handlers and member loop covered by the dedicated FocusedSeq rule",
    ("Debugger", "parse"): "debug aid", ("Debugger", "build"): "debug aid", ("Probe", "parse"): "debug aid", ("Probe", "build"): "debug aid",
}


def simplify(t):
    """Value-preserving rewrites that make the two spellings comparable."""
    if not isinstance(t, tuple) or not t:
        return t
    t = tuple(simplify(x) if isinstance(x, tuple) else x for x in t)
    k = t[0]
    if not isinstance(k, str):
        return t
    # generated module-level definition:  name = expr
    if k == "def":
        return t[2]
    # struct.Struct(f).pack(x) == struct.pack(f, x)
    if k == "call" and t[1][0] == "attr" and t[1][2] in ("pack", "unpack") and t[1][1][0] == "call" and t[1][1][1] == ("attr", ("free", "struct"), "Struct"):
        f = t[1][1][2][0]
        return ("call", ("attr", ("free", "struct"), t[1][2]), (f,) + t[2], t[3])
    # bytes(x) for a bytearray x is value-equal to x
    if k == "ite" and t[1][0] == "cmp" and t[1][1] == "is" and t[1][3] == ("free", "bytearray") and t[2] == ("call", ("free", "bytes"), (t[3],), ()):
        return t[3]
    if k == "call" and t[1] == ("free", "enumerate") and len(t[2]) == 1:
        return t[2][0]
    if k == "eval" and t[1] == N.NONE:
        return N.NONE
    if k == "bool" and t[1] == "or":
        items = tuple(x for x in t[2] if x != N.NONE)
        if len(items) == 1:
            return items[0]
        return ("bool", "or", items)
    # calling a constructor parameter with (..., context) is evaluating it against the context
    if k == "call" and t[2] and t[2][-1] == C_ and t[1][0] == "attr" and t[1][1] == ("param", "self"):
        return ("eval", t[1], C_)
    # Rebuild with a plain callable: userfunction[id](this) is self.func(this)
    if k == "call" and t[1][0] == "sub" and t[1][1] == ("free", "userfunction") and len(t[2]) == 1 and USERFUNC[0] is not None:
        return ("eval", USERFUNC[0], t[2][0])
    return t


USERFUNC = [None]


def rename(t, side, extra=None):
    m = dict(extra or {})
    if side == "interp":
        m[("param", "stream")] = S_
        m[("param", "context")] = C_
    else:
        m[("param", "io")] = S_
        m[("param", "this")] = C_
    return simplify(N.rebuild(t, m))


def canon_term(t, side, bind, extra=None):
    """Conditions: renamed, simplified, ordinals renumbered locally."""
    return strip(rename(t, side, extra), {})


def strip(t, bind):
    if not isinstance(t, tuple) or not t:
        return t
    k = t[0]
    if not isinstance(k, str):
        return tuple(strip(x, bind) for x in t)
    if k == "newctx":
        return ("newctx",)
    if k == "new":
        return ("new", t[1], strip(t[3], bind) if len(t) > 3 else (), strip(t[4], bind) if len(t) > 4 else ())
    if k == "newstream":
        return ("substream", strip(t[3][0], bind) if t[3] else None)
    if k in ("tell", "read", "readall", "rawio"):
        key = (k,) + tuple(strip(x, bind) for x in t[1:-1])
        return key + (bind.setdefault(("ord", key, t[-1]), len([1 for kk in bind if kk[0] == "ord" and kk[1] == key])),)
    if k == "subres":
        m = {"_parsereport": "parse", "_parse": "parse", "_build": "build"}.get(t[1], t[1])
        key = ("subres", m, strip(t[2], bind))
        return key + (bind.setdefault(("ord", key, t[3]), len([1 for kk in bind if kk[0] == "ord" and kk[1] == key])),)
    if k == "sub" and t[1] == C_ and N.is_const(t[2]) and isinstance(t[2][2], str):
        return ("attr", C_, t[2][2])
    return tuple(strip(x, bind) if isinstance(x, tuple) else x for x in t)


def atom_of(c):
    if c[0] == "not":
        return c[1]
    if c[0] == "cmp" and c[1] in ("!=", "is not", "not in"):
        return N.mk_cmp(N.NEG[c[1]], c[2], c[3])
    return c


def truth(c, assign):
    a = atom_of(c)
    if a in assign:
        v = assign[a]
        return v if a == c else (not v)
    if c[0] == "bool":
        vals = [truth(x, assign) for x in c[2]]
        if c[1] == "and":
            if any(v is False for v in vals):
                return False
            return True if all(v is True for v in vals) else None
        if any(v is True for v in vals):
            return True
        return False if all(v is False for v in vals) else None
    if N.is_const(c):
        return bool(c[2])
    return None


def resolve(t, assign):
    if not isinstance(t, tuple) or not t:
        return t
    if isinstance(t[0], str) and t[0] == "ite":
        v = truth(t[1], assign)
        if v is True:
            return resolve(t[2], assign)
        if v is False:
            return resolve(t[3], assign)
    return tuple(resolve(x, assign) if isinstance(x, tuple) else x for x in t)


DIRECTION = ["parse"]
# rejecting a supplied value on build is input validation ("nothing is claimed for inputs the original rejects")
BUILD_VALIDATION = {"ConstError", "UnionError", "RepeatError", "SelectError"}


def semantic_outcome(p):
    if p.returns:
        return "return"
    if p.outcome[0] == "raise" and p.outcome[1].get("kind") == "explicit" and p.outcome[1].get("cls") in SEMANTIC_RAISES:
        if DIRECTION[0] == "build" and p.outcome[1].get("cls") in BUILD_VALIDATION:
            return None
        return p.outcome[1].get("cls")
    return None


def swallowing_tids(paths):
    out = set()
    for p in paths:
        for e in p.events:
            if e.kind == "ENDCATCH":
                out.add(e["tid"])
    return out


def decision_atoms(paths, side, extra):
    atoms = set()
    for p in paths:
        so = semantic_outcome(p)
        if so is None:
            continue
        for e in p.events:
            if e.under is not None:
                atoms.add(atom_of(canon_term(e.under, side, {}, extra)))
            for v in e.a.values():
                if isinstance(v, tuple):
                    for x in N.walk(v):
                        if x[0] == "ite":
                            atoms.add(atom_of(canon_term(x[1], side, {}, extra)))
        if p.outcome[0] == "return":
            for x in N.walk(p.outcome[1]):
                if x[0] == "ite":
                    atoms.add(atom_of(canon_term(x[1], side, {}, extra)))
        if so != "return":
            # the guard of a semantic raise is part of the meaning
            gs = p.guards()
            if gs:
                atoms.add(atom_of(canon_term(gs[-1], side, {}, extra)))
    return {a for a in atoms if not N.is_const(a)}


def skeleton(p, side, assign, stream, swallow, extra):
    so = semantic_outcome(p)
    if so is None:
        return None
    bind = {}
    streams = {stream} | {e.a.get("stream") for e in p.events if e.kind in ("TELL", "SEEK", "READ", "WRITE", "SUB") and e.a.get("stream") is not None}
    tbind = {}
    for s_ in streams:
        tbind.update(Trace(p, s_, abstract_sz=True).bind)

    def resolve_c(t):
        # conditional terms are decided on their locally renumbered form
        if not isinstance(t, tuple) or not t:
            return t
        if isinstance(t[0], str) and t[0] == "ite":
            v = truth(strip(t[1], {}), assign)
            if v is True:
                return resolve_c(t[2])
            if v is False:
                return resolve_c(t[3])
        return tuple(resolve_c(x) if isinstance(x, tuple) else x for x in t)

    last = {}

    def val(t):
        if t is None:
            return None
        if last:
            t = N.subst(t, last)
        t = rename(sz(N.rebuild(t, tbind)), side, extra)
        t = simplify(N.rebuild(resolve_c(t), {}))
        return strip(t, bind)
    for g in p.guards():
        if truth(canon_term(g, side, {}, extra), assign) is False:
            return None
    items = []
    unbounded = {}
    for e in p.events:
        if e.kind in ("CATCH", "ENDCATCH") or (e.raised and e.kind != "RAISE"):
            return None
        if e.kind == "LOOPEND" and e["how"] in ("zero", "break"):
            if e["how"] == "break" and unbounded.get(e["lid"]):
                # leaving an unbounded loop by `break` (the result returned after the loop) is leaving it by `return`: the exit condition is part of the meaning
                idx = p.index(e)
                prev = [x for x in p.events[:idx] if x.kind == "ASSUME" and x.loops and x.loops[-1] == e["lid"]]
                if prev:
                    items.append(("EXIT-IF", val(prev[-1]["cond"])))
                continue
            if e["how"] == "break":
                # a search loop left by `break` whose chosen element is processed after the loop does what the loop body would have done before
                # leaving by `return`: the items that follow are compared as they come
                continue
            return None
        if e.under is not None and truth(canon_term(e.under, side, {}, extra), assign) is False:
            continue
        k = e.kind
        if k == "SUB":
            m = {"_parsereport": "parse", "_parse": "parse", "_build": "build"}.get(e["m"])
            if m is None:
                if e["m"] in ("_sizeof", "sizeof"):
                    continue
                items.append(("SUB", e["m"], val(e["target"])))
                continue
            it = ["SUB", m, val(e["target"]), val(e.a.get("stream")), val(e.a.get("ctx"))]
            if m == "build":
                it.append(val(e.a.get("obj")))
            items.append(tuple(it))
        elif k == "READ":
            items.append(("READ", val(e["stream"]), val(e["length"])))
        elif k == "READALL":
            items.append(("READALL", val(e["stream"])))
        elif k == "WRITE":
            items.append(("WRITE", val(e["stream"]), val(e["data"])))
        elif k == "SEEK":
            items.append(("SEEK", val(e["stream"]), val(e["offset"]), val(e["whence"])))
        elif k == "NEWCTX":
            items.append(("NEWCTX",))
        elif k == "CTXSET":
            key = val(e["key"])
            if N.is_const(key) and key[2] in OMIT_CTX_KEYS:
                continue
            items.append(("CTXSET", val(e["ctx"]), key, val(e["value"])))
        elif k == "CTXUPDATE":
            items.append(("CTXUPDATE", val(e["ctx"]), val(e["src"])))
        elif k in ("STORE", "ATTRSET"):
            b = e["base"]
            if b[0] != "new":
                continue
            key = val(e["key"]) if k == "STORE" else N.const(e["attr"])
            if N.is_const(key) and isinstance(key[2], str) and key[2].startswith("_"):
                continue
            items.append(("STORE", val(b), key, val(e["value"])))
        elif k == "MUT" and e["method"] in ("append", "update") and e["base"][0] == "new":
            args = tuple(val(a) for a in e["args"])
            items.append(("MUT", e["method"], val(e["base"]), args))
            if e["method"] == "append" and len(args) == 1:
                # result[-1] right after result.append(v) is v
                last[("sub", e["base"], N.const(-1))] = e["args"][0]
        elif k == "TRY":
            if e["tid"] in swallow:
                items.append(("TRY", e["handlers"]))
        elif k == "RETURN" and e.loops and unbounded.get(e.loops[-1]):
            # leaving an unbounded loop: the exit condition is part of the meaning
            idx = p.index(e)
            prev = [x for x in p.events[:idx] if x.kind == "ASSUME" and x.loops == e.loops]
            if prev:
                items.append(("EXIT-IF", val(prev[-1]["cond"])))
        elif k == "LOOP":
            it = val(e["iter"])
            if it == N.TRUE or (it[0] == "call" and it[1][0] == "attr" and it[1][2] == "count" and not it[2]):
                it = ("unbounded",)          # `while True` and `for i in itertools.count()` are the same loop
                unbounded[e["lid"]] = True
            items.append(("LOOP", it))
    out = val(p.retval) if so == "return" else ("raise", so)
    # a handler around the member loop and a handler inside it that breaks are the same control flow
    for i in range(len(items) - 1):
        if items[i][0] == "LOOP" and items[i + 1][0] == "TRY":
            items[i], items[i + 1] = items[i + 1], items[i]
    return N.canon_lids((tuple(items), out))


def sz(t):
    m = {}
    for x in N.walk(t):
        if x[0] == "subres" and x[1] in ("_sizeof", "sizeof", "_actualsize"):
            m[x] = ("SZ", x[2])
    return N.rebuild(t, m) if m else t


def skeleton_sets(paths, side, stream, atoms, extra):
    out = {}
    sw = swallowing_tids(paths)
    for vals in itertools.product((True, False), repeat=len(atoms)):
        assign = dict(zip(atoms, vals))
        s = set()
        for p in paths:
            sk = skeleton(p, side, assign, stream, sw, extra)
            if sk is not None:
                s.add(sk)
        out[vals] = s
    return out


def show_skel(sk):
    items, ret = sk
    return "; ".join("%s(%s)" % (i[0], ", ".join(N.show(x) if isinstance(x, tuple) else str(x) for x in i[1:])) for i in items) + " => " + N.show(ret)


def template_paths(ts, fps):
    """Paths that carry the behaviour of one rendered template: the generated helper called by the returned expression
    (summarised with the call-site arguments bound to its parameters), else the expression itself."""
    tp = fps.get("__template__", [])
    rets = [p for p in tp if p.returns]
    if len(rets) == 1:
        p0 = rets[0]
        r = p0.retval
        calls = [e for e in p0.events if e.kind == "CALL" and e["func"][0] == "free" and e["func"][1] in ts.model.functions and e["func"][1] not in ("restream", "reuse")]
        other = [e for e in p0.events if e.kind in ("SUB", "READ", "WRITE", "SEEK", "READALL", "NEWCTX", "CTXSET")]
        if len(calls) == 1 and r == calls[0]["res"] and not other:
            return ts.summarise_call(calls[0]["func"][1], calls[0]["args"]), p0
    return tp, None


def cond_facts(ctx, em, owner):
    """Statement-level decisions of the emitter variant as substitutions on interpreter terms (e.g. self.stream is None)."""
    extra = {}
    for cnd, pol in em.conds:
        # `self.x is not None` decided False  ->  self.x is None   (either operand order)
        if isinstance(cnd, ast.Compare) and len(cnd.ops) == 1 and isinstance(cnd.left, ast.Constant) and cnd.left.value is None:
            cnd = ast.Compare(left=cnd.comparators[0], ops=cnd.ops, comparators=[cnd.left])
        if isinstance(cnd, ast.Compare) and len(cnd.ops) == 1 and isinstance(cnd.ops[0], (ast.IsNot, ast.Is)) and isinstance(cnd.comparators[0], ast.Constant) \
                and cnd.comparators[0].value is None and isinstance(cnd.left, ast.Attribute) and isinstance(cnd.left.value, ast.Name) and cnd.left.value.id == "self":
            is_none = (isinstance(cnd.ops[0], ast.Is)) == pol
            if is_none:
                extra[N.selfattr(cnd.left.attr)] = N.NONE
    return extra


def run(ctx, emit_funcs, summaries):
    M = ctx.model
    for q, lst in sorted(summaries.items()):
        fi, owner, _ = emit_funcs[q]
        if owner not in M.classes or fi.relpath.endswith("debug.py"):
            continue
        direction = "parse" if fi.name == "_emitparse" else "build"
        if (owner, direction) in FROZEN:
            ctx.ob("C04.R3", fi, True, "%s %s: %s" % (owner, direction, FROZEN[(owner, direction)]), key="frozen %s" % direction, detail=FROZEN[(owner, direction)])
            continue
        meth = "_parse" if direction == "parse" else "_build"
        DIRECTION[0] = direction
        fi_i, ipaths = method_paths(ctx, owner, meth)
        bad = []
        compared = 0
        natoms = 0
        try:
            for em, r, ts, fps in lst:
                extra = cond_facts(ctx, em, owner)
                # user-function variant of Rebuild: userfunction[id](this) is self.func(this)
                textra = {}
                uf = getattr(em, "userfunc_value", None)
                USERFUNC[0] = N.selfattr(uf.attr) if isinstance(uf, ast.Attribute) and isinstance(uf.value, ast.Name) and uf.value.id == "self" else None
                tps, call_path = template_paths(ts, fps)
                atoms = sorted(decision_atoms(ipaths, "interp", extra) | decision_atoms(tps, "templ", textra), key=repr)
                if len(atoms) > 7:
                    raise AnalysisError("too many decision atoms (%d)" % len(atoms))
                natoms = max(natoms, len(atoms))
                iset = skeleton_sets(ipaths, "interp", STREAM, atoms, extra)
                tset = skeleton_sets(tps, "templ", ("param", "io"), atoms, textra)
                # inline conditions chosen for this rendering restrict the interpreter side to the matching configuration
                for vals in iset:
                    a, b = iset[vals], tset.get(vals, set())
                    if not b:
                        continue        # this rendering does not exist under that assignment (other renderings cover it)
                    compared += 1
                    if not b <= a:
                        assign = ", ".join("%s=%s" % (N.show(x), v) for x, v in zip(atoms, vals))
                        only_t = [show_skel(s) for s in b - a][:1]
                        near = [show_skel(s) for s in a][:1]
                        bad.append("[%s] generated: %s | interpreter: %s" % (assign, only_t, near or "no such run"))
        except AnalysisError as e:
            ctx.error("C04.R3 %s: %s" % (q, e))
            continue
        ctx.ob("C04.R3", fi, not bad and compared > 0, "%s vs %s.%s: %s" % (q, owner, meth, ("generated code does something the interpreter does not: " + bad[0][:900]) if bad else
               ("every generated run is an interpreter run under %d assignment(s) of up to %d decision atom(s)" % (compared, natoms) if compared else "nothing comparable")), key="skeleton %s" % direction)
    dedicated(ctx, emit_funcs, summaries)
    ctx.floor("C04.R3", 122)


# ----------------------------------------------------------------------------- dedicated rules for the frozen classes
def _tmpl(summaries, q):
    return summaries.get(q, [])


def dedicated(ctx, emit_funcs, summaries):
    M = ctx.model
    rule = "C04.R3"

    def paths_tpl(q, fname="__template__"):
        out = []
        for em, r, ts, fps in _tmpl(summaries, q):
            out.append((em, r, ts, fps.get(fname, [])))
        return out

    # ---- swallowing handlers agree (all classes, frozen or not): a handler that ends an operation early must exist on both sides
    for q, lst in sorted(summaries.items()):
        fi, owner, _ = emit_funcs[q]
        if owner not in M.classes or fi.relpath.endswith("debug.py") or owner in ("Union", "Peek"):
            continue
        meth = "_parse" if fi.name == "_emitparse" else "_build"
        fi_i, ip = method_paths(ctx, owner, meth)
        sw_i = set()
        for p in ip:
            for e in p.events:
                if e.kind == "TRY" and e["tid"] in swallowing_tids(ip):
                    sw_i.add(e["handlers"])
        sw_t = set()
        for em, r, ts, fps in lst:
            for fn, ps in fps.items():
                st = swallowing_tids(ps)
                for p in ps:
                    for e in p.events:
                        if e.kind == "TRY" and e["tid"] in st:
                            sw_t.add(e["handlers"])
        ctx.ob(rule, fi, sw_i == sw_t, "%s: handlers that swallow an exception in generated code %s vs in %s.%s %s" % (q, sorted(sw_t), owner, meth, sorted(sw_i)), key="swallowing handlers %s" % meth)

    # ---- constants wrapped as callables by the interpreter (RepeatUntil's non-callable predicate) return the constant, as `if (<repr>)` does in generated code
    # (a rule whose expected violation count is zero: its positive control, not a floor, guards against vacuity -- a refactoring that returns the
    # wrapper from a helper instead of rebinding the local removes the hazard together with the instances)
    no_self_capture(ctx, rule)

    # ---- FlagsEnum parse: per-flag test
    q = "FlagsEnum._emitparse"
    if q in emit_funcs:
        fi = emit_funcs[q][0]
        fd, pd = own_method_paths(ctx, "FlagsEnum", "_decode")
        want = None
        for p in pd:
            for e in p.events:
                if e.kind == "STORE" and e.loops:
                    m = {}
                    for x in N.walk(e["value"]):
                        if x[0] == "val":
                            m[x] = ("V",)
                    m[OBJ] = ("X",)
                    want = N.rebuild(e["value"], m)
        ok = want is not None
        seen = 0
        for em, r, ts, ps in paths_tpl(q):
            its = list(r.iters.values())
            ok = ok and len(its) == 1 and ast.unparse(its[0][1]) == "self.flags.items()" and isinstance(its[0][0], ast.Tuple) and len(its[0][0].elts) == 2
            kvar, vvar = (e.id for e in its[0][0].elts) if ok else ("k", "v")
            for p in ps:
                news = [e for e in p.events if e.kind == "NEW" and e["cls"] == "Container"]
                subs = [e for e in p.events if e.kind == "SUB"]
                for nw in news:
                    for kname, v in nw["kw"]:
                        seen += 1
                        hole = r.holes.get(kname)
                        ok = ok and hole is not None and ast.unparse(hole.node) == kvar
                        inner = v[2][0] if v[0] == "call" and v[1] == ("free", "bool") and len(v[2]) == 1 else v
                        m = {("free", vvar): ("V",)}
                        if subs:
                            m[subs[0]["res"]] = ("X",)
                        ok = ok and N.rebuild(inner, m) == want
        ctx.ob(rule, fi, ok and seen >= 1, "FlagsEnum: generated code tests each flag exactly as _decode does (all bits of the mask present), over the same (name, mask) pairs of self.flags", key="FlagsEnum flag test")

    # ---- label tables: Enum / Mapping
    for owner, pm, bm in (("Enum", "decmapping", "encmapping"), ("Mapping", "decmapping", "encmapping")):
        for direction, attr in (("parse", pm), ("build", bm)):
            q = "%s._emit%s" % (owner, direction)
            if q not in emit_funcs:
                continue
            fi = emit_funcs[q][0]
            ok = bool(_tmpl(summaries, q))
            for em, r, ts, ps in paths_tpl(q):
                tabs = [ast.unparse(h.node) for h in r.holes.values() if "mapping" in ast.unparse(h.node)]
                ok = ok and tabs == ["self.%s" % attr] and all(h.conv == "repr" for h in r.holes.values() if "mapping" in ast.unparse(h.node))
                for p in ps:
                    if not p.returns:
                        continue
                    subs = [e for e in p.events if e.kind == "SUB"]
                    ok = ok and len(subs) == 1 and subs[0]["target"] == N.selfattr("subcon")
                    tab = ("def", None, N.selfattr(attr))
                    if direction == "parse":
                        x = subs[0]["res"]
                        r_ = simplify(p.retval)
                        if owner == "Enum":
                            good = r_[0] == "call" and r_[1][0] == "attr" and r_[1][2] == "get" and simplify(r_[1][1]) == N.selfattr(attr) and r_[2][0] == x \
                                and r_[2][1][0] == "new" and r_[2][1][1] == "EnumInteger" and r_[2][1][3] == (x,)
                        else:
                            good = r_ == ("sub", N.selfattr(attr), x)
                        ok = ok and good
                    else:
                        v = simplify(subs[0]["obj"])
                        if owner == "Enum":
                            good = v == ("call", ("attr", N.selfattr(attr), "get"), (OBJ, OBJ), ())
                        else:
                            good = v == ("sub", N.selfattr(attr), OBJ)
                        ok = ok and good
            ctx.ob(rule, fi, ok, "%s %s: generated code maps through self.%s (the table the interpreter uses in that direction)%s" % (owner, direction, attr, ", unmapped integers survive as EnumInteger" if owner == "Enum" and direction == "parse" else ""), key="label table %s" % direction)
            if direction == "build":
                good = bool(_tmpl(summaries, q))
                for em, r, ts, ps in paths_tpl(q):
                    for p in ps:
                        if p.returns:
                            good = good and p.retval == OBJ
                ctx.ob(rule, fi, good, "%s build: generated code returns the unencoded obj like Adapter._build does (the value is stored in the enclosing context and later members may refer to it)" % owner, key="adapter build result")

    # ---- Switch
    for direction in ("parse", "build"):
        q = "Switch._emit%s" % direction
        if q not in emit_funcs:
            continue
        fi = emit_funcs[q][0]
        ok = bool(_tmpl(summaries, q))
        for em, r, ts, ps in paths_tpl(q):
            its = list(r.iters.values())
            ok = ok and len(its) == 1 and ast.unparse(its[0][1]) == "self.cases.items()" and isinstance(its[0][0], ast.Tuple) and len(its[0][0].elts) == 2
            if not ok:
                break
            kname, cname = (e.id for e in its[0][0].elts)
            keyh = [h for h in r.holes.values() if isinstance(h.node, ast.Name) and h.node.id == kname]
            ok = ok and len(keyh) == 1 and keyh[0].conv == "repr"
            tg = sorted(ast.unparse(s_.target) for s_ in r.subs.values())
            ok = ok and tg == sorted([cname, "self.default"])
            for p in ps:
                if not p.returns:
                    continue
                calls = [e for e in p.events if e.kind == "CALL" and e["callee"] == "value"]
                ok = ok and len(calls) == 1
                if calls:
                    f = calls[0]["func"]
                    argn = (("param", "io"), ("param", "this")) if direction == "parse" else (OBJ, ("param", "io"), ("param", "this"))
                    ok = ok and f[0] == "call" and f[1][0] == "attr" and f[1][2] == "get" and f[2][0] == ("eval", N.selfattr("keyfunc"), ("param", "this")) \
                        and f[2][1][0] in ("def", "free") and f[2][1][1].startswith("switch_defaultcase") and f[1][1][0] == "def" and f[1][1][1].startswith("switch_cases") \
                        and calls[0]["args"] == argn and p.retval == calls[0]["res"]
        fi_i, ip = method_paths(ctx, "Switch", "_" + direction)
        sel = ("call", ("attr", N.selfattr("cases"), "get"), (("eval", N.selfattr("keyfunc"), CTX), N.selfattr("default")), ())
        ok = ok and all(e["target"] == sel for p in ip for e in p.events if e.kind == "SUB")
        ctx.ob(rule, fi, ok, "Switch %s: generated code registers one thunk per (key, case) of self.cases and one for self.default, and selects cases.get(keyfunc, default) like the interpreter" % direction, key="Switch %s" % direction)

    # ---- Array
    for direction in ("parse", "build"):
        q = "Array._emit%s" % direction
        if q not in emit_funcs:
            continue
        fi = emit_funcs[q][0]
        ok = bool(_tmpl(summaries, q))
        cnt = ("eval", N.selfattr("count"), ("param", "this"))
        for em, r, ts, ps in paths_tpl(q):
            for p in ps:
                if not p.returns:
                    continue
                rv = p.retval
                subs = [e for e in p.events if e.kind == "SUB"]
                ok = ok and rv[0] == "new" and rv[1] == "ListContainer" and len(rv[3]) == 1 and rv[3][0][0] == "comp" and len(subs) == 1
                if not ok:
                    break
                comp = rv[3][0]
                ok = ok and comp[2] == subs[0]["res"] and comp[3][0][0] == ("call", ("free", "range"), (cnt,), ()) and subs[0]["target"] == N.selfattr("subcon") \
                    and subs[0]["stream"] == ("param", "io") and subs[0]["ctx"] == ("param", "this")
                if direction == "build":
                    ok = ok and subs[0]["obj"] == ("sub", OBJ, ("idx", subs[0].loops[-1] if subs[0].loops else comp[4][0]))
        ctx.ob(rule, fi, ok, "Array %s: generated code processes range(count) elements in order with the element construct on the same stream/context%s" % (direction, ", element i from obj[i]" if direction == "build" else ""), key="Array %s" % direction)

    # ---- FocusedSeq member loop
    for direction in ("parse", "build"):
        q = "FocusedSeq._emit%s" % direction
        if q not in emit_funcs:
            continue
        fi = emit_funcs[q][0]
        ok = bool(_tmpl(summaries, q))
        for em, r, ts, fps in _tmpl(summaries, q):
            fn = [f for f in fps if f != "__template__"]
            ok = ok and len(fn) == 1
            for p in fps.get(fn[0], []) if fn else []:
                if not p.returns or any(e.kind == "LOOPEND" and e["how"] != "exhausted" for e in p.events):
                    continue
                loops = [e for e in p.events if e.kind == "LOOP"]
                subs = [e for e in p.events if e.kind == "SUB" and e.loops]
                ok = ok and len(loops) == 1 and loops[0]["iter"] == N.selfattr("subcons") and len(subs) == 1
                if subs:
                    s_ = subs[0]
                    new = [e for e in p.events if e.kind == "NEWCTX"]
                    ok = ok and new and s_["ctx"] == new[0]["res"] and s_["stream"] == ("param", "io") and s_["target"] == ("elem", N.selfattr("subcons"), s_.loops[-1])
                    sets = [e for e in p.events if e.kind == "CTXSET" and e.loops and e["key"] == ("attr", s_["target"], "name")]
                    ok = ok and all(e["value"] == s_["res"] for e in sets)
        ctx.ob(rule, fi, ok, "FocusedSeq %s: generated code runs every member of self.subcons in order on the nested context and stores named results in it" % direction, key="FocusedSeq %s loop" % direction)
        # the generated helper hands back the focused member's result (the interpreter's `finalret`), never falls off its end
        rets_ok = bool(_tmpl(summaries, q))
        for em, r, ts, fps in _tmpl(summaries, q):
            fn = [f for f in fps if f != "__template__"]
            for p in fps.get(fn[0], []) if fn else []:
                if p.outcome[0] == "fall":
                    rets_ok = False
                if p.returns and (p.retval is None or p.retval == N.NONE):
                    rets_ok = False
        ctx.ob(rule, fi, rets_ok, "FocusedSeq %s: every run of the generated helper returns the focused member's result (no path falls off the end)" % direction, key="FocusedSeq %s returns" % direction)
        if direction == "parse":
            from .C01 import focusedseq_focus
            focusedseq_focus(ctx, rule)          # the interpreter side of the same selection
        if direction == "build":
            # the object is visible to every member under the focused name before the first member is built (FocusedSeq._build pre-stores it:
            # `"count" / Rebuild(..., len_(this.items))` ahead of `"items"` depends on it)
            pre_ok, npre = True, 0
            for em, r, ts, fps in _tmpl(summaries, q):
                fn = [f for f in fps if f != "__template__"]
                for p in fps.get(fn[0], []) if fn else []:
                    if not p.returns:
                        continue
                    npre += 1
                    lp = next((i for i, e in enumerate(p.events) if e.kind == "LOOP"), len(p.events))
                    pre_ok = pre_ok and any(e.kind == "CTXSET" and e["value"] == OBJ and N.contains(e["key"], N.selfattr("parsebuildfrom")) for e in p.events[:lp])
            ctx.ob(rule, fi, pre_ok and npre >= 1, "FocusedSeq build: generated code stores obj under parsebuildfrom in the nested context before the member loop, as the interpreter does", key="FocusedSeq build prestore")
            # which member gets the object: exactly the one whose name is parsebuildfrom (the interpreter's `obj if sc.name == parsebuildfrom else None`)
            focus_ok, decided = True, 0
            for em, r, ts, fps in _tmpl(summaries, q):
                fk = None
                # a condition that is a local of the emitter assigned once (`focused = sc.name == self.parsebuildfrom`) is that expression
                local_defs = {}
                for st_ in ast.walk(fi.node):
                    if isinstance(st_, ast.Assign) and len(st_.targets) == 1 and isinstance(st_.targets[0], ast.Name):
                        local_defs.setdefault(st_.targets[0].id, []).append(st_.value)
                for k, c in r.conds.items():
                    if isinstance(c, ast.Name) and len(local_defs.get(c.id, ())) == 1:
                        c = local_defs[c.id][0]
                    if isinstance(c, ast.Compare) and len(c.ops) == 1 and isinstance(c.ops[0], (ast.Eq, ast.NotEq)):
                        sides = {ast.unparse(c.left), ast.unparse(c.comparators[0])}
                        if "self.parsebuildfrom" in sides and any(s_.endswith(".name") for s_ in sides):
                            fk = (k, isinstance(c.ops[0], ast.Eq))
                if fk is None:
                    continue
                focused = r.choices.get(fk[0], True) == fk[1]
                fn = [f for f in fps if f != "__template__"]
                for p in fps.get(fn[0], []) if fn else []:
                    for e in p.events:
                        if e.kind == "SUB" and e.loops:
                            decided += 1
                            focus_ok = focus_ok and e["obj"] == (OBJ if focused else N.NONE)
                            if focused and p.returns:
                                focus_ok = focus_ok and p.retval == e["res"]
            if not decided:
                ctx.error("C04.R3: FocusedSeq._emitbuild no longer selects the focused member by comparing its name with self.parsebuildfrom; the focus rule cannot be decided")
            ctx.ob(rule, fi, focus_ok, "FocusedSeq build: generated code hands obj to exactly the member named parsebuildfrom (None to the others) and returns that member's build result", key="FocusedSeq build focus")
