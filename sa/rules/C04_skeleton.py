"""C04.R3 -- skeleton agreement between recovered templates and interpreter methods (filled in below)."""
def run(ctx, emit_funcs, summaries):
    pass
