"""C15 -- byte transforms invert exactly and match their definition."""
from .. import norm as N
from .common import *
from . import C10, C01

META = {
    "level": "other",
    "explanation": "Inversion structure of the byte-transforming wrappers: (R1) ProcessXor is self-inverse, so _parse and _build must apply the very same function: the key normalisation and, per combination of configuration guards, the transform term applied to the incoming data are identical in both methods, including the zero-key shortcuts; (R2) ProcessRotateLeft._build is ProcessRotateLeft._parse with amount replaced by -amount at the single place where `amount % (group*8)` is formed: after that substitution the guards, the branch conditions and the three transform terms (table / byte-index / bit-pair) are identical; (R3) ByteSwapped/BitsSwapped instantiate Transformed/Restreamed with an involution as both decoder and encoder over exactly sizeof(subcon) units (shared machinery with C10.R1/R2); (R4) Tunnel decodes on parse and encodes on build around the inner construct, Compressed uses decompress/compress (decode/encode) of the same library object selected by the same condition, the compression level only on the compress side.",
    "undecided": "'Match their definition' -- the XOR / rotation / codec arithmetic itself is numerical; thorough tier adds the byte-range obligations of the rotation formulas (engine I).",
    "trusted_base": ["python ast (3.12)", "sa.summ summariser", "sa/tables.py inverse pairs and unit ratios"],
    "assumptions": [],
}

IN = ("IN",)


def transform_rows(ctx, cls, meth):
    """[(config guards, data term with the input replaced by IN)]"""
    from ..amounts import config_guards
    fi, paths = own_method_paths(ctx, cls, meth)
    rows = set()
    for p in paths:
        if not p.returns:
            continue
        if meth == "_parse":
            src = [e["res"] for e in p.events if e.kind == "READALL" and e["stream"] == STREAM]
            sub = [e for e in p.events if e.kind == "SUB" and e["m"] == "_parsereport"]
            ns = [e for e in p.events if e.kind == "NEWSTREAM"]
            out = ns[-1]["args"][0] if ns and ns[-1]["args"] else None
        else:
            sb = [e for e in p.events if e.kind == "SUB" and e["m"] == "_build"]
            src = [("getvalue", sb[0]["stream"])] if sb else []
            wr = [e for e in p.events if e.kind == "WRITE" and e["stream"] == STREAM]
            out = wr[-1]["data"] if wr else None
        if len(src) != 1 or out is None:
            rows.add((frozenset(), ("UNRESOLVED",)))
            continue
        m = {src[0]: IN}
        g = frozenset(N.canon_lids(N.rebuild(c, m)) for c in p.guards() if not any(x[0] in ("subres",) for x in N.walk(c)))
        rows.add((g, N.canon_lids(N.rebuild(out, m))))
    return fi, rows


def run(ctx):
    M = ctx.model
    # ---- R1 ProcessXor
    fp, a = transform_rows(ctx, "ProcessXor", "_parse")
    fb, b = transform_rows(ctx, "ProcessXor", "_build")
    ctx.ob("C15.R1", fb, a == b and len(a) >= 4 and ("UNRESOLVED",) not in {t for g, t in a}, "ProcessXor applies the same key normalisation, shortcut conditions and XOR term on parse and build (%d guard/term rows, %d differ)" % (len(a), len(a ^ b)), key="ProcessXor same function")
    xors = [t for g, t in a if any(x[0] == "bin" and x[1] == "^" for x in N.walk(t))]
    ctx.ob("C15.R1", fp, len(xors) >= 2 and all(N.contains(t, IN) for t in xors), "the transform is an element-wise XOR over the data", key="ProcessXor xor")
    ident = [g for g, t in a if t == IN]
    ctx.ob("C15.R1", fp, bool(ident), "the zero-key shortcut leaves the data unchanged (identical in both directions by the row comparison)", key="ProcessXor shortcut")
    ctx.floor("C15.R1", 3)

    # ---- R2 ProcessRotateLeft
    fp, a = transform_rows(ctx, "ProcessRotateLeft", "_parse")
    fb, b = transform_rows(ctx, "ProcessRotateLeft", "_build")
    amt = ("eval", N.selfattr("amount"), CTX)
    neg = {amt: N.mk_neg(amt)}
    a_neg = {(frozenset(N.canon_lids(N.rebuild(c, neg)) for c in g), N.canon_lids(N.rebuild(t, neg))) for g, t in a}
    ctx.ob("C15.R2", fb, a_neg == b and len(a) >= 4, "ProcessRotateLeft._build equals _parse with amount replaced by -amount (%d rows, %d differ)" % (len(a), len(a_neg ^ b)), key="RotateLeft negated amount")
    ctx.ob("C15.R2", fb, a != b, "the two directions are not the same rotation", key="RotateLeft not identical")
    grp = ("eval", N.selfattr("group"), CTX)
    uses = [x for g, t in a for x in list(N.walk(t)) + [y for c in g for y in N.walk(c)] if x[0] == "mod" and N.contains(x[1], amt)]
    ctx.ob("C15.R2", fp, bool(uses) and all(x[2] == N.mk_mul(N.const(8), grp) or x[2] == N.const(8) or N.contains(x[1], ("mod", amt, N.mk_mul(N.const(8), grp))) for x in uses),
           "the amount is reduced modulo group*8 bits", key="RotateLeft modulus")
    for cls_m in ("_parse", "_build"):
        fi, paths = own_method_paths(ctx, "ProcessRotateLeft", cls_m)
        ln = [p for p in paths if p.outcome[0] == "raise" and p.outcome[1].get("cls") == "RotationError"]
        conds = {c for p in ln for c in p.guards()}
        ok = N.mk_cmp("<", grp, N.const(1)) in conds and any(c[0] == "cmp" and c[1] == "!=" and c[2][0] == "mod" and c[2][2] == grp for c in conds)
        ctx.ob("C15.R2", fi, ok, "ProcessRotateLeft.%s rejects group < 1 and data whose length is not a multiple of the group" % cls_m, key="RotateLeft guards %s" % cls_m)
    ctx.floor("C15.R2", 5)

    # ---- R3 swaps
    sites = C10.check_macros(ctx, ("ByteSwapped", "BitsSwapped"), "C15.R3", "C15.R3", "C15.R3")
    if sites < 3:
        ctx.error("C15.R3: %d swap instantiation sites, floor 3" % sites)
    ctx.floor("C15.R3", 12)

    # ---- R4 tunnel / compressed: the C01.R4 instances
    from ..core import Ctx
    sub = Ctx("C15", ctx.tier, ctx.root, model=ctx.model)
    sub._summ = summariser(ctx)
    C01.tunnel_checks(sub, "C15.R4")
    for o in sub.obligations:
        ctx.ob(o.rule, o.where, o.ok, o.what, key=o.key, loc=o.loc, detail=o.detail)
    ctx.floor("C15.R4", 3)

    if ctx.tier == "thorough":
        from .. import interval
        interval.rotation_obligations(ctx, "C15.R5")

    # positive control: same-direction rotation on both sides must be reported by the 'not identical' obligation
    ctx.control("C15.R2", a_neg != a)
