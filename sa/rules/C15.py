"""C15 -- byte transforms invert exactly and match their definition."""
import ast
from .. import norm as N
from .common import *
from . import C10, C01

META = {
    "level": "other",
    "explanation": "Inversion structure of the byte-transforming wrappers: (R1) ProcessXor is self-inverse, so _parse and _build must apply the very same function: the key normalisation and, per combination of configuration guards, the transform term applied to the incoming data are identical in both methods, including the zero-key shortcuts; (R2) ProcessRotateLeft._build is ProcessRotateLeft._parse with amount replaced by -amount at the single place where `amount % (group*8)` is formed: after that substitution the guards, the branch conditions and the three transform terms (table / byte-index / bit-pair) are identical; (R3) ByteSwapped/BitsSwapped instantiate Transformed/Restreamed with an involution as both decoder and encoder over exactly sizeof(subcon) units (shared machinery with C10.R1/R2); (R4) Tunnel decodes on parse and encodes on build around the inner construct, Compressed uses decompress/compress (decode/encode) of the same library object selected by the same condition, the compression level only on the compress side. R4 also: every return of Compressed._encode/_decode is the codec's result on the data (no one-sided shortcut); (R5) byte ranges of the rotation table and bit-pair kernels by interval analysis, names resolved by def-use; (R6) direction: the single-byte table is [rotl8(i, amount)] for amount 1..7, the bit-pair kernel takes the high part from byte j+q shifted left by r = amount % 8 and the low part from the cyclically next byte shifted right by 8-r, the whole-byte kernel moves byte (j+q) mod group to j, the single-byte kernel indexes the table by the normalised amount.",
    "undecided": "'Match their definition' -- the XOR / rotation / codec arithmetic itself is numerical; thorough tier adds the byte-range obligations of the rotation formulas (engine I).",
    "trusted_base": ["python ast (3.12)", "sa.summ summariser", "sa/tables.py inverse pairs and unit ratios"],
    "assumptions": [],
}

IN = ("IN",)


def transform_rows(ctx, cls, meth):
    """[(config guards, data term with the input replaced by IN)]"""
    from ..amounts import config_guards
    fi, paths = own_method_paths(ctx, cls, meth)
    rows = set()
    for p in paths:
        if not p.returns:
            continue
        if meth == "_parse":
            src = [e["res"] for e in p.events if e.kind == "READALL" and e["stream"] == STREAM]
            sub = [e for e in p.events if e.kind == "SUB" and e["m"] == "_parsereport"]
            ns = [e for e in p.events if e.kind == "NEWSTREAM"]
            out = ns[-1]["args"][0] if ns and ns[-1]["args"] else None
        else:
            sb = [e for e in p.events if e.kind == "SUB" and e["m"] == "_build"]
            src = [("getvalue", sb[0]["stream"])] if sb else []
            wr = [e for e in p.events if e.kind == "WRITE" and e["stream"] == STREAM]
            out = wr[-1]["data"] if wr else None
        if len(src) != 1 or out is None:
            rows.add((frozenset(), ("UNRESOLVED",)))
            continue
        m = {src[0]: IN}
        g = frozenset(N.canon_lids(N.rebuild(c, m)) for c in p.guards() if not any(x[0] in ("subres",) for x in N.walk(c)))
        rows.add((g, N.canon_lids(N.rebuild(out, m))))
    return fi, rows


def rotl_shape(t):
    """t == ((X << A) & 255) | (Y >> B), modulo operand order of | and & -> (X, A, Y, B); else None."""
    if not (t and t[0] == "bin" and t[1] == "|"):
        return None
    for hi, lo in ((t[2], t[3]), (t[3], t[2])):
        if not (lo[0] == "bin" and lo[1] == ">>" and hi[0] == "bin" and hi[1] == "&"):
            continue
        for sh, mask in ((hi[2], hi[3]), (hi[3], hi[2])):
            if mask == N.const(255) and sh[0] == "bin" and sh[1] == "<<":
                return sh[2], sh[3], lo[2], lo[3]
    return None


def rot_direction(ctx, M, fp, rows):
    """R6: within a group (big-endian bit string) rotating left by 8q+r bits makes result byte j = (byte[j+q] << r) & 0xff | byte[j+q+1] >> (8-r)."""
    rule = "C15.R6"
    ci = M.cls("ProcessRotateLeft")
    tab = ci.assigns.get("precomputed_single_rotations")
    if tab is None:
        raise AnalysisError("anchor vanished: ProcessRotateLeft.precomputed_single_rotations")
    m = control_model("def table():\n    return " + ast.unparse(tab) + "\n")
    from ..core import Ctx
    c2 = Ctx("C15", ctx.tier, m.root, model=m)
    ps = paths_of(c2, m.function("table"))
    t = N.canon_lids(ps[0].retval) if len(ps) == 1 and ps[0].retval else None
    ok = False
    why = "not a dict comprehension of list comprehensions"
    if t and t[0] == "comp" and t[1] == "dict" and t[2][0] == "kv" and t[2][2][0] == "comp" and t[2][2][1] == "list":
        key, inner = t[2][1], t[2][2]
        outer_iter, inner_iter = t[3][0][0], inner[3][0][0]
        sh = rotl_shape(inner[2])
        why = "entry formula is not (i << amount) & 0xff | i >> (8 - amount)"
        if sh:
            X, A, Y, B = sh
            i = ("idx", inner[4][0])
            ok = X == i and Y == i and A == key and B == N.mk_add(N.const(8), key, -1) \
                and outer_iter == ("call", ("free", "range"), (N.const(1), N.const(8)), ()) and inner_iter == ("call", ("free", "range"), (N.const(256),), ())
    ctx.ob(rule, "ProcessRotateLeft", ok, "the single-byte table maps amount 1..7 to [rotl8(i, amount) for i in 0..255]: high part shifted left by the amount, low part shifted right by 8 - amount (%s)" % ("ok" if ok else why),
           key="table direction", loc="%s:%d" % (ci.relpath, tab.lineno))
    # bit-pair kernel of _parse (R2 ties _build to it with the amount negated)
    amt = ("eval", N.selfattr("amount"), CTX)
    grp = ("eval", N.selfattr("group"), CTX)
    namt = ("mod", amt, N.mk_mul(N.const(8), grp))
    r = N.mk_mod(namt, N.const(8))
    found = 0
    for g, term in rows:
        for x in N.walk(term):
            sh = rotl_shape(x) if x[0] == "bin" and x[1] == "|" else None
            if not sh:
                continue
            found += 1
            X, A, Y, B = sh
            ok = A == r and B == N.mk_add(N.const(8), r, -1) and X[0] == "sub" and Y[0] == "sub" and X[1] == Y[1]
            k1 = [u for u in N.walk(X[2]) if u[0] == "unpack"] if ok else []
            k2 = [u for u in N.walk(Y[2]) if u[0] == "unpack"] if ok else []
            ok = ok and len(k1) == 1 and len(k2) == 1 and k1[0][1] == k2[0][1] and k1[0][2] == 0 and k2[0][2] == 1 and N.subst(X[2], {k1[0]: ("k",)}) == N.subst(Y[2], {k2[0]: ("k",)})
            if ok:
                pairs = [u for u in N.walk(k1[0][1]) if u[0] == "tuple" and len(u[1]) == 2]
                ok = bool(pairs)
                for pr in pairs[:1]:
                    first, second = pr[1]
                    q = ("bin", "//", namt, N.const(8))
                    ok = first[0] == "mod" and second[0] == "mod" and first[2] == grp and second[2] == grp and N.contains(first[1], q) and second[1] == N.mk_add(first[1], N.const(1))
            # (the positions and shift counts themselves are decided by rotation_semantics on the folded kernel, whatever form computes them)
    # (a kernel written in another form is decided by rotation_semantics on the folded indices)
    # byte-index kernel: result byte j is byte (j + q) mod group
    q = ("bin", "//", namt, N.const(8))
    idxrows = [term for g, term in rows if N.contains(term, q) and not any(u[0] == "bin" and u[1] in ("<<", ">>") for u in N.walk(term))]
    ok = all(any(u[0] == "mod" and u[2] == grp and N.contains(u[1], q) and N.mk_add(u[1], q, -1)[0] == "idx" for u in N.walk(term)) for term in idxrows)

    tabrows = [term for g, term in rows if any(u[0] == "attr" and u[2] == "precomputed_single_rotations" for u in N.walk(term))]
    ok = bool(tabrows) and all(any(u[0] == "sub" and u[1][0] == "sub" and u[1][1][0] == "attr" and u[1][1][2] == "precomputed_single_rotations" and u[1][2] == namt and u[2][0] == "elem" and u[2][1] == IN
                                  for u in N.walk(term)) for term in tabrows)
    # (which row of the table the single-byte kernel uses is decided by rotation_semantics: ('tab', row, k) must have row == amount mod 8)
    ctx.floor(rule, 3)


def rotation_cases():
    """(group, raw amount, number of groups) samples: every residue for groups of 1..4 bytes, plus over-wide and negative raw amounts."""
    out = []
    for g in (1, 2, 3, 4, 5):
        amounts = set(range(0, 8 * g)) if g <= 4 else {0, 1, 7, 8, 9, 16, 23, 39}
        amounts |= {8 * g, 8 * g + 3, -1, -8, -(8 * g) - 5}
        for a in sorted(amounts):
            for groups in (1, 2):
                out.append((g, a, groups))
    return out


def describe_kernel(t, env, n):
    """What each of the n output bytes of a transform term is made of, with every index / shift count folded under env:
    ('byte', k) = data[k];  ('rot', k1, s1, k2, s2) = (data[k1] << s1) & 0xff | data[k2] >> s2;  ('tab', row, k) = table[row][data[k]]."""
    from ..foldv import foldv, pfold, enumerate_comp, Unfoldable

    def classify(el):
        if el[0] == "sub" and el[1] == IN and N.is_int(el[2]):
            return ("byte", el[2][2])
        if el[0] == "sub" and el[1][0] == "sub" and el[1][1][0] == "attr" and el[1][1][2] == "precomputed_single_rotations" and N.is_int(el[1][2]):
            inner = classify(el[2])
            if inner[0] == "byte":
                return ("tab", el[1][2][2], inner[1])
        sh = rotl_shape(el) if el[0] == "bin" and el[1] == "|" else None
        if sh:
            X, A, Y, B = sh
            cx, cy = classify(X), classify(Y)
            if cx[0] == "byte" and cy[0] == "byte" and N.is_int(A) and N.is_int(B):
                return ("rot", cx[1], A[2], cy[1], B[2])
        raise Unfoldable("output byte %s" % N.show(el)[:100])
    if t == IN:
        return [("byte", i) for i in range(n)]
    if t[0] == "call" and t[1] in (("free", "bytes"), ("free", "bytearray")) and len(t[2]) == 1 and not t[3]:
        return describe_kernel(t[2][0], env, n)
    if t[0] != "comp":
        raise Unfoldable("transform %s" % N.show(t)[:100])
    gens, lids = t[3], t[4]
    if len(gens) == 1 and gens[0][0] == IN and not gens[0][1]:
        # element-wise over the data itself
        out = []
        for i in range(n):
            el = N.rebuild(t[2], {("elem", IN, lids[0]): ("sub", IN, N.const(i)), ("idx", lids[0]): N.const(i)})
            out.append(classify(pfold(el, env)))
        return out
    return [classify(el) for el, _ in enumerate_comp(t, env, {}, pfold)]


def rotation_semantics(ctx, rule):
    """Rotation to the left by `amount` bits inside every group of `group` bytes (big-endian bit string), build rotating by -amount: decided on
    the folded kernels for groups of 1..5 bytes, every residue of the amount, over-wide and negative amounts, one and two groups of data --
    whatever idiom computes the byte positions (index lists, slices, divmod, comprehensions)."""
    from ..foldv import truth, Unfoldable, Raises
    amt, grp = ("eval", N.selfattr("amount"), CTX), ("eval", N.selfattr("group"), CTX)
    lenin = ("call", ("free", "len"), (IN,), ())
    done = {}
    for meth, sign in (("_parse", 1), ("_build", -1)):
        fi, rows = transform_rows(ctx, "ProcessRotateLeft", meth)
        bad = undec = None
        ncase = 0
        for g, a, groups in rotation_cases():
            n = g * groups
            env = {amt: a, grp: g, lenin: n}
            try:
                sel = [t for gs, t in rows if all(truth(c, env) for c in gs)]
                if len(sel) != 1:
                    undec = "%d branches apply for group=%d amount=%d" % (len(sel), g, a)
                    break
                got = describe_kernel(sel[0], env, n)
            except Unfoldable as e:
                undec = "group=%d amount=%d: %s" % (g, a, e)
                break
            except Raises as e:
                bad = "group=%d amount=%d, %d bytes: the kernel raises (%s)" % (g, a, n, e)
                break
            a2 = (sign * a) % (8 * g)
            q, r = divmod(a2, 8)
            want = []
            for pos in range(n):
                base, j = pos - pos % g, pos % g
                want.append(("byte", base + (j + q) % g) if r == 0 else ("rot", base + (j + q) % g, r, base + (j + q + 1) % g, 8 - r))
            norm = [("rot", x[2], x[1], x[2], 8 - x[1]) if x[0] == "tab" else x for x in got]
            ncase += 1
            if norm != want:
                pos = next((i for i in range(min(len(norm), len(want))) if norm[i] != want[i]), min(len(norm), len(want)))
                bad = "group=%d amount=%d, %d bytes: output byte %d is %s, a left rotation by %d bits gives %s%s" % (
                    g, a, n, pos, norm[pos] if pos < len(norm) else "missing", a2, want[pos] if pos < len(want) else "nothing", "" if len(norm) == len(want) else " (%d bytes out for %d in)" % (len(norm), n))
                break
        if undec:
            ctx.error("%s undecided: ProcessRotateLeft.%s cannot be folded (%s)" % (rule, meth, undec))
        ctx.ob(rule, fi, bad is None, "ProcessRotateLeft.%s rotates every group %s by the amount (mod 8*group) bits: byte j of a group is byte j+q shifted left by r, or-ed with byte j+q+1 shifted right by 8-r, "
               "indices cyclic within the group%s" % (meth, "left" if sign == 1 else "right", "" if bad is None else " -- " + bad), key="rotation semantics %s" % meth)
        done[meth] = bad is None and not undec and ncase >= 100
    return done


def rotation_length(ctx, meth):
    """True if the folded kernel of ProcessRotateLeft.<meth> yields exactly len(data) bytes in every sampled case, False if not, None if it cannot be folded."""
    from ..foldv import truth, Unfoldable, Raises
    amt, grp = ("eval", N.selfattr("amount"), CTX), ("eval", N.selfattr("group"), CTX)
    lenin = ("call", ("free", "len"), (IN,), ())
    fi, rows = transform_rows(ctx, "ProcessRotateLeft", meth)
    for g, a, groups in rotation_cases():
        n = g * groups
        env = {amt: a, grp: g, lenin: n}
        try:
            sel = [t for gs, t in rows if all(truth(c, env) for c in gs)]
            if len(sel) != 1:
                return None
            if len(describe_kernel(sel[0], env, n)) != n:
                return False
        except Unfoldable:
            return None
        except Raises:
            return False
    return True


def length_of(t, grp):
    """'same' if the transform term has the length of its input IN for every input, 'shorter' if it can be shorter, None if unknown."""
    if t == IN:
        return "same"
    if t[0] == "call" and t[1] in (("free", "bytes"), ("free", "bytearray"), ("free", "list"), ("free", "tuple")) and len(t[2]) == 1:
        return length_of(t[2][0], grp)
    if t[0] == "call" and t[1][0] == "attr" and t[1][2] == "join" and len(t[2]) == 1:
        return None
    if t[0] != "comp":
        return None
    gens = t[3]
    def src_len(src):
        if src == IN:
            return "same"
        r = length_of(src, grp)
        if r:
            return r
        if src[0] == "call" and src[1] == ("free", "zip"):
            args = src[2]
            fin = [a for a in args if not (a[0] == "call" and a[1][0] in ("attr", "free") and str(a[1][-1]).split(".")[-1] in ("cycle", "count", "repeat"))]
            lens = [src_len(a) for a in fin]
            if len(fin) == 1 and lens[0] == "same":
                return "same"
            if any(l == "same" for l in lens):
                return "shorter"          # zip stops at the shortest finite argument
        return None
    if any(g[1] != () for g in gens):
        return "shorter"                  # a filter drops elements
    if len(gens) == 1:
        return src_len(gens[0][0])
    if len(gens) == 2:
        # for i in range(0, len(IN), group) for k in <a collection of exactly `group` elements>
        a, b = gens[0][0], gens[1][0]
        lenin = ("call", ("free", "len"), (IN,), ())
        outer = a == ("call", ("free", "range"), (N.const(0), lenin, grp), ())
        inner = b[0] == "comp" and len(b[3]) == 1 and b[3][0] == (("call", ("free", "range"), (grp,), ()), ())
        if outer and inner:
            return "same"                 # given len(IN) % group == 0 (R2 length guard)
    return None


def length_preserving(ctx, rule):
    """XOR and rotation never change the number of bytes: what they hand on has the length of what they were given, on every branch."""
    grp = ("eval", N.selfattr("group"), CTX)
    n = 0
    for cls in ("ProcessXor", "ProcessRotateLeft"):
        for meth in ("_parse", "_build"):
            fi, rows = transform_rows(ctx, cls, meth)
            res = {}
            for g, t in rows:
                res.setdefault(length_of(t, grp), []).append(t)
            n += 1
            if None in res and cls == "ProcessRotateLeft":
                # a kernel in a form length_of does not know: count the output bytes of the folded kernel instead
                verdict = rotation_length(ctx, meth)
                if verdict is not None:
                    res.pop(None)
                    res.setdefault("same" if verdict else "shorter", []).append(("folded",))
            if None in res:
                ctx.error("%s undecided: the length of %s in %s.%s is not recognised" % (rule, N.show(res[None][0])[:100], cls, meth))
            ctx.ob(rule, fi, "shorter" not in res and "same" in res, "%s.%s hands on exactly as many bytes as it was given (element-wise over the data, the key cycled)%s" % (
                cls, meth, "" if "shorter" not in res else ": " + N.show(res["shorter"][0])[:120]), key="%s %s length" % (cls, meth))
    return n


def rot_length_guard(ctx, rule):
    """Every path of ProcessRotateLeft._parse/_build that indexes the data in groups first established len(data) % group == 0
    (otherwise the group indexing raises IndexError, or a short last group is silently mangled)."""
    grp = ("eval", N.selfattr("group"), CTX)
    n = 0
    for meth in ("_parse", "_build"):
        fi, rows = transform_rows(ctx, "ProcessRotateLeft", meth)
        want = N.mk_cmp("==", ("mod", ("call", ("free", "len"), (IN,), ()), grp), N.const(0))
        idx = [(g, t) for g, t in rows if t != IN and any(x[0] == "sub" and x[1] == IN for x in N.walk(t))]
        ok = bool(idx) and all(want in g for g, t in idx)
        n += 1
        ctx.ob(rule, fi, ok, "ProcessRotateLeft.%s indexes the data by group only after len(data) %% group == 0 was established (%d indexing branches)" % (meth, len(idx)), key="RotateLeft length guard dominates %s" % meth)
    return n


def run(ctx):
    M = ctx.model
    # ---- R1 ProcessXor
    fp, a = transform_rows(ctx, "ProcessXor", "_parse")
    fb, b = transform_rows(ctx, "ProcessXor", "_build")
    ctx.ob("C15.R1", fb, a == b and len(a) >= 4 and ("UNRESOLVED",) not in {t for g, t in a}, "ProcessXor applies the same key normalisation, shortcut conditions and XOR term on parse and build (%d guard/term rows, %d differ)" % (len(a), len(a ^ b)), key="ProcessXor same function")
    xors = [t for g, t in a if any(x[0] == "bin" and x[1] == "^" for x in N.walk(t))]
    ctx.ob("C15.R1", fp, len(xors) >= 2 and all(N.contains(t, IN) for t in xors), "the transform is an element-wise XOR over the data", key="ProcessXor xor")
    ident = [g for g, t in a if t == IN]
    ctx.ob("C15.R1", fp, bool(ident), "the zero-key shortcut leaves the data unchanged (identical in both directions by the row comparison)", key="ProcessXor shortcut")
    C01.init_store_checks(ctx, "C15.R1", only={"ProcessXor", "ProcessRotateLeft", "Transformed", "Restreamed", "Compressed", "Tunnel"})   # key / amount / group stored as given
    ctx.floor("C15.R1", 3 + 8)

    # ---- R2 ProcessRotateLeft
    fp, a = transform_rows(ctx, "ProcessRotateLeft", "_parse")
    fb, b = transform_rows(ctx, "ProcessRotateLeft", "_build")
    amt = ("eval", N.selfattr("amount"), CTX)
    neg = {amt: N.mk_neg(amt)}
    a_neg = {(frozenset(N.canon_lids(N.rebuild(c, neg)) for c in g), N.canon_lids(N.rebuild(t, neg))) for g, t in a}
    ctx.ob("C15.R2", fb, a_neg == b and len(a) >= 4, "ProcessRotateLeft._build equals _parse with amount replaced by -amount (%d rows, %d differ)" % (len(a), len(a_neg ^ b)), key="RotateLeft negated amount")
    ctx.ob("C15.R2", fb, a != b, "the two directions are not the same rotation", key="RotateLeft not identical")
    grp = ("eval", N.selfattr("group"), CTX)
    uses = [x for g, t in a for x in list(N.walk(t)) + [y for c in g for y in N.walk(c)] if x[0] == "mod" and N.contains(x[1], amt)]
    ctx.ob("C15.R2", fp, bool(uses) and all(x[2] == N.mk_mul(N.const(8), grp) or x[2] == N.const(8) or N.contains(x[1], ("mod", amt, N.mk_mul(N.const(8), grp))) for x in uses),
           "the amount is reduced modulo group*8 bits", key="RotateLeft modulus")
    rot_length_guard(ctx, "C15.R2")
    for cls_m in ("_parse", "_build"):
        fi, paths = own_method_paths(ctx, "ProcessRotateLeft", cls_m)
        ln = [p for p in paths if p.outcome[0] == "raise" and p.outcome[1].get("cls") == "RotationError"]
        conds = {c for p in ln for c in p.guards()}
        ok = N.mk_cmp("<", grp, N.const(1)) in conds and any(c[0] == "cmp" and c[1] == "!=" and c[2][0] == "mod" and c[2][2] == grp for c in conds)
        ctx.ob("C15.R2", fi, ok, "ProcessRotateLeft.%s rejects group < 1 and data whose length is not a multiple of the group" % cls_m, key="RotateLeft guards %s" % cls_m)
    ctx.floor("C15.R2", 7)

    # ---- R3 swaps
    sites = C10.check_macros(ctx, ("ByteSwapped", "BitsSwapped"), "C15.R3", "C15.R3", "C15.R3")
    if sites < 3:
        ctx.error("C15.R3: %d swap instantiation sites, floor 3" % sites)
    from . import C10_helpers
    C10_helpers.run(ctx, "C15.R3")       # the swap helpers and their lookup tables have their reference forms (shared with C10.R5)
    ctx.floor("C15.R3", 12 + 20)

    # ---- R4 tunnel / compressed: the C01.R4 instances
    from ..core import Ctx
    sub = Ctx("C15", ctx.tier, ctx.root, model=ctx.model)
    sub._summ = summariser(ctx)
    C01.tunnel_checks(sub, "C15.R4")
    for o in sub.obligations:
        ctx.ob(o.rule, o.where, o.ok, o.what, key=o.key, loc=o.loc, detail=o.detail)
    ctx.floor("C15.R4", 6)

    # ---- R8 the same transform on every call: parse and build of the transform classes write nothing into the construct (shared with C17.R1)
    from . import C17
    shared17 = C17.module_names(M)
    for cls17 in ("ProcessXor", "ProcessRotateLeft", "Transformed", "Restreamed", "Tunnel", "Compressed"):
        for meth17 in ("_parse", "_build", "_decode", "_encode"):
            if meth17 not in M.cls(cls17).methods:
                continue
            f17 = M.method(cls17, meth17)
            sub17 = type(ctx)("C17", ctx.tier, ctx.root, model=ctx.model)
            sub17._summ = summariser(ctx)
            C17.check_effects(sub17, f17, cls17, shared17, True)
            bad = [o for o in sub17.obligations if not o.ok]
            ctx.ob("C15.R8", f17, not bad, "%s.%s keeps no state between calls%s" % (cls17, meth17, (": " + bad[0].what) if bad else ""), key="stateless")
    ctx.floor("C15.R8", 10)
    # the inner construct of ProcessXor / ProcessRotateLeft / Compressed-like wrappers parses from a BytesIOWithOffsets over the transformed bytes:
    # what it is "presented with" includes where tell() and relative / end-relative seeks land (shared with C08.R3)
    from . import C08 as _C08
    _C08.substream_class_checks(ctx, "C15.R8")
    # ---- R7 length preservation
    length_preserving(ctx, "C15.R7")
    ctx.floor("C15.R7", 4)
    # ---- R6 direction: the documented transform is a rotation to the LEFT
    rot_direction(ctx, M, fp, a)
    sem = rotation_semantics(ctx, "C15.R6")

    from .. import interval
    interval.rotation_obligations(ctx, "C15.R5", decided_elsewhere=tuple(m for m, okm in sem.items() if okm))

    # positive control: same-direction rotation on both sides must be reported by the 'not identical' obligation
    ctx.control("C15.R2", a_neg != a)
