"""C04 -- a compiled construct behaves exactly like the construct it was compiled from."""
import ast
import re

from .. import norm as N
from ..tmpl import TemplateEvaluator, render_variants, emitters, all_holes, Hole, Sub, walk_pieces
from ..tsumm import TemplateSummariser
from .common import *
from . import C01, C11, C16

META = {
    "level": "translation_validation",
    "explanation": "Static translation validation of the code *generator*: the source template that every _emitparse/_emitbuild (39 + 32 class-level emitters and the macro closures of PascalString/PrefixedArray) can generate is recovered from its f-strings, %-formats and `block +=` loops (engine T, nothing is executed), parsed with ast.parse, and summarised in the same event vocabulary as the interpreter (io -> stream, this -> context, io.read/write/tell/seek -> READ/WRITE/TELL/SEEK, placeholders for compiled sub-expressions -> sub-construct calls, restream/reuse/lambdas inlined). One template covers every instance of its class, so agreement of template and interpreter method is agreement for all constructs. Rules: (R0) every template variant parses; (R1) repr discipline: a hole into which a context-evaluated constructor parameter (possibly an expression object or a string) is rendered must use repr -- str() of an expression prints string operands unquoted; (R2) the nested contexts built by generated code equal the interpreter's (direction flags constant-folded, _subcons None as documented), each followed by the _root fix-up, and this.update(obj) appears exactly where the interpreter updates; (R3) skeleton agreement between template and interpreter method per class and direction: same sub-construct calls on the same stream/context in the same order, same read/write amounts and data terms, same stores into result and context, same handlers, same result term, modulo the documented omissions (no path, no _index, no length checks, compile-time sizeof in Padded/Aligned); (R4) the fallback ladder catches exactly NotImplementedError and links field._parse/_build under the same id in the tables compile() copies into the module, and Compiled delegates to parsefunc/buildfunc/defersubcon; (R5) closures patched by macros have the arity of their call sites and parse the count/length first; (R6) generated code binds the helper names the expressions render (shared with C11.R5); (R7) emitter and interpreter consult the same constructor parameters, or the emitter refuses (NotImplementedError -> linked interpreter method) when an unsupported one is set. R6 also carries the operator spelling table and the parse-faithful rendering of expressions (C11.R3/R4: generated code evaluates repr(expression)); (R8) the templates frozen out of R3 for their compile-time specialisation -- parse_peek, parse/build_pointer, parse_union incl. the generation-time index of the selected member -- satisfy the position contracts of C09.R6.",
    "undecided": "Value equality on all inputs and Compiled.sizeof numerics; lambdas other than linked callbacks, Index, parsed hooks, discard and _subcons are excluded by documentation.",
    "trusted_base": ["python ast (3.12) incl. ast.parse of the recovered templates", "sa.tmpl template recovery", "sa.tsumm / sa.summ summarisers", "CodeGen.append normalisation re-implemented in sa.tmpl"],
    "assumptions": ["sub-expressions compiled from sub-constructs are themselves validated by their own class's template (induction over nesting)"],
}

DOC_OMISSIONS = {"discard", "parsed", "_subcons", "name", "docs", "flagbuildnone", "subcon", "subcons"}
R7_FROZEN = {
    ("Array", "discard"): "documented: discard is not supported by compiled code",
    ("Bytes", "length", "_build"): "length only feeds stream_write's length check on build; compiled code omits checks (documented)",
    ("FormatField", "length", "_build"): "length only feeds stream_write's length check on build; struct.pack fixes the size",
    ("Enum", "encmapping"): "emitters inline the table itself", ("Enum", "decmapping"): "emitters inline the table itself",
}


def eval_attrs_of(ctx, cls):
    out = set()
    if cls not in ctx.model.classes:
        return out
    for meth in ("_parse", "_build", "_sizeof"):
        fi, A = C01.consulted(ctx, cls, meth)
        if A:
            out |= {k for k, v in A.items() if "eval" in v}
        if fi is not None:
            # parameters called as predicate(obj, list, context): expression objects as well
            for p in paths_of(ctx, fi, cls):
                for e in p.events:
                    if e.kind == "CALL" and CTX in e["args"]:
                        out |= {x[2] for x in N.walk(e["func"]) if x[0] == "attr" and x[1] == SELF}
    return out


def template_units(ctx):
    """[(emitter FuncInfo, owner name, Emitted variant, [Rendered...])]"""
    M = ctx.model
    T = TemplateEvaluator(M)
    out = []
    for fi, owner in emitters(M):
        try:
            variants = T.evaluate(fi)
        except AnalysisError as e:
            ctx.error(str(e))
            continue
        for em in variants:
            out.append((fi, owner, em, [] if em.not_implemented else list(render_variants(em))))
    return out


def self_attrs(node):
    return {n.attr for n in ast.walk(node) if isinstance(n, ast.Attribute) and isinstance(n.value, ast.Name) and n.value.id == "self"}


def shared_obligations(ctx, rule, owners=None, with_expressions=False):
    """Re-state, under the borrowing property's rule id, the translation-validation obligations (R3 skeleton agreement, R8 frozen templates)
    of the emitters of the given classes: the compiled form of a construct is a construct of that class too."""
    from ..core import Ctx
    sub = getattr(ctx.model, "_c04_shared", None)
    if sub is None:
        sub = Ctx("C04", ctx.tier, ctx.root, model=ctx.model)
        sub._summ = summariser(ctx)
        run(sub)
        ctx.model._c04_shared = sub
    for e in sub.errors:
        ctx.error("shared C04 rules: " + e)
    n = 0
    seen_owner = set()
    for o in sub.obligations:
        if o.rule == "C04.R6" and with_expressions:
            n += 1
            ctx.ob(rule, o.where, o.ok, o.what, key=o.key, loc=o.loc, detail=o.detail)
            continue
        if o.rule not in ("C04.R3", "C04.R5", "C04.R7", "C04.R8"):       # R5: the emitter closures the macros patch onto their result
            continue
        owner = str(o.where).split(".")[0]
        if owners is not None and owner not in owners:
            continue
        seen_owner.add(owner)
        n += 1
        ctx.ob(rule, o.where, o.ok, o.what, key=o.key, loc=o.loc, detail=o.detail)
    if not seen_owner:
        ctx.error("%s: none of the named classes has generated-code obligations" % rule)
    return n


def run(ctx):
    ctx.model._c04_running = True
    try:
        return _run(ctx)
    finally:
        ctx.model._c04_running = False


def _run(ctx):
    M = ctx.model
    units = template_units(ctx)
    programs = 0
    emit_funcs = {}
    for fi, owner, em, rs in units:
        emit_funcs.setdefault(fi.qual, (fi, owner, []))[2].append((em, rs))
    ctx.extra["emitters"] = len(emit_funcs)
    if len(emit_funcs) < 70:
        ctx.error("C04: only %d concrete emitters found, floor 70" % len(emit_funcs))

    # ---------------------------------------------------------------- R0 templates parse
    for q, (fi, owner, lst) in sorted(emit_funcs.items()):
        ok = True
        why = ""
        n = 0
        for em, rs in lst:
            for r in rs:
                n += 1
                programs += 1
                try:
                    for b in r.text_blocks:
                        ast.parse(b)
                    ast.parse(r.text_ret or "None", mode="eval")
                except SyntaxError as e:
                    ok = False
                    why = "%s in %r" % (e.msg, (e.text or "")[:80])
        refuses = all(em.not_implemented for em, rs in lst)
        ctx.ob("C04.R0", fi, ok, "every variant of the generated source parses as Python (%d variants)%s" % (n, (": " + why) if why else (" -- emitter always refuses" if refuses else "")), key="parses")
    ctx.extra["programs"] = programs
    # every fresh name (built from code.allocateId()) that generated code refers to is defined by a block the same run of the emitter appended
    nfresh = 0
    for q, (fi, owner, lst) in sorted(emit_funcs.items()):
        fresh_locals = {t.id for st in ast.walk(fi.node) if isinstance(st, ast.Assign) and any(isinstance(c, ast.Attribute) and c.attr == "allocateId" for c in ast.walk(st.value))
                        for t in st.targets if isinstance(t, ast.Name)}
        missing = set()
        used_any = False
        for em, rs in lst:
            if em.not_implemented:
                continue
            for r in rs:
                fresh = {nm for nm, h in r.holes.items() if (isinstance(h.node, ast.Name) and h.node.id in fresh_locals) or any(isinstance(c, ast.Attribute) and c.attr == "allocateId" for c in ast.walk(h.node))}
                if not fresh:
                    continue
                try:
                    trees = [ast.parse(b) for b in r.text_blocks] + [ast.parse(r.text_ret or "None", mode="eval")]
                except SyntaxError:
                    continue
                pat = re.compile(r"(?:^|_)(%s)$" % "|".join(sorted(fresh)))
                defined, used = set(), set()
                for t in trees:
                    for n in (t.body if isinstance(t, ast.Module) else []):
                        if isinstance(n, ast.FunctionDef):
                            defined.add(n.name)
                        elif isinstance(n, ast.Assign):
                            defined |= {x.id for x in n.targets if isinstance(x, ast.Name)}
                    ids = {id(n.slice) for n in ast.walk(t) if isinstance(n, ast.Subscript)}     # userfunction[<id>]: the id is a key, not a name
                    for n in ast.walk(t):
                        if isinstance(n, ast.Name) and isinstance(n.ctx, ast.Load) and pat.search(n.id) and id(n) not in ids:
                            used.add(n.id)
                used_any = used_any or bool(used)
                missing |= used - defined
        if used_any:
            nfresh += 1
            ctx.ob("C04.R0", fi, not missing, "every freshly allocated name the generated code refers to is defined by a block appended in the same emitter run%s" % ((": undefined " + ", ".join(sorted(missing))) if missing else ""), key="fresh names defined")
    ctx.extra["emitters_with_fresh_names"] = nfresh
    if nfresh < 15:
        ctx.error("C04.R0: only %d emitters use freshly allocated names, floor 15" % nfresh)
    ctx.floor("C04.R0", 88)

    # ---------------------------------------------------------------- R1 repr discipline
    n1 = 0
    for q, (fi, owner, lst) in sorted(emit_funcs.items()):
        ev = eval_attrs_of(ctx, owner)
        seen = {}
        for em, rs in lst:
            if em.not_implemented:
                continue
            for h in all_holes(em):
                if not isinstance(h, Hole):
                    continue
                attrs = self_attrs(h.node) & ev
                direct = isinstance(h.node, ast.Attribute) and isinstance(h.node.value, ast.Name) and h.node.value.id == "self"
                if not attrs or not direct:
                    continue
                a = h.node.attr
                seen.setdefault(a, set()).add(h.conv)
        for a, convs in sorted(seen.items()):
            n1 += 1
            ctx.ob("C04.R1", fi, convs == {"repr"}, "parameter self.%s (evaluated against the context by the interpreter, so it may be an expression object or a string) is rendered into generated code with %s; str() of an expression prints string operands unquoted" % (a, "/".join(sorted(convs))),
                   key="hole %s" % a)
    ctx.floor("C04.R1", 25)

    # ---------------------------------------------------------------- template summaries
    summaries = {}     # emitter qual -> list of (em, rendered, TemplateSummariser, {fname: paths})
    for q, (fi, owner, lst) in sorted(emit_funcs.items()):
        ev = eval_attrs_of(ctx, owner)
        for em, rs in lst:
            seen_text = set()
            for r in rs:
                key = (tuple(r.text_blocks), r.text_ret)
                if key in seen_text:
                    continue
                seen_text.add(key)
                try:
                    ts = TemplateSummariser(M, r, fi, owner if owner in M.classes else None, eval_attrs=ev)
                    fps = {}
                    for fn in ts.functions():
                        f = ts.model.function(fn)
                        fps[fn] = ts.summarise(f, bindings={"self": SELF, "code": ("free", "code")})
                        ctx.paths += len(fps[fn])
                    summaries.setdefault(q, []).append((em, r, ts, fps))
                except AnalysisError as e:
                    ctx.error("template of %s cannot be summarised: %s" % (q, e))
        ctx.functions.add(q)

    # ---------------------------------------------------------------- R2 nested contexts in generated code
    n2 = 0
    verdict, sites = {}, set()
    this, io = ("param", "this"), ("param", "io")
    for q, lst in sorted(summaries.items()):
        fi = emit_funcs[q][0]
        direction = "parse" if "_emitparse" in q else "build"
        checked = set()
        for em, r, ts, fps in lst:
            for fn, paths in fps.items():
                for e in uniq_events(paths, "NEWCTX"):
                    kw = dict(e["kw"])
                    new = e["res"]
                    want = {"_": this, "_params": ("sub", this, N.const("_params")), "_root": N.NONE,
                            "_parsing": N.const(direction == "parse"), "_building": N.const(direction == "build"), "_sizing": N.FALSE,
                            "_subcons": N.NONE, "_io": io, "_index": ("ctxget", this, (N.const("_index"), N.NONE))}
                    for k, v in want.items():
                        got = kw.get(k)
                        alt = ("attr", this, k) if k == "_params" else None
                        good = got == v or (alt is not None and got == alt)
                        cur = verdict.get((q, "newctx %s" % k), (True, None))
                        verdict[(q, "newctx %s" % k)] = (cur[0] and good, "generated nested context: %s must be %s (got %s)" % (k, N.show(v), N.show(got) if got is not None else "missing"))
                    cur = verdict.get((q, "newctx keys"), (True, None))
                    verdict[(q, "newctx keys")] = (cur[0] and set(kw) == set(want), "generated nested context has exactly the interpreter's keys")
                    sites.add((q, fn))
                for p in paths:
                    for i, e in enumerate(p.events):
                        if e.kind == "NEWCTX":
                            new = e["res"]
                            nxt = next((f for f in p.events[i + 1:] if f.kind in ("CTXSET", "CTXUPDATE", "SUB", "EVAL")), None)
                            v1 = ("call", ("attr", ("sub", new, N.const("_")), "get"), (N.const("_root"), new), ())
                            ok = nxt is not None and nxt.kind == "CTXSET" and nxt["ctx"] == new and nxt["key"] == N.const("_root") and nxt["value"] == v1
                            cur = verdict.get((q, "newctx _root"), (True, None))
                            verdict[(q, "newctx _root")] = (cur[0] and ok, "generated code fixes up _root := parent.get('_root', new) right after creating the nested context")
                            break
        # context.update(obj) parity
        owner = emit_funcs[q][1]
        if owner in ("Struct", "Union", "Sequence", "FocusedSeq") and direction == "build":
            fi_i, ip = method_paths(ctx, owner, "_build")
            interp_upd = any(e.kind == "CTXUPDATE" for p in ip for e in p.events)
            templ_upd = any(e.kind == "CTXUPDATE" for em, r, ts, fps in lst for paths in fps.values() for p in paths for e in p.events)
            ctx.ob("C04.R2", fi, interp_upd == templ_upd, "%s build: this.update(obj) in generated code %s, context.update(obj) in the interpreter %s" % (owner, templ_upd, interp_upd), key="update parity")
    for (q, key), (ok, what) in sorted(verdict.items()):
        ctx.ob("C04.R2", emit_funcs[q][0], ok, what, key=key)
    n2 = len({q for q, fn in sites})
    ctx.extra["generated_newctx_sites"] = n2
    if n2 < 8:
        ctx.error("C04.R2: %d emitters build a nested context, floor 8" % n2)
    ctx.floor("C04.R2", 8 * 10)

    # ---------------------------------------------------------------- R3 skeleton agreement
    from . import C04_skeleton
    C04_skeleton.run(ctx, emit_funcs, summaries)

    # ---------------------------------------------------------------- R4 fallback ladder
    code = ("param", "code")
    for meth, emit, table, sig in (("_compileparse", "_emitparse", "linkedparsers", "(io, this"), ("_compilebuild", "_emitbuild", "linkedbuilders", "(obj, io, this")):
        fi, paths = own_method_paths(ctx, "Construct", meth)
        trs = uniq_events(paths, "TRY")
        ctx.ob("C04.R4", fi, len(trs) == 1 and trs[0]["handlers"] == (("NotImplementedError",),), "%s catches exactly NotImplementedError" % meth, key="%s handler" % meth)
        em = [e for p in paths for e in p.events if e.kind == "SELFCALL" and e["method"] == emit]
        ctx.ob("C04.R4", fi, bool(em) and all(e["args"] == (code,) for e in em), "%s asks %s(code) first" % (meth, emit), key="%s primary" % meth)
        fb = [p for p in paths if any(e.kind == "CATCH" for e in p.events) and p.returns]
        good = bool(fb)
        for p in fb:
            inst = [e for e in p.events if e.kind == "SELFCALL" and e["method"] == "_compileinstance"]
            r = p.retval
            texts = [x[2] for x in r[1] if N.is_const(x)] if r[0] == "fstr" else []
            ids = [x for x in (r[1] if r[0] == "fstr" else ()) if x[0] == "fmtval"]
            good = good and len(inst) == 1 and inst[0]["args"] == (code,) and any(t.startswith(table + "[") for t in texts) and any(sig in t for t in texts) \
                and len(ids) == 1 and ids[0][1] == ("call", ("free", "id"), (SELF,), ())
        ctx.ob("C04.R4", fi, good, "on NotImplementedError %s registers the instance and emits %s[id(self)]%s, ...)" % (meth, table, sig), key="%s fallback" % meth)
    fi, paths = own_method_paths(ctx, "Construct", "_compileinstance")
    st = {}
    for p in paths:
        for e in p.events:
            if e.kind == "STORE" and e["base"][0] == "attr" and e["base"][1] == code:
                st[e["base"][2]] = (e["key"], e["value"])
    fld = ("call", ("free", "extractfield"), (SELF,), ())
    key = ("call", ("free", "id"), (SELF,), ())
    ok = st.get("linkedparsers") == (key, ("attr", fld, "_parse")) and st.get("linkedbuilders") == (key, ("attr", fld, "_build")) and st.get("linkedinstances") == (key, fld)
    ctx.ob("C04.R4", fi, ok, "_compileinstance links field._parse under linkedparsers and field._build under linkedbuilders, both under id(self)", key="link tables")
    fi, paths = own_method_paths(ctx, "Construct", "compile")
    copied = {}
    for p in paths:
        for e in p.events:
            if e.kind == "ATTRSET" and isinstance(e["attr"], str) and e["attr"].startswith(("linked", "userfunction")):
                copied[e["attr"]] = e["value"]
    ok = all(v[0] == "attr" and v[2] == k and v[1][0] == "new" and v[1][1] == "CodeGen" for k, v in copied.items()) and set(copied) == {"linkedinstances", "linkedparsers", "linkedbuilders", "userfunction"}
    ctx.ob("C04.R4", fi, ok, "compile() copies the four link tables of its own CodeGen into the generated module under the same names", key="copy tables")
    news = [e for p in paths for e in p.events if e.kind == "NEW" and e["cls"] == "CodeGen"]
    ctx.ob("C04.R4", fi, len({id(e.node) for e in news}) == 1, "compile() creates one fresh CodeGen per call", key="fresh codegen")
    fi, paths = own_method_paths(ctx, "Compiled", "_parse")
    ok = len(paths) == 1 and paths[0].retval == ("call", N.selfattr("parsefunc"), (STREAM, CTX), ())
    ctx.ob("C04.R4", fi, ok, "Compiled._parse is parsefunc(stream, context)", key="Compiled parse")
    fi, paths = own_method_paths(ctx, "Compiled", "_build")
    ok = len(paths) == 1 and paths[0].retval == ("call", N.selfattr("buildfunc"), (OBJ, STREAM, CTX), ())
    ctx.ob("C04.R4", fi, ok, "Compiled._build is buildfunc(obj, stream, context)", key="Compiled build")
    fi, paths = own_method_paths(ctx, "Compiled", "_sizeof")
    subs = [e for p in paths for e in p.events if e.kind == "SUB"]
    ok = len(paths) == 1 and len(subs) == 1 and subs[0]["target"] == N.selfattr("defersubcon") and subs[0]["m"] == "_sizeof" and paths[0].retval == subs[0]["res"]
    ctx.ob("C04.R4", fi, ok, "Compiled._sizeof defers to the original construct", key="Compiled sizeof")
    # template prologue: parseall/buildall signature and Compiled(parseall, buildall)
    comp = M.method("Construct", "compile")
    fs = [n for n in ast.walk(comp.node) if isinstance(n, ast.JoinedStr)]
    texts = ["".join(v.value if isinstance(v, ast.Constant) else "X" for v in f.values) for f in fs]
    ok = any("def parseall(io, this):" in t and "def buildall(obj, io, this):" in t and "Compiled(parseall, buildall)" in t for t in texts)
    ctx.ob("C04.R4", comp, ok, "the module template defines parseall(io, this) / buildall(obj, io, this) and wraps them in Compiled(parseall, buildall)", key="module template")
    # the compiled instance is a function of the construct alone: compile()/_compileinstance/_compileparse/_compilebuild keep no
    # module- or class-level state (a cache keyed by the generated text would hand one construct the code, and the linked lambdas, of another)
    from . import C17
    shared = C17.module_names(M)
    for meth in ("compile", "_compileinstance", "_compileparse", "_compilebuild", "_emitparse", "_emitbuild"):
        f17 = M.method("Construct", meth)
        if f17 is None:
            raise AnalysisError("anchor vanished: Construct." + meth)
        sub17 = type(ctx)("C17", ctx.tier, ctx.root, model=ctx.model)
        sub17._summ = summariser(ctx)
        C17.check_effects(sub17, f17, "Construct", shared, False)
        bad = [o for o in sub17.obligations if not o.ok]
        ctx.ob("C04.R4", f17, not bad, "Construct." + meth + " keeps no module/class-level state" + ((": " + bad[0].what) if bad else ""), key=meth + " stateless")
    ctx.floor("C04.R4", 19)

    # ---------------------------------------------------------------- R5 patched closures
    C16.arity_check(ctx, "C04.R5")
    for q in ("PascalString._emitparse", "PrefixedArray._emitparse", "PrefixedArray._emitbuild"):
        lst = summaries.get(q, [])
        fi = emit_funcs[q][0] if q in emit_funcs else None
        ok = bool(lst)
        for em, r, ts, fps in lst:
            for p in fps.get("__template__", []):
                subs = [e for e in p.events if e.kind == "SUB"]
                first = subs[0]["target"] if subs else None
                ok = ok and first is not None and first[1] in ("lengthfield", "countfield")
        if fi is not None:
            ctx.ob("C04.R5", fi, ok, "%s processes the length/count field first, then the payload (as the macro's expansion does)" % q, key="field first")
            # exact shape of what the closure computes, stated against the macro's documented expansion
            shape = bool(lst)
            for em, r, ts, fps in lst:
                for p in fps.get("__template__", []):
                    if not p.returns:
                        continue
                    subs = [e for e in p.events if e.kind == "SUB"]
                    io = ("param", "io")
                    if q == "PascalString._emitparse":
                        # Prefixed(lengthfield, GreedyBytes) decoded with the encoding: read exactly the announced length, decode it
                        rd = [e for e in p.events if e.kind == "READ"]
                        shape = shape and len(subs) == 1 and len(rd) == 1 and rd[0]["length"] == subs[0]["res"] and rd[0]["stream"] == io \
                            and p.retval == ("call", ("attr", rd[0]["res"], "decode"), (("free", "encoding"),), ())
                    elif q == "PrefixedArray._emitparse":
                        # count elements, each parsed once, in order, collected in a ListContainer
                        cnt = [e for e in subs if e["target"][1] == "countfield"]
                        el = [e for e in subs if e["target"][1] == "subcon"]
                        rv = p.retval
                        shape = shape and len(cnt) == 1 and len(el) == 1 and rv is not None and rv[0] == "new" and rv[1] == "ListContainer" and len(rv[3]) == 1 and rv[3][0][0] == "comp" \
                            and rv[3][0][2] == el[0]["res"] and rv[3][0][3] == ((("call", ("free", "range"), (cnt[0]["res"],), ()), ()),)
                    elif q == "PrefixedArray._emitbuild":
                        # the count field builds len(obj), every element of obj is built once in order, the expression evaluates to obj
                        cnt = [e for e in subs if e["target"][1] == "countfield"]
                        el = [e for e in subs if e["target"][1] == "subcon"]
                        good_cnt = all(e["obj"] == ("call", ("free", "len"), (OBJ,), ()) for e in cnt)
                        good_el = all(e["obj"][0] == "elem" and e["obj"][1] == OBJ for e in el)
                        shape = shape and good_cnt and good_el and (bool(cnt) or bool(el))
            ctx.ob("C04.R5", fi, shape, "%s computes exactly what the macro's expansion computes (announced length read and decoded / count elements parsed in order / len(obj) then every element built)" % q, key="closure shape")
    # every emitter closure a macro patches onto its result is either covered by the dedicated rule above or, at least, keeps the value
    # convention of generated build code (an expression that evaluates to the object built -- what the enclosing Struct stores into the
    # context): no branch of it is the constant None.  Anything else about an unlisted closure is undecided (reported as such).
    DEDICATED = {"PascalString._emitparse", "PrefixedArray._emitparse", "PrefixedArray._emitbuild"}
    for q, (fi, owner, lst0) in sorted(emit_funcs.items()):
        if owner in M.classes or q in DEDICATED:
            continue
        lst = summaries.get(q, [])
        if fi.name == "_emitbuild":
            bad = []
            for em, r, ts, fps in lst:
                for p in fps.get("__template__", []):
                    rv = p.retval
                    consts = [x for x in N.walk(rv)] if rv is not None else []
                    if p.returns and (rv == N.NONE or (rv is not None and rv[0] == "ite" and N.NONE in (rv[2], rv[3]))):
                        bad.append(N.show(rv)[:80])
            ctx.ob("C04.R5", fi, not bad, "%s: generated build code evaluates to the built object on every branch, never to None (%s)" % (q, bad[:1]), key="build value")
        ctx.error("C04.R5 undecided: %s is an emitter closure patched by a macro for which no dedicated rule exists; its agreement with the macro's expansion is not decided" % q)
    ctx.floor("C04.R5", 23)

    # ---------------------------------------------------------------- R6 prologue names (shared with C11.R5)
    C11.prologue_check(ctx, "C04.R6")
    # generated code evaluates repr(expression): the operator spellings (C11.R3) and the parse-faithfulness of the rendering (C11.R4)
    # are what makes a context expression select the same branch, length or count there as in the interpreter
    from ..core import Ctx
    sub = Ctx("C11", ctx.tier, ctx.root, model=ctx.model)
    sub._summ = summariser(ctx)
    C11.run(sub)
    for e in sub.errors:
        ctx.error("shared C11 rules: " + e)
    for o in sub.obligations:
        if o.rule in ("C11.R1", "C11.R2", "C11.R3", "C11.R4"):
            ctx.ob("C04.R6", o.where, o.ok, o.what, key=o.key, loc=o.loc, detail=o.detail)
    ctx.floor("C04.R6", 5 + 20 + 6)

    # ---------------------------------------------------------------- R8 the templates frozen out of R3 for their compile-time specialisation (Peek, Pointer, Union parse): position contracts shared with C09.R6
    from . import C09_templates
    C09_templates.run(ctx, "C04.R8")

    # ---------------------------------------------------------------- R7 parameter agreement emitter vs interpreter
    n7 = 0
    for q, (fi, owner, lst) in sorted(emit_funcs.items()):
        if owner not in M.classes:
            continue
        meth = "_parse" if fi.name == "_emitparse" else "_build"
        fi_i, A = C01.consulted(ctx, owner, meth)
        if A is None:
            continue
        want = set(A) - DOC_OMISSIONS
        have = self_attrs(fi.node)
        refuses_on = set()
        for em, rs in lst:
            if em.not_implemented:
                for cnd, pol in em.conds:
                    refuses_on |= self_attrs(cnd)
        for a in sorted(want):
            n7 += 1
            ok = a in have or a in refuses_on or (owner, a) in R7_FROZEN or (owner, a, meth) in R7_FROZEN
            # parameters reached through derived attributes (fmtstr/length of FormatField are set from the same arguments)
            ctx.ob("C04.R7", fi, ok, "%s consults self.%s but %s neither renders it nor refuses (NotImplementedError) when it is set: compiled code ignores the parameter" % (fi_i.qual, a, q),
                   key="param %s" % a, detail=R7_FROZEN.get((owner, a)) or R7_FROZEN.get((owner, a, meth)))
    ctx.floor("C04.R7", 60)

    ctx.extra["disagreements_checked"] = sum(1 for o in ctx.obligations if o.rule in ("C04.R3", "C04.R2", "C04.R7"))

    # positive control: a str-rendered evaluated parameter must be reported
    ctl = control_model(
        "def evaluate(param, context):\n    return param(context) if callable(param) else param\n"
        "class Construct(object):\n    pass\n"
        "class X(Construct):\n"
        "    def _parse(self, stream, context, path):\n        return stream_read(stream, evaluate(self.length, context), path)\n"
        "    def _build(self, obj, stream, context, path):\n        return obj\n"
        "    def _sizeof(self, context, path):\n        return evaluate(self.length, context)\n"
        "    def _emitparse(self, code):\n        return f'io.read({self.length})'\n"
        "def stream_read(stream, length, path):\n    return stream.read(length)\n")
    from ..core import Ctx
    c2 = Ctx("C04", ctx.tier, ctl.root, model=ctl)
    T2 = TemplateEvaluator(ctl)
    f2 = ctl.method("X", "_emitparse")
    ev2 = eval_attrs_of(c2, "X")
    hs = [h for em in T2.evaluate(f2) for h in all_holes(em) if isinstance(h, Hole)]
    ctx.control("C04.R1", "length" in ev2 and any(h.conv == "str" for h in hs))
