"""C08 -- delimited regions confine their inner construct; offsets stay absolute."""
from .. import norm as N
from ..pos import Trace, P0, END, is_top
from .common import *

META = {
    "level": "other",
    "explanation": "Confinement and offset consistency of the six delimiting classes (Prefixed, FixedSized, OffsettedEnd, NullTerminated, NullStripped, ProcessXor): (R1) on every successful parse path the inner construct runs on a substream created in this method from data read from the outer stream, and nothing touches the outer stream after that read-out, so the outer position is fixed before the inner construct runs, whatever it consumes; (R2) the outer exit position is what the delimiter's contract says -- Prefixed: after the length field plus the announced length (minus the field's own size iff includelength); FixedSized: entry + length; OffsettedEnd: end + endoffset, with the tell/seek-end/tell/seek-back probe restoring the current position; NullTerminated: reads are exactly len(term) wide, the terminator is part of the region data iff `include`, the stream steps back by len(term) iff not `consume`, EOF is re-raised iff `require`; (R3) the substream is a BytesIOWithOffsets whose offset argument is a tell of the outer stream taken where the region's first byte lies, BytesIOWithOffsets.__init__ stores that offset, tell() adds it and absolute seek() subtracts the same attribute (relative seeks are passed through) and returns tell(). (R4) NullStripped hands the inner construct the region minus trailing bytes that were compared equal to the pad on that path: rstrip only for a one-byte pad, and for longer pads every shortening step of the end index (partial tail unit, whole units in the loop) is justified by an equality guard between exactly the dropped slice and the pad (prefix). (R5) the generated code of the delimiting classes agrees with the interpreter methods (shared with C04.R3). (R6) Lazy's skip over a delimited region ends at the region end (shared with C16.R1) and ProcessXor/ProcessRotateLeft hand on as many bytes as they were given (shared with C15.R7).",
    "undecided": "behaviour for overlong regions beyond the stream_read length check; Transformed/Restreamed/ProcessRotateLeft/Tunnel substreams are plain by documentation ('do NOT use seeking/telling classes inside').",
    "trusted_base": ["python ast (3.12)", "sa.summ summariser", "sa.pos position algebra", "io.BytesIO semantics"],
    "assumptions": ["Tell/RawCopy/Pointer/Lazy use only stream_tell/stream_seek (C06.R1), hence see BytesIOWithOffsets.tell/seek"],
}

CLASSES = ("Prefixed", "FixedSized", "OffsettedEnd", "NullTerminated", "NullStripped", "ProcessXor")


def conjuncts(p):
    out = []
    def flat(c):
        if c[0] == "bool" and c[1] == "and":
            for x in c[2]:
                flat(x)
        else:
            out.append(c)
    for g in p.guards():
        flat(g)
    return out


def null_stripped(ctx, fi, paths, rule="C08.R4"):
    """R4: the inner construct sees the whole region except trailing bytes that were compared with the pad.

    Every byte cut off the end of the region data must have been compared equal to the pad (or to a prefix of it, for a trailing partial
    unit) on that path: data.rstrip(pad) for a one-byte pad, and for longer pads each shortening step of the end index is justified by an
    equality guard between exactly the dropped slice and the pad."""
    pad = N.selfattr("pad")
    unit = ("call", ("free", "len"), (pad,), ())
    n = 0
    for p in paths:
        new = [e for e in p.events if e.kind == "NEWSTREAM"]
        rd = [e for e in p.events if e.kind == "READALL"]
        if not p.returns or len(new) != 1 or len(rd) != 1:
            continue
        n += 1
        D = rd[0]["res"]
        lenD = ("call", ("free", "len"), (D,), ())
        tail = N.mk_mod(lenD, unit)
        data = new[0]["args"][0]
        cj = conjuncts(p)
        if data == D:
            ok, why = True, "whole region"
        elif data == ("call", ("attr", D, "rstrip"), (pad,), ()):
            ok, why = N.mk_cmp("==", unit, N.const(1)) in cj, "rstrip(pad) only for a one-byte pad (bytes.rstrip strips a set of byte values, not units)"
        elif data[0] == "sub" and data[1] == D and data[2][0] == "slice" and data[2][1] == N.const(None) and data[2][3] == N.const(None):
            E = data[2][2]
            steps, ok = [], True
            cur = E
            lvs = [x for x in N.walk(E) if x[0] == "lv"]
            if lvs:
                lv = lvs[0]
                # last iteration dropped exactly one unit, under the guard that this unit equals the pad
                ok = ok and cur == N.mk_add(lv, unit, -1)
                want = N.mk_cmp("==", pad, ("sub", D, ("slice", N.mk_add(lv, unit, -1), lv, N.const(None))))
                ok = ok and want in cj
                steps.append("unit loop")
                cur = lv[3]
            if cur == N.mk_add(lenD, tail, -1):
                # the last `tail` bytes of the region, however the slice names them: D[-tail:], D[len(D)-tail:], with or without the explicit end
                wants = [N.mk_cmp("==", ("sub", pad, ("slice", N.const(None), tail, N.const(None))), ("sub", D, ("slice", lo_, hi_, N.const(None))))
                         for lo_ in (N.mk_neg(tail), N.mk_add(lenD, tail, -1)) for hi_ in (N.const(None), lenD)]
                ok = ok and any(w_ in cj for w_ in wants)
                steps.append("partial tail")
            elif cur != lenD:
                ok = False
                steps.append("unrecognised end %s" % N.show(cur))
            why = "each shortening step (%s) is guarded by dropped-slice == pad" % ", ".join(steps or ["none"])
        else:
            ok, why = False, "unrecognised region data %s" % N.show(data)
        ctx.ob(rule, fi, ok, "NullStripped hands the inner construct the region minus bytes that compared equal to the pad: %s" % why, key="stripped bytes are pad: %s" % why)
    # completeness: with a multi-byte pad the data handed on is always the slice up to the end index the strip loop computed
    # (a path that hands the whole region on without having looked at its tail would leave the padding in)
    multi = [p for p in paths if p.returns and N.mk_cmp("!=", unit, N.const(1)) in conjuncts(p)]
    okc = bool(multi)
    for p in multi:
        new = [e for e in p.events if e.kind == "NEWSTREAM"]
        lp = [e for e in p.events if e.kind == "LOOP"]
        d = new[0]["args"][0] if new else None
        okc = okc and bool(lp) and d is not None and d[0] == "sub" and d[2][0] == "slice"
    ctx.ob(rule, fi, okc, "with a pad of several bytes NullStripped always hands on data[:end], end being what the strip loop left (never the unexamined region)", key="strip applied")
    n += 1
    # loop-carried: in the iteration assumption of every non-final iteration the same guard holds (the loop condition is that guard)
    loops = uniq_events(paths, "LOOP")
    for lp in loops:
        c = lp["iter"]
        cs = c[2] if c[0] == "bool" and c[1] == "and" else (c,)
        ok = any(x[0] == "cmp" and x[1] == "==" and pad in x[2:] and any(y[0] == "sub" and y[2][0] == "slice" for y in x[2:]) for x in cs)
        ctx.ob(rule, fi, ok, "the strip loop continues only while the unit before the end index equals the pad", key="loop condition")
        # every ordering conjunct of the loop condition, brought to the form t >= 0: t must be (end index) - unit
        def nonneg(x):
            a_, b_ = x[2], x[3]
            return {">=": lambda: N.mk_add(a_, b_, -1), ">": lambda: N.mk_add(N.mk_add(a_, b_, -1), N.const(-1)),
                    "<=": lambda: N.mk_add(b_, a_, -1), "<": lambda: N.mk_add(N.mk_add(b_, a_, -1), N.const(-1))}[x[1]]()
        bound = [x for x in cs if x[0] == "cmp" and x[1] in (">=", ">", "<=", "<")]
        rds = [x for x in N.walk(c) if x[0] == "readall"]
        lenD_ = ("call", ("free", "len"), (rds[0],), ()) if rds else N.NONE
        ends = [lenD_, N.mk_add(lenD_, N.mk_mod(lenD_, unit), -1)]        # the end index the loop starts from: the region's length, less a stripped partial tail
        okb = bool(bound) and all(any(nonneg(x) == N.mk_add(e_, unit, -1) for e_ in ends) for x in bound)
        ctx.ob(rule, fi, okb, "the strip loop may shorten the data down to nothing (end - unit >= 0): a region that is all padding becomes empty", key="loop bound")
        n += 1
        n += 1
    return n


def substream_class_checks(ctx, rule):
    """BytesIOWithOffsets: stores the offset, tell() adds it, absolute seek() subtracts it, relative seeks pass through, from_reading tells first."""
    M = ctx.model
    # ---- BytesIOWithOffsets itself
    off = N.selfattr("parent_stream_offset")
    fi, paths = own_method_paths(ctx, "BytesIOWithOffsets", "__init__")
    w = [e for p in paths for e in p.events if e.kind == "SELFWRITE" and e["attr"] == "parent_stream_offset"]
    ctx.ob(rule, fi, len(paths) == 1 and len(w) == 1 and w[0]["value"] == ("param", "offset"), "__init__ stores the offset argument as parent_stream_offset", key="init stores offset")
    sup = [e for p in paths for e in p.events if e.kind == "SUPERIO" and e["method"] == "__init__"]
    ctx.ob(rule, fi, len(sup) == 1 and sup[0]["args"] == (("param", "contents"),), "__init__ initialises the BytesIO with the region's contents", key="init contents")
    fi, paths = own_method_paths(ctx, "BytesIOWithOffsets", "tell")
    inner = ("call", ("attr", ("call", ("free", "super"), (), ()), "tell"), (), ())
    ctx.ob(rule, fi, len(paths) == 1 and paths[0].retval == N.mk_add(inner, off), "tell() is the inner position plus parent_stream_offset", key="tell")
    fi, paths = own_method_paths(ctx, "BytesIOWithOffsets", "seek")
    absp = [p for p in paths if any(c[0] == "cmp" and c[1] == "==" and ("param", "whence") in c[2:] for c in p.guards())]
    relp = [p for p in paths if any(c[0] == "cmp" and c[1] == "!=" and ("param", "whence") in c[2:] for c in p.guards())]
    good = len(absp) == 1 and len(relp) == 1
    if good:
        a = [e for e in absp[0].events if e.kind == "SUPERIO" and e["method"] == "seek"]
        r = [e for e in relp[0].events if e.kind == "SUPERIO" and e["method"] == "seek"]
        good = len(a) == 1 and a[0]["args"] == (N.mk_add(("param", "offset"), off, -1),) and len(r) == 1 and r[0]["args"] == (("param", "offset"), ("param", "whence"))
        setc = [c for c in absp[0].guards() if c[0] == "cmp"][0]
        good = good and ("attr", ("free", "io"), "SEEK_SET") in setc[2:]
    ctx.ob(rule, fi, good, "absolute seek() subtracts the same parent_stream_offset; relative seeks are passed through unchanged", key="seek")
    ctx.ob(rule, fi, all(p.retval == N.mk_add(inner, off) for p in paths), "seek() returns the absolute position (tell())", key="seek returns tell")
    fi = M.resolve("BytesIOWithOffsets", "from_reading")
    paths = paths_of(ctx, fi)
    ok = len(paths) == 1
    if ok:
        t = Trace(paths[0], STREAM)
        r = paths[0].retval
        ok = r is not None and r[0] == "newstream" and r[1] == "BytesIOWithOffsets" and len(r[3]) == 3 and r[3][1] == STREAM and r[3][0][0] == "read" \
            and r[3][0][2] == ("param", "length") and t.val(r[3][2]) == P0(STREAM) and r[3][2][0] == "tell"
    ctx.ob(rule, fi, ok, "from_reading tells first, then reads `length` bytes, and wraps them with the offset told before the read", key="from_reading")



def run(ctx):
    M = ctx.model
    S = summariser(ctx)
    subcon = N.selfattr("subcon")
    for cls in CLASSES:
        fi, paths = method_paths(ctx, cls, "_parse")
        rets = [p for p in paths if p.returns]
        ctx.ob("C08.R1", fi, bool(rets), "%s._parse has a successful path" % cls, key="has path")
        for p in rets:
            t = Trace(p, STREAM)
            inner = [e for e in p.events if e.kind == "SUB" and e["target"] == subcon and e["m"] in ("_parsereport", "_parse")]
            ok = len(inner) == 1
            ctx.ob("C08.R1", fi, ok, "%s._parse runs the inner construct exactly once" % cls, key="inner once")
            if not ok:
                continue
            sub = inner[0]
            ns = [e for e in p.events if e.kind == "NEWSTREAM" and e["res"] == sub["stream"]]
            ok = len(ns) == 1 and sub["stream"] != STREAM
            ctx.ob("C08.R1", fi, ok, "the inner construct of %s parses a substream created in this method, not the outer stream" % cls, key="substream")
            if not ok:
                continue
            new = ns[0]
            data = new["args"][0] if new["args"] else None
            # loop-carried accumulation (data += b): the reads of earlier iterations are represented by the loop-carried term
            carried = [x for x in N.walk(data)] if data is not None else []
            carried = [x for x in carried if x[0] == "lv" and any(e.kind == "READ" and e["stream"] == STREAM and x[2] in e.loops for e in p.events)]
            # ... or collected in a list that is joined afterwards: every append to that list (on this path and in the earlier iterations of its
            # loops) is a unit just read from the outer stream
            listed = []
            if data is not None:
                lists = [x for x in N.walk(data) if x[0] == "new" and x[1] == "list"]
                apps = [x for x in list(p.events) + [y for _, evs, _ in getattr(p, "loop_steps", []) for y in evs] if x.kind == "MUT" and x["base"] in lists and x["method"] in ("append", "extend", "insert")]
                if lists and apps and all(x["method"] == "append" and x["args"] and x["args"][0][0] == "read" and x["args"][0][1] == STREAM for x in apps):
                    listed = apps
            from_outer = data is not None and (any(x[0] in ("read", "readall") and x[1] == STREAM for x in N.walk(data)) or bool(carried) or bool(listed))
            ctx.ob("C08.R1", fi, from_outer, "the substream's content is data read from the outer stream (%s)" % N.show(data), key="content from outer")
            after = p.events[p.index(new):]
            touched = [e for e in after if e.kind in ("READ", "READALL", "SEEK", "WRITE", "RAWIO", "TELL") and e.a.get("stream") == STREAM]
            ctx.ob("C08.R1", fi, not touched, "nothing touches the outer stream once the region has been read out", key="outer fixed")
            # ---- R3: offset argument
            ok = new["cls"] == "BytesIOWithOffsets" and len(new["args"]) == 3 and new["args"][1] == STREAM
            ctx.ob("C08.R3", fi, ok, "%s hands its inner construct a BytesIOWithOffsets(data, outer stream, offset)" % cls, key="substream class")
            if ok:
                first = next((e for e in p.events if e.kind in ("READ", "READALL") and e["stream"] == STREAM and
                              any(x == e["res"] for x in N.walk(data))), None)
                # the first byte of the region: position before the first read that contributes to data (loop-carried data: the tell before the loop)
                offarg = new["args"][2]
                # len(<element-wise transform of what was read>) is the length of what was read (C15.R7's recogniser)
                lens = [x for x in N.walk(offarg) if x[0] == "call" and x[1] == ("free", "len") and len(x[2]) == 1]
                if lens:
                    from . import C15 as _C15
                    reads = [e["res"] for e in p.events if e.kind in ("READ", "READALL") and e["stream"] == STREAM]
                    for x in lens:
                        for rd in reads:
                            if x[2][0] != rd and N.contains(x[2][0], rd) and _C15.length_of(N.rebuild(x[2][0], {rd: _C15.IN}), None) == "same":
                                offarg = N.rebuild(offarg, {x: ("call", ("free", "len"), (rd,), ())})
                off = t.val(offarg)
                region_start = None
                if first is None and carried:
                    first = next(e for e in p.events if e.kind == "READ" and e["stream"] == STREAM and carried[0][2] in e.loops)
                if first is None and listed:
                    first = next((e for e in p.events if e.kind == "READ" and e["stream"] == STREAM and e.loops), None)
                if first is not None:
                    region_start = t.pos_before(first)
                    if first.loops:
                        lp = next(e for e in p.events if e.kind == "LOOP" and e["lid"] == first.loops[0])
                        region_start = t.pos_before(lp)
                ctx.ob("C08.R3", fi, region_start is not None and off == region_start,
                       "the offset is a tell of the outer stream at the region's first byte (offset %s, region starts at %s)" % (N.show(off), N.show(region_start) if region_start else "?"), key="offset value")
            # ---- R2 extents
            fin = t.final
            p0 = P0(STREAM)
            if cls == "Prefixed":
                lf = N.selfattr("lengthfield")
                d = [k for k, e in t.deltas.items() if e["target"] == lf and e["m"] == "_parsereport"]
                L = next((e["res"] for e in p.events if e.kind == "SUB" and e["target"] == lf and e["m"] == "_parsereport"), None)
                szs = [e for e in p.events if e.kind == "SUB" and e["target"] == lf and e["m"] == "_sizeof"]
                inc = N.selfattr("includelength") in p.guards()
                exc = N.mk_not(N.selfattr("includelength")) in p.guards()
                ok = len(d) == 1 and L is not None
                if ok:
                    want = N.mk_add(N.mk_add(p0, d[0]), L)
                    if inc:
                        ok = len(szs) == 1 and fin == N.mk_add(want, szs[0]["res"], -1)
                    else:
                        ok = exc and not szs and fin == want
                ctx.ob("C08.R2", fi, ok, "Prefixed ends after the length field plus the announced length%s (got %s)" % (" minus the field's own size" if inc else "", N.show(fin)),
                       key="extent includelength=%s" % inc)
            elif cls == "FixedSized":
                ctx.ob("C08.R2", fi, fin == N.mk_add(p0, ("eval", N.selfattr("length"), CTX)), "FixedSized ends at entry + length (got %s)" % N.show(fin), key="extent")
            elif cls == "OffsettedEnd":
                ctx.ob("C08.R2", fi, fin == N.mk_add(END(STREAM), ("eval", N.selfattr("endoffset"), CTX)), "OffsettedEnd ends at end-of-stream + endoffset (got %s)" % N.show(fin), key="extent")
                rd = [e for e in p.events if e.kind == "READ" and e["stream"] == STREAM]
                ra = [e for e in p.events if e.kind == "READALL" and e["stream"] == STREAM]
                eo = ("eval", N.selfattr("endoffset"), CTX)
                want_len = N.mk_add(N.mk_add(END(STREAM), eo), p0, -1)
                if ra and not rd:
                    # the other spelling: the rest of the stream is read once, the region is its first len + endoffset bytes, and the stream steps
                    # back over the footer (the extent obligation above fixes the final position)
                    okr = len(ra) == 1 and t.pos_before(ra[0]) == p0 and data is not None and data[0] == "sub" and data[1] == ra[0]["res"] and data[2][0] == "slice" \
                        and data[2][1] == N.NONE and data[2][3] == N.NONE and t.val(data[2][2]) == want_len
                    ctx.ob("C08.R2", fi, okr, "the region is read from the entry position and is exactly the bytes up to end-of-stream + endoffset", key="probe restores")
                else:
                    ctx.ob("C08.R2", fi, len(rd) == 1 and t.pos_before(rd[0]) == p0 and t.val(rd[0]["length"]) == want_len,
                           "the end probe restores the current position before the region is read, and the region is exactly the bytes up to end-of-stream + endoffset", key="probe restores")
            elif cls in ("NullStripped", "ProcessXor"):
                ctx.ob("C08.R2", fi, fin == END(STREAM), "%s takes the rest of the stream as its region" % cls, key="extent")
        if cls == "NullTerminated":
            null_terminated(ctx, fi, paths)
        if cls == "NullStripped":
            null_stripped(ctx, fi, paths)
    # the terminator CString looks for / the pad PaddedString strips is one code unit of the encoding: the unit table (shared with C03.R2)
    from . import C03 as _C03
    _C03.unit_table_check(ctx, "C08.R2")
    ctx.floor("C08.R1", 30)
    ctx.floor("C08.R2", 12)
    ctx.floor("C08.R3", 12)   # raised below once the shared Pointer obligations are in
    ctx.floor("C08.R4", 8)
    from . import C04
    C04.shared_obligations(ctx, "C08.R5", {"Prefixed", "FixedSized", "NullTerminated", "NullStripped", "OffsettedEnd", "ProcessXor"})
    ctx.floor("C08.R5", 4)
    # a region wrapped in Lazy: the skip ends exactly at the region end whatever the size probe read (shared with C16.R1);
    # ProcessXor hands the inner construct the whole region: the transform keeps the byte count (shared with C15.R7)
    from ..core import Ctx as _Ctx
    from . import C16, C15
    sub = shared_run(ctx, C16, prop="C16")
    for e in relevant_errors(sub, ("C16.R1",)):
        ctx.error("shared C16 rules: " + e)
    for o in sub.obligations:
        if o.rule == "C16.R1":
            ctx.ob("C08.R6", o.where, o.ok, o.what, key=o.key, loc=o.loc, detail=o.detail)
    C15.length_preserving(ctx, "C08.R6")
    # the probe Lazy uses on a delimiting class measures the region, not its inner construct: never inherited from above the class's _sizeof (shared with C05.R4)
    from . import C05, C09
    C05.probe_specificity(ctx, "C08.R6")
    ctx.floor("C08.R6", 8 + 60)
    # Pointer inside a region: tell, seek, inner construct and the restoring seek all act on one and the same stream, so the region's stream is
    # left where it was (shared with C09.R2)
    if getattr(ctx, "_shared_into_c09", False):
        return
    sub = shared_run(ctx, C09, prop="C09", flags=("_shared_into_c08",))
    for e in sub.errors:
        ctx.error("shared C09 rules: " + e)
    for o in sub.obligations:
        if o.rule == "C09.R2" and str(o.where).startswith("Pointer."):
            ctx.ob("C08.R3", o.where, o.ok, o.what, key=o.key, loc=o.loc, detail=o.detail)

    substream_class_checks(ctx, "C08.R3")
    # a construct that records raw bytes inside a region does it with the region stream's own tell / seek / read (absolute positions mean something
    # only to those): RawCopy takes its data by seeking back and re-reading, never by slicing a buffer with told positions (shared with C14.R1)
    from . import C14 as _C14
    _C14.rawcopy_parse(ctx, "C08.R3")

    # positive control: offset taken after the read
    ctl = control_model(
        "import io\n"
        "def stream_tell(stream, path):\n    return stream.tell()\n"
        "def stream_read(stream, length, path):\n    return stream.read(length)\n"
        "class BytesIOWithOffsets(io.BytesIO):\n"
        "    @staticmethod\n"
        "    def from_reading(stream, length, path):\n"
        "        contents = stream_read(stream, length, path)\n"
        "        offset = stream_tell(stream, path)\n"
        "        return BytesIOWithOffsets(contents, stream, offset)\n")
    from ..core import Ctx
    c2 = Ctx("C08", ctx.tier, ctl.root, model=ctl)
    f2 = ctl.resolve("BytesIOWithOffsets", "from_reading")
    ps = paths_of(c2, f2)
    t2 = Trace(ps[0], STREAM)
    ctx.control("C08.R3", t2.val(ps[0].retval[3][2]) != P0(STREAM))


def null_terminated(ctx, fi, paths, rule="C08.R2"):
    # a unit that is not the terminator is appended, unchanged, at the end of the region data before the next unit is read
    steps = [(evs, env_) for p in paths[:1] for lid, evs, env_ in p.loop_steps]
    if not steps and any(e.kind == "LOOP" and any(x.kind == "READ" and x.loops and x.loops[-1] == e["lid"] for x in p.events) for p in paths for e in p.events):
        # the unit loop is not an unbounded loop left by break/return (e.g. a flag loop `while not terminated`): the induction below has no
        # continuing iteration to start from -- undecided, not violated
        ctx.error("%s undecided: NullTerminated._parse reads its units in a loop that is governed by a condition, not left by break/return; the terminator rules know the `while True` form only" % rule)
        return
    okstep = bool(steps)
    family = "bytes"
    for evs, env_ in steps:
        rd = [e for e in evs if e.kind == "READ"]
        grown = [v for k, v in env_.items() if isinstance(v, tuple) and v and v[0] in ("concat", "uconcat") and v[1][0] == "lv"]
        apps = [e for e in evs if e.kind == "MUT" and e["method"] == "append" and e["base"][0] == "new" and e["base"][1] == "list"]
        if not grown and apps:
            family = "list"       # units collected in a list (joined after the loop): the unit just read is appended, nothing else
            okstep = okstep and len(rd) == 1 and len(apps) == 1 and apps[0]["args"] == (rd[0]["res"],)
            continue
        okstep = okstep and len(rd) == 1 and any(v[2] == rd[0]["res"] and v[1][3] == N.const(b"") for v in grown)
    ctx.ob(rule, fi, okstep, "NullTerminated collects every non-terminator unit, in order, into region data that starts empty", key="NT accumulate")
    if family == "list":
        # the include / consume handling of this spelling happens after the loop on a joined value whose length the position algebra cannot
        # relate to the stream position: the remaining terminator rules are undecided for it (not violated)
        ctx.error("%s undecided: NullTerminated._parse collects its units in a list and joins them after the loop; the include/consume rules know the in-loop spelling only" % rule)
        return
    term = N.selfattr("term")
    unit = ("call", ("free", "len"), (term,), ())
    inc, con, req = N.selfattr("include"), N.selfattr("consume"), N.selfattr("require")
    reads = uniq_events(paths, "READ")
    ctx.ob(rule, fi, bool(reads) and all(e["length"] == unit and e["stream"] == STREAM for e in reads), "NullTerminated reads the outer stream in steps of exactly len(term)", key="NT unit")
    seen = set()
    for p in paths:
        g = p.guards()
        t = Trace(p, STREAM)
        found = [c for c in g if c[0] == "cmp" and c[1] == "==" and term in c[2:] and any(x[0] == "read" for x in c[2:])]
        if found and p.returns:
            rd = [x for x in found[0][2:] if x[0] == "read"][0]
            new = [e for e in p.events if e.kind == "NEWSTREAM"]
            data = new[0]["args"][0] if new and new[0]["args"] else None
            # the unit just read, or -- equal to it under the guard `read == term` -- the terminator itself, appended at the end of the data
            has_term = data is not None and (N.contains(data, rd) or (data[0] in ("concat", "uconcat") and data[-1] == term))
            i = inc in g
            ctx.ob(rule, fi, (inc in g or N.mk_not(inc) in g) and has_term == i, "the terminator is part of the region data exactly when include is set (include=%s, in data=%s)" % (i, has_term), key="NT include=%s" % i)
            seeks = [e for e in p.events if e.kind == "SEEK" and e["stream"] == STREAM]
            c = con in g
            ok = (con in g or N.mk_not(con) in g) and ((not c and len(seeks) == 1 and seeks[0]["offset"] == N.mk_neg(unit) and seeks[0]["whence"] == N.const(1)) or (c and not seeks))
            ctx.ob(rule, fi, ok, "the stream steps back by len(term) exactly when consume is not set (consume=%s)" % c, key="NT consume=%s" % c)
            seen.add(("found", i, c))
        raised = [e for e in p.events if e.kind == "READ" and e.raised]
        if raised and any(e.kind == "CATCH" for e in p.events):
            if req in g:
                seen.add("eof-require")
                ctx.ob(rule, fi, p.outcome[0] == "raise" and p.outcome[1].get("reraised"), "a missing terminator is re-raised when require is set", key="NT require")
            elif N.mk_not(req) in g:
                seen.add("eof-lenient")
                ctx.ob(rule, fi, p.returns, "without require, end of stream ends the region", key="NT not require")
                # no terminator was found on this path: the region is what was collected (no terminator appended, whatever `include` says),
                # and the stream stays at its end (no step back, whatever `consume` says)
                new = [e for e in p.events if e.kind == "NEWSTREAM"]
                data = new[0]["args"][0] if new and new[0]["args"] else None
                ci = p.index(next(e for e in p.events if e.kind == "CATCH"))
                moved = [e for e in p.events[ci:] if e.kind == "SEEK" and e["stream"] == STREAM]
                clean = data is not None and not N.contains(data, term) and not any(x[0] == "read" for x in N.walk(data))
                ctx.ob(rule, fi, p.returns and clean and not moved, "when the stream ends before a terminator is found, nothing is appended to the region and the stream is not stepped back", key="NT eof leaves region and stream alone")
    ctx.ob(rule, fi, len([s for s in seen if isinstance(s, tuple)]) == 4 and "eof-require" in seen and "eof-lenient" in seen,
           "all include/consume combinations and both EOF policies were analysed (%s)" % sorted(map(str, seen)), key="NT coverage")
