#!/usr/bin/env python
"""
Observation script for the z2 twin (data-flow restructuring of Enum/FlagsEnum
construction, the Enum/Mapping/FlagsEnum parse emitters and OneOf/NoneOf).
Prints deterministic observations: lookup tables, parse results, built bytes,
sizeof, stream positions, exception type names, generated source code and the
behaviour of the generated code.

usage: equiv.py <repo root>
"""
import sys, io, enum, re

root = sys.argv[1] if len(sys.argv) > 1 else "."
sys.path.insert(0, root)

from construct import *

N = [0]


def show(label, value):
    N[0] += 1
    print("%03d %s: %s" % (N[0], label, value))


def desc(e):
    chain = []
    c = e.__context__
    while c is not None and len(chain) < 4:
        chain.append(type(c).__name__)
        c = c.__context__
    return "raised %s%s" % (type(e).__name__, (" <- " + ",".join(chain)) if chain else "")


def attempt(func, *a, **kw):
    try:
        return repr(func(*a, **kw))
    except BaseException as e:
        return desc(e)


def parse_pos(d, data, **kw):
    stream = io.BytesIO(data)
    try:
        res = repr(d.parse_stream(stream, **kw))
    except BaseException as e:
        res = desc(e)
    return "%s @%d" % (res, stream.tell())


def typed(d):
    return "{%s}" % ", ".join("%s(%r): %s(%r)" % (type(k).__name__, k, type(v).__name__, v) for k, v in d.items())


class E(enum.IntEnum):
    a = 1
    b = 2
    b_alias = 2


class F(enum.IntFlag):
    x = 4
    y = 8


class G(enum.IntEnum):
    a = 100
    one = 101


# ----------------------------------------------------------------------------
# Enum construction: tables, order, overriding
# ----------------------------------------------------------------------------
enums = {
    "plain": lambda: Enum(Byte, one=1, two=2, four=4, eight=8),
    "empty": lambda: Enum(Byte),
    "synonyms": lambda: Enum(Byte, ok=0, success=0, error=1),
    "merge E": lambda: Enum(Byte, E),
    "merge E,F": lambda: Enum(Byte, E, F),
    "merge E + kw": lambda: Enum(Byte, E, z=26, first=1),
    "kw a overridden by merge G": lambda: Enum(Byte, G, a=1, one=7, tail=9),
    "merge E then G (later wins)": lambda: Enum(Byte, E, G),
    "wide": lambda: Enum(VarInt, small=1, big=2**70),
    "signed": lambda: Enum(Int8sb, neg=-1, zero=0),
}
for title, make in enums.items():
    d = make()
    show("Enum[%s] encmapping" % title, typed(d.encmapping))
    show("Enum[%s] decmapping" % title, typed(d.decmapping))
    show("Enum[%s] ksymapping" % title, typed(d.ksymapping))
    show("Enum[%s] state keys" % title, sorted(d.__getstate__()))

show("Enum merge non-iterable", attempt(Enum, Byte, 5))
show("Enum merge of plain objects", attempt(Enum, Byte, [1, 2]))
show("Enum merge of dict", attempt(Enum, Byte, {"a": 1}))
show("Enum non-construct subcon", attempt(Enum, 5, a=1))
show("Enum merge generator of members", attempt(lambda: typed(Enum(Byte, (m for m in E)).encmapping)))

d = Enum(Byte, E, F, z=26, first=1)
for name in ("a", "b", "b_alias", "x", "y", "z", "first", "missing", "encmapping"):
    show("Enum attr %s" % name, attempt(getattr, d, name))
for x in (0, 1, 2, 4, 8, 26, 27, 255):
    show("Enum parse %d" % x, parse_pos(d, bytes([x])))
for obj in ("a", "b", "b_alias", "first", "x", "z", "nope", "", 1, 200, 256, -1, None, 1.0, b"a", E.b, F.y, d.a):
    show("Enum build %r" % (obj,), attempt(d.build, obj))
show("Enum sizeof", attempt(d.sizeof))
bad = sum(1 for x in range(256) if d.build(d.parse(bytes([x]))) != bytes([x]) or int(d.parse(bytes([x]))) != x)
show("Enum exhaustive byte roundtrip failures", bad)
w = enums["wide"]()
for x in (0, 1, 127, 128, 2**70, 2**70 + 1, 2**100):
    data = VarInt.build(x)
    show("Enum(VarInt) parse/build %d" % x, "%s / %s" % (parse_pos(w, data), attempt(w.build, w.parse(data))))

# ----------------------------------------------------------------------------
# FlagsEnum construction
# ----------------------------------------------------------------------------
flagsenums = {
    "plain": lambda: FlagsEnum(Byte, one=1, two=2, four=4, eight=8),
    "empty": lambda: FlagsEnum(Byte),
    "multi-bit": lambda: FlagsEnum(Byte, r=1, w=2, rw=3, none=0, high=0xF0),
    "merge E,F": lambda: FlagsEnum(Byte, E, F),
    "kw overridden by merge": lambda: FlagsEnum(Byte, G, a=1, one=2, tail=8),
    "merge + kw": lambda: FlagsEnum(Int16ub, F, top=0x8000, x_=1),
}
for title, make in flagsenums.items():
    d = make()
    show("FlagsEnum[%s] flags" % title, typed(d.flags))
    show("FlagsEnum[%s] reverseflags" % title, typed(d.reverseflags))
    show("FlagsEnum[%s] state keys" % title, sorted(d.__getstate__()))
    width = d.sizeof()
    for x in (0, 1, 2, 3, 0x0C, 0xF0, 0xFF):
        data = x.to_bytes(width, "big")
        show("FlagsEnum[%s] parse %#x" % (title, x), parse_pos(d, data))
    for obj in ("one", "r|w", "rw", "a|x", "x|y", "nope", "", " | ", 5, dict(one=True, two=False), dict(r=1, high=1), dict(zz=True), dict(_private=True), None, 2.5):
        show("FlagsEnum[%s] build %r" % (title, obj), attempt(d.build, obj))
show("FlagsEnum merge non-iterable", attempt(FlagsEnum, Byte, 5))
show("FlagsEnum merge of plain objects", attempt(FlagsEnum, Byte, [1, 2]))
d = FlagsEnum(Byte, E, F, extra=16)
for name in ("a", "b_alias", "x", "extra", "missing", "flags"):
    show("FlagsEnum attr %s" % name, attempt(getattr, d, name))
show("FlagsEnum attr or", attempt(lambda: d.a | d.x | d.extra))
show("FlagsEnum build attr or", attempt(lambda: d.build(d.a | d.x | d.extra)))

# ----------------------------------------------------------------------------
# generated code: source text and behaviour
# ----------------------------------------------------------------------------
def show_source(title, d):
    c = d.compile()
    # object ids of linked (non-emitted) instances vary from run to run: number them by first appearance
    ids = {}
    def symbolic(match):
        return "%s[#%d]" % (match.group(1), ids.setdefault(match.group(2), len(ids) + 1))
    source = re.sub(r"(linkedinstances|linkedparsers|linkedbuilders)\[(\d+)\]", symbolic, c.source)
    for i, line in enumerate(source.splitlines()):
        show("source[%s] %02d" % (title, i), line)
    return c


m = Mapping(Byte, {"zero": 0, "one": 1, (2, 3): 2})
compiled = {
    "Enum": (Enum(Byte, E, F, z=26), [bytes([x]) for x in (0, 1, 2, 4, 26, 255)], ["a", "b_alias", "z", 7, "nope", None]),
    "FlagsEnum": (FlagsEnum(Byte, r=1, w=2, rw=3, high=0xF0), [bytes([x]) for x in (0, 1, 3, 0x10, 0xF3)], ["r|w", dict(rw=True), 9, "nope"]),
    "Mapping": (m, [b"\x00", b"\x01", b"\x02", b"\x03"], ["zero", (2, 3), "nope", [1], 0]),
    "Struct": (Struct("e" / Enum(Byte, one=1), "f" / FlagsEnum(Byte, lo=1, hi=128), "m" / Mapping(Byte, {"A": 65}), "e2" / Enum(Int16ub, big=0x0102)),
               [b"\x01\x81A\x01\x02", b"\x09\x00A\x00\x00", b"\x01\x01B\x00\x00", b"\x01"],
               [dict(e="one", f="lo|hi", m="A", e2="big"), dict(e=5, f=0, m="A", e2=6), dict(e="zz", f=0, m="A", e2=6), dict(e=1, f=0, m="Q", e2=6)]),
}
for title, (d, datas, objs) in compiled.items():
    c = show_source(title, d)
    for data in datas:
        show("%s interpreted parse %r" % (title, data), parse_pos(d, data))
        show("%s compiled parse %r" % (title, data), parse_pos(c, data))
    for obj in objs:
        show("%s interpreted build %r" % (title, obj), attempt(d.build, obj))
        show("%s compiled build %r" % (title, obj), attempt(c.build, obj))
    show("%s sizeof" % title, "%s / %s" % (attempt(d.sizeof), attempt(c.sizeof)))

# ----------------------------------------------------------------------------
# OneOf / NoneOf
# ----------------------------------------------------------------------------
log = []


class Odd:
    """container with a non-bool __contains__"""
    def __contains__(self, item):
        log.append("contains(%r)" % (item,))
        return item % 2  # 0 or 1, not a bool


class Moody:
    def __contains__(self, item):
        if item == 3:
            raise RuntimeError("moody")
        return [] if item == 4 else "yes"


class OnlyIter:
    def __iter__(self):
        return iter([1, 2, 3])


collections_ = {
    "list": [4, 5, 6, 7],
    "set": {4, 5, 6, 7},
    "frozenset": frozenset([0, 255]),
    "range": range(10, 250, 7),
    "tuple": (1,),
    "empty": [],
    "bytes": b"\x01\x02A",
    "dict": {3: "x", 4: "y"},
    "Odd": Odd(),
    "Moody": Moody(),
    "OnlyIter": OnlyIter(),
    "mixed": [1, "1", b"\x01", None, 2.0],
}
for title, coll in collections_.items():
    for kind, factory in (("OneOf", OneOf), ("NoneOf", NoneOf)):
        d = factory(Byte, coll)
        accepted_parse, accepted_build, errs = [], [], set()
        for x in range(256):
            try:
                if d.parse(bytes([x])) == x:
                    accepted_parse.append(x)
            except Exception as e:
                errs.add("parse:" + type(e).__name__)
            try:
                if d.build(x) == bytes([x]):
                    accepted_build.append(x)
            except Exception as e:
                errs.add("build:" + type(e).__name__)
        del log[:]

        def compress(xs):
            return "%d values, sum %d, first %r" % (len(xs), sum(xs), xs[:6])
        show("%s(Byte, %s) parse admits" % (kind, title), compress(accepted_parse))
        show("%s(Byte, %s) build admits" % (kind, title), compress(accepted_build))
        show("%s(Byte, %s) errors" % (kind, title), sorted(errs))

d = OneOf(Byte, Odd())
show("OneOf(Odd) parse 3", parse_pos(d, b"\x03"))
show("OneOf(Odd) parse 4", parse_pos(d, b"\x04\x05"))
show("OneOf(Odd) build 3", attempt(d.build, 3))
show("  log", ",".join(log)); del log[:]
d = NoneOf(Byte, Odd())
show("NoneOf(Odd) parse 3", parse_pos(d, b"\x03"))
show("NoneOf(Odd) parse 4", parse_pos(d, b"\x04\x05"))
show("NoneOf(Odd) build 4", attempt(d.build, 4))
show("  log", ",".join(log)); del log[:]
show("OneOf(Moody) parse 3", parse_pos(OneOf(Byte, Moody()), b"\x03"))
show("NoneOf(Moody) parse 3", parse_pos(NoneOf(Byte, Moody()), b"\x03"))
show("OneOf(Moody) parse 4", parse_pos(OneOf(Byte, Moody()), b"\x04"))
show("NoneOf(Moody) parse 4", parse_pos(NoneOf(Byte, Moody()), b"\x04"))

# mutable collection observed at validation time, not at construction time
allowed = [1]
d1, d2 = OneOf(Byte, allowed), NoneOf(Byte, allowed)
show("before mutation", "%s %s" % (parse_pos(d1, b"\x02"), parse_pos(d2, b"\x02")))
allowed.append(2)
show("after mutation", "%s %s" % (parse_pos(d1, b"\x02"), parse_pos(d2, b"\x02")))

# other sub-constructs: bytes and strings
show("OneOf(Bytes(2), list) hit", parse_pos(OneOf(Bytes(2), [b"ab", b"cd"]), b"cdx"))
show("OneOf(Bytes(2), list) miss", parse_pos(OneOf(Bytes(2), [b"ab", b"cd"]), b"cex"))
show("OneOf(Bytes(2), bytes) substring", parse_pos(OneOf(Bytes(2), b"abcd"), b"bcx"))
show("NoneOf(Bytes(2), bytes) substring", parse_pos(NoneOf(Bytes(2), b"abcd"), b"bcx"))
show("OneOf(CString, list)", parse_pos(OneOf(CString("utf8"), ["yes", "no"]), b"no\x00zz"))
show("OneOf(CString, str) substring", parse_pos(OneOf(CString("utf8"), "yesno"), b"sn\x00zz"))
show("NoneOf(PascalString, list)", parse_pos(NoneOf(PascalString(Byte, "utf8"), ["bad"]), b"\x03bad"))
show("OneOf build str", attempt(OneOf(CString("utf8"), ["yes", "no"]).build, "yes"))
show("OneOf build str rejected", attempt(OneOf(CString("utf8"), ["yes", "no"]).build, "maybe"))
show("OneOf build unhashable in set", attempt(OneOf(Byte, {1, 2}).build, [1]))
show("OneOf(Byte, int) not a container", attempt(OneOf(Byte, 5).parse, b"\x05"))
show("NoneOf(Byte, None) not a container", attempt(NoneOf(Byte, None).build, 5))
show("OneOf sizeof", attempt(OneOf(Int32ub, [1]).sizeof))
show("OneOf repr", repr(OneOf("n" / Byte, [1])))
show("OneOf state keys", sorted(OneOf(Byte, [1]).__getstate__()))
show("OneOf type", type(OneOf(Byte, [1])).__name__ + "/" + type(NoneOf(Byte, [1])).__name__)
s = Struct("k" / OneOf(Byte, [1, 2]), "v" / NoneOf(Byte, [0]), "e" / Enum(Byte, E))
show("Struct validators ok", parse_pos(s, b"\x01\x05\x02"))
show("Struct validators bad first", parse_pos(s, b"\x03\x05\x02"))
show("Struct validators bad second", parse_pos(s, b"\x01\x00\x02"))
sc = s.compile()
show("compiled Struct validators ok", parse_pos(sc, b"\x01\x05\x02"))
show("compiled Struct validators bad second", parse_pos(sc, b"\x01\x00\x02"))
show("compiled Struct build", attempt(sc.build, dict(k=2, v=9, e="a")))
show("compiled Struct build rejected", attempt(sc.build, dict(k=9, v=9, e="a")))
show("Select(OneOf, NoneOf)", parse_pos(Select(OneOf(Byte, [1]), NoneOf(Int16ub, [0x0203])), b"\x02\x04"))
show("GreedyRange(NoneOf)", parse_pos(GreedyRange(NoneOf(Byte, [0])), b"\x01\x02\x00\x03"))
