import sys
sys.path.insert(0, sys.argv[1])

import io

from construct import *
from construct.lib import *
from construct.lib.bitstream import RebufferedBytesIO


class LoggedBytesIO(io.BytesIO):
    """substream that reports how it is used"""
    def read(self, n=-1):
        r = io.BytesIO.read(self, n)
        print("      sub.read(%r) -> %d bytes, sub.tell=%d" % (n, len(r), self.tell()))
        return r


def state(s):
    return "offset=%r moved=%r rwbuffer=%r cached=[%r,%r) tell=%r" % (
        s.offset, s.moved, s.rwbuffer, s.cachedfrom(), s.cachedto(), s.tell())


def step(s, label, fn):
    try:
        r = fn()
        print("   %s -> %r | %s" % (label, r, state(s)))
    except Exception as e:
        print("   %s !! %s: %s | %s" % (label, type(e).__name__, e, state(s)))


DATA = bytes(range(48, 48 + 40))

for cutoff in (None, 0, 1, 3, 8, 100, -2):
    print("== read scenario tailcutoff=%r" % (cutoff,))
    s = RebufferedBytesIO(LoggedBytesIO(DATA), tailcutoff=cutoff)
    step(s, "read(0)", lambda: s.read(0))
    step(s, "read(4)", lambda: s.read(4))
    step(s, "read(1)", lambda: s.read(1))
    step(s, "seek(2)", lambda: s.seek(2))
    step(s, "read(3)", lambda: s.read(3))
    step(s, "seek(-1,1)", lambda: s.seek(-1, 1))
    step(s, "read(10)", lambda: s.read(10))
    step(s, "seek(0)", lambda: s.seek(0))
    step(s, "read(2)", lambda: s.read(2))
    step(s, "seek(30)", lambda: s.seek(30))
    step(s, "read(10)", lambda: s.read(10))
    step(s, "read(None)", lambda: s.read())
    step(s, "seek(0,2)", lambda: s.seek(0, 2))
    step(s, "seekable/tellable", lambda: (s.seekable(), s.tellable()))

for cutoff in (None, 0, 2, 5, 64, -3):
    print("== write scenario tailcutoff=%r" % (cutoff,))
    s = RebufferedBytesIO(LoggedBytesIO(DATA), tailcutoff=cutoff)
    step(s, "write(b'')", lambda: s.write(b""))
    step(s, "write(b'abcd')", lambda: s.write(b"abcd"))
    step(s, "write(b'e')", lambda: s.write(b"e"))
    step(s, "seek(-2,1)", lambda: s.seek(-2, 1))
    step(s, "write(b'XYZ')", lambda: s.write(b"XYZ"))
    step(s, "seek(1)", lambda: s.seek(1))
    step(s, "write(b'q')", lambda: s.write(b"q"))
    step(s, "seek(20)", lambda: s.seek(20))
    step(s, "write(b'far')", lambda: s.write(b"far"))
    step(s, "seek(18)", lambda: s.seek(18))
    step(s, "read(4)", lambda: s.read(4))
    step(s, "write(b'0123456789')", lambda: s.write(b"0123456789"))

print("== mixed read/write tailcutoff=4")
s = RebufferedBytesIO(LoggedBytesIO(DATA), tailcutoff=4)
for i in range(6):
    step(s, "read(3) #%d" % i, lambda: s.read(3))
    step(s, "write(b'..') #%d" % i, lambda: s.write(b".."))
    step(s, "seek(-4,1) #%d" % i, lambda: s.seek(-4, 1))
    step(s, "read(1) #%d" % i, lambda: s.read(1))

print("== through the Rebuffered construct")


def obs(label, fn):
    try:
        print("%s -> %r" % (label, fn()))
    except Exception as e:
        print("%s !! %s: %s" % (label, type(e).__name__, e))


d = Rebuffered(Struct("a" / Int16ub, "p" / Tell, "b" / Pointer(0, Byte), "c" / Bytes(3), "q" / Tell))
obs("parse", lambda: [(k, v) for k, v in d.parse(b"\x01\x02abcXX").items() if k != "_io"])
obs("build", lambda: d.build(dict(a=258, b=1, c=b"abc")))
obs("sizeof", lambda: d.sizeof())
d = Rebuffered(Struct("a" / Bytes(6), "b" / Pointer(0, Byte)), tailcutoff=2)
obs("parse tailcutoff pointer back", lambda: d.parse(b"abcdefgh"))
d = Rebuffered(Struct("a" / Bytes(6), "b" / Pointer(5, Byte), "t" / Tell), tailcutoff=2)
obs("parse tailcutoff pointer near", lambda: [(k, v) for k, v in d.parse(b"abcdefgh").items() if k != "_io"])
obs("build tailcutoff", lambda: d.build(dict(a=b"abcdef", b=90)))
obs("Rebuffered(GreedyBytes)", lambda: Rebuffered(GreedyBytes).parse(b"abc"))
obs("Rebuffered(Array) parse", lambda: Rebuffered(Array(4, Int16ul), tailcutoff=1).parse(bytes(range(8))))
obs("Rebuffered(Array) build", lambda: Rebuffered(Array(4, Int16ul), tailcutoff=1).build([1, 2, 3, 4]))
obs("Rebuffered(Byte) compile", lambda: Rebuffered(Byte).compile())
