#!/usr/bin/env python
"""usage: equiv.py <repo root>

Prints a deterministic transcript of what the interpreter and the compiled instance do for a set
of constructs built around Sequence, FocusedSeq and Union (the emitters restructured by the patch):
the generated source (ids of linked instances normalised), parse results, stream positions, built
bytes, sizeof, and exception type names. The transcript of the clean tree and of the changed tree
must be byte-identical.
"""
import sys, io, re, hashlib

root = sys.argv[1] if len(sys.argv) > 1 else "."
sys.path.insert(0, root)

from construct import *


def normalise(source):
    ids = {}
    def repl(m):
        return "%s[#%d]" % (m.group(1), ids.setdefault(m.group(2), len(ids)))
    source = re.sub(r"(linkedinstances|linkedparsers|linkedbuilders)\[(\d+)\]", repl, source)
    return re.sub(r" at 0x[0-9a-fA-F]+", " at 0x?", source)


def outcome(func, *args, **kw):
    try:
        return "ok %r" % (func(*args, **kw),)
    except Exception as e:
        return "raised %s" % (type(e).__name__,)


def parse_with_position(d, data, ctx):
    stream = io.BytesIO(data)
    try:
        obj = d.parse_stream(stream, **ctx)
    except Exception as e:
        return "raised %s" % (type(e).__name__,)
    return "ok %r pos=%d" % (obj, stream.tell())


def build_with_position(d, obj, ctx):
    stream = io.BytesIO()
    try:
        d.build_stream(obj, stream, **ctx)
    except Exception as e:
        return "raised %s" % (type(e).__name__,)
    return "ok %s pos=%d" % (stream.getvalue().hex(), stream.tell())


def report(label, d, datas=(), objs=(), dump=False, **ctx):
    print("=== %s ctx=%r" % (label, sorted(ctx.items())))
    try:
        c = d.compile()
    except Exception as e:
        print("compile raised %s" % (type(e).__name__,))
        c = None
    if c is not None:
        source = normalise(c.source)
        print("source sha1 %s lines %d" % (hashlib.sha1(source.encode()).hexdigest(), source.count("\n")))
        if dump:
            for line in source.splitlines()[20:]:
                print("    | " + line)
    for data in datas:
        print("parse %s" % (data.hex(),))
        print("    interpreter: " + parse_with_position(d, data, ctx))
        if c is not None:
            print("    compiled   : " + parse_with_position(c, data, ctx))
    for obj in objs:
        print("build %r" % (obj,))
        print("    interpreter: " + build_with_position(d, obj, ctx))
        if c is not None:
            print("    compiled   : " + build_with_position(c, obj, ctx))
    print("sizeof interpreter: " + outcome(d.sizeof, **ctx))
    if c is not None:
        print("sizeof compiled   : " + outcome(c.sizeof, **ctx))


# ---------------------------------------------------------------- Sequence
report("Sequence unnamed", Sequence(Byte, Int16ub, Bytes(2)), dump=True,
       datas=[b"\x01\x02\x03ab", b"\x01\x02\x03abEXTRA", b"\x01\x02"],
       objs=[[1, 515, b"ab"], [1, 515], [0, 0, b""], None])
report("Sequence named, dependent members", Sequence("n" / Byte, "data" / Bytes(this.n), Byte, "m" / Computed(this.n * 2 + len_(this.data)), Bytes(this.m - this.n * 3)), dump=True,
       datas=[b"\x02ab\x07", b"\x00\x09", b"\x03abc\xff--", b"\x05ab"],
       objs=[[2, b"ab", 7, None, b""], [0, b"", 9, None, b""], [3, b"ab", 1, None, b""]])
report("Sequence with StopIf", Sequence("a" / Byte, StopIf(this.a == 0), "b" / Byte, StopIf(this.b > 200), Int16ul), dump=True,
       datas=[b"\x00\x01\x02\x03", b"\x01\xff\x02\x03", b"\x01\x02\x03\x04", b"\x01"],
       objs=[[0, None, 1, None, 2], [1, None, 255, None, 2], [1, None, 2, None, 772], [1]])
report("Sequence nested in Sequence", Sequence("k" / Byte, Sequence("j" / Byte, Bytes(this.j), Bytes(this._.k)), "t" / Tell, Bytes(1)),
       datas=[b"\x01\x02xyZ!", b"\x00\x00!", b"\x09\x01"],
       objs=[[1, [2, b"xy", b"Z"], None, b"!"], [0, [0, b"", b""], None, b"?"]])
report("Sequence in Struct with probe", Struct("s" / Sequence("x" / Int16ub, "y" / Byte), "n" / Computed(this.s[0] + this.s[1]), "tail" / Bytes(this.n)),
       datas=[b"\x00\x01\x02abc", b"\x01\x00\x2c" + bytes(300), b"\x00\x00\x00"],
       objs=[dict(s=[1, 2], tail=b"abc"), dict(s=[256, 44], tail=bytes(300)), dict(s=[0, 0], tail=b"")])
report("Sequence with keyword context", Sequence(Bytes(this._.width), "f" / Flag, If(this.f, Byte)), width=2,
       datas=[b"ab\x01\x05", b"ab\x00\x05", b"a"],
       objs=[[b"ab", True, 5], [b"ab", False, None], [b"a", True, 5]])
report("Sequence of fallback (linked) members", Sequence("v" / VarInt, CString("utf8"), Bytes(this.v)), dump=True,
       datas=[b"\x02hi\x00ab", b"\x80\x01x\x00" + bytes(128)],
       objs=[[2, "hi", b"ab"], [0, "", b""]])
report("Array of Sequence", Array(this.count, Sequence("a" / Byte, Bytes(this.a))), count=2,
       datas=[b"\x01x\x02yz", b"\x00\x00rest", b"\x01"],
       objs=[[[1, b"x"], [2, b"yz"]], [[0, b""], [0, b""]], [[1, b"x"]]])
report("empty Sequence", Sequence(), datas=[b"", b"abc"], objs=[[], None, [1]])

# ---------------------------------------------------------------- FocusedSeq
report("FocusedSeq by name", FocusedSeq("num", Const(b"SIG"), "num" / Byte, Terminated), dump=True,
       datas=[b"SIG\xff", b"SIG\x00", b"SIG\x01x", b"SIX\x01"],
       objs=[255, 0, 256])
report("FocusedSeq dependent members", FocusedSeq("data", "len" / Rebuild(Byte, len_(this.data)), "data" / Bytes(this.len), Padding(1)), dump=True,
       datas=[b"\x02ab\x00", b"\x00\x00", b"\x03ab"],
       objs=[b"ab", b"", bytes(300)])
report("FocusedSeq mixed anonymous and named", FocusedSeq("b", Byte, "a" / Byte, Bytes(this.a), "b" / Int16ul, Tell),
       datas=[b"\x09\x01x\x34\x12", b"\x09\x00\x00\x00..", b"\x09"],
       objs=[0x1234, 0])
report("FocusedSeq focus on last of repeated name", FocusedSeq("x", "x" / Byte, "y" / Byte, "x" / Bytes(this.y)),
       datas=[b"\x01\x02ab", b"\x01\x00"],
       objs=[b"ab"])
report("FocusedSeq in Struct with probe", Struct("n" / FocusedSeq("v", Const(b"\x7f"), "v" / Int16ub), "tail" / Bytes(this.n)),
       datas=[b"\x7f\x00\x02ab", b"\x7f\x01\x04" + bytes(260), b"\x7e\x00\x00"],
       objs=[dict(n=2, tail=b"ab"), dict(n=260, tail=bytes(260)), dict(n=0, tail=b"")])
report("FocusedSeq focus missing", FocusedSeq("nope", "a" / Byte),
       datas=[b"\x01"], objs=[1])
report("PrefixedArray (FocusedSeq macro)", PrefixedArray(Byte, Int16ub),
       datas=[b"\x02\x00\x01\x00\x02", b"\x00", b"\x02\x00"],
       objs=[[1, 2], [], [70000]])
report("FocusedSeq keyword context", FocusedSeq("p", Bytes(this._.skip), "p" / Byte), skip=3,
       datas=[b"abc\x09", b"ab"], objs=[9])

# ---------------------------------------------------------------- Union
u = Union(0, "whole" / Int16ub, "parts" / Sequence(Byte, Byte), "raw" / Bytes(2))
report("Union build from each member", u, dump=True,
       datas=[b"\x01\x02", b"\x01\x02rest", b"\x01"],
       objs=[dict(whole=258), dict(parts=[1, 2]), dict(raw=b"zz"), dict(parts=[3, 4], whole=5), dict(), dict(other=1)])
report("Union with buildnone members", Union(None, "a" / Default(Byte, 7), "b" / Int16ub), dump=True,
       datas=[b"\x01\x02"],
       objs=[dict(), dict(a=None), dict(a=0), dict(b=5)])
report("Union with anonymous members", Union(None, Byte, "x" / Int16ul, Const(b"\x01")), dump=True,
       datas=[b"\x01\x02", b"\x02\x02"],
       objs=[dict(x=513), dict()])
report("Union with anonymous buildnone first", Union(None, Const(b"\x05"), "x" / Byte),
       datas=[b"\x05"], objs=[dict(x=1), dict()])
report("Union in Struct with probe", Struct("u" / Union("n", "n" / Byte, "w" / Int16ub), "k" / Computed(this.u.n), "tail" / Bytes(this.k)),
       datas=[b"\x02ab", b"\x00", b"\x03ab"],
       objs=[dict(u=dict(n=2), tail=b"ab"), dict(u=dict(n=0), tail=b""), dict(u=dict(w=258), tail=b"")])
report("Union member depends on context", Struct("n" / Byte, "u" / Union(None, "s" / Bytes(this._.n), "b" / Byte)),
       datas=[b"\x02ab", b"\x00"],
       objs=[dict(n=2, u=dict(s=b"ab")), dict(n=1, u=dict(b=255)), dict(n=1, u=dict(s=b"toolong"))])
report("Sequence of Union and FocusedSeq", Sequence("u" / Union(1, "a" / Byte, "b" / Int16ub), "f" / FocusedSeq("q", "q" / Byte), Bytes(this.f)),
       datas=[b"\x00\x05\x02xy", b"\x00\x05\x00"],
       objs=[[dict(b=5), 2, b"xy"], [dict(a=5), 0, b""]])
